------------------------------ MODULE PolicyMap ------------------------------
(***************************************************************************)
(* The agent's side of the kernel redirect policy (C06 "an address          *)
(* CURRENTLY listed in the redirect policy", C09 "interception follows the  *)
(* mode"): what the key keeper instructs per endpoint, and what policy_map  *)
(* must then hold.                                                          *)
(*                                                                          *)
(* An instruction update_{wire_server,imds,hostga}_redirect_policy(on) is   *)
(* the idempotent form of Ebpf!PolicyAdd / Ebpf!PolicyRemove for the        *)
(* endpoint's (ip, port, TCP) key: "on" lists it (value = the proxy         *)
(* listener), "off" unlists it, repeating an instruction changes nothing.   *)
(* WireServer and HostGAPlugin share the ADDRESS and differ in the port;    *)
(* a policy_map key is (ip, port, protocol).                                *)
(*                                                                          *)
(* want (ghost) is the last instruction per endpoint (at start: what        *)
(* Redirector::start_internal listed).  MapAsInstructed is the property:    *)
(* the map lists exactly the endpoints whose last instruction was "on",     *)
(* each diverted to the proxy listener.                                     *)
(***************************************************************************)
EXTENDS Ebpf

VARIABLE want      \* ghost: endpoint -> BOOLEAN, the last instruction

WsIp == "168.63.129.16"
ImdsIp == "169.254.169.254"
EpNames == {"ws", "imds", "ga"}
Addr == [ws |-> <<WsIp, 80>>, imds |-> <<ImdsIp, 80>>, ga |-> <<WsIp, 32526>>]
EpKey(e) == Key(Addr[e][1], Addr[e][2], TCP)
PM_Listable == {Addr[e] : e \in EpNames}
PM_Ips == {WsIp, ImdsIp}
PM_Ports == {80, 32526}
PM_Proxy == [ip |-> "127.0.0.1", port |-> 3080]

MapFor(S) == [k \in {EpKey(e) : e \in S} |-> Proxy]
Listed == {e \in EpNames : EpKey(e) \in DOMAIN policy}

\* the state Redirector::start_internal leaves: the endpoints in S listed
Started(S) == /\ policy = MapFor(S) /\ want = [e \in EpNames |-> e \in S]
              /\ skip = {} /\ localMap = <<>> /\ auditMap = <<>>
              /\ pc = [t \in Threads |-> "idle"] /\ cur = [t \in Threads |-> Idle]
              /\ lastOther = [div |-> FALSE, same |-> TRUE]
              /\ truth = [s \in SPorts |-> None] /\ left = [s \in SPorts |-> None]

\* one call of update_*_redirect_policy(on) for endpoint e
Instruct(e, on) ==
  /\ IF on THEN PolicyAdd(Addr[e]) \/ (EpKey(e) \in DOMAIN policy /\ UNCHANGED vars)
           ELSE PolicyRemove(Addr[e]) \/ (EpKey(e) \notin DOMAIN policy /\ UNCHANGED vars)
  /\ want' = [want EXCEPT ![e] = on]

MapAsInstructed == policy = MapFor({e \in EpNames : want[e]})
=============================================================================
