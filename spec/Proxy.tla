-------------------------------- MODULE Proxy --------------------------------
(***************************************************************************)
(* The proxy's request pipeline (proxy_server.rs / proxy_connection.rs),    *)
(* serving C01 C03 C05 C07 C10 C11 C15.                                     *)
(*                                                                         *)
(* One action per step of the code that touches state shared with another  *)
(* task (the kernel's audit map, the key-keeper actor, the agent-status     *)
(* actor, the upstream connection); the purely local checks between two     *)
(* such steps are folded into the step that follows them:                   *)
(*                                                                         *)
(*   ClientConnect   kernel hook writes audit[port] (attributed connects)   *)
(*   AcceptLookup    TcpConnectionContext::get_audit_entry: lookup_audit    *)
(*   AcceptRemove    ... remove_audit (a second, separate step)             *)
(*   StartRequest    a request arrives on an accepted connection            *)
(*   Eval            body-limit layer (413 on a declared over-limit body),  *)
(*                   traversal (404), /provision, no destination (421)      *)
(*   GetRules        get_access_control_rules: one actor message (or 500)   *)
(*   Authorize       authorize + failed-summary entry (403 when Forbidden)  *)
(*   Collect         add owned headers, collect the body (400 over limit)   *)
(*   ReadKey1/2      get_current_key_value, get_current_key_guid: TWO actor *)
(*                   messages when SplitKeyRead (the code as found), ONE    *)
(*                   (ReadKeyPair) when ~SplitKeyRead (after the repair)    *)
(*   Send            sign, relay upstream, answer the client                *)
(*   environment:    SetRules, SetKey, ClearKey, SetFault, Close, Reopen    *)
(*                                                                         *)
(* A request shape carries what the pipeline's decisions depend on:         *)
(*   trav, prov : BOOLEAN      path contains "..", target is /provision     *)
(*   rbac       : BOOLEAN      Rbac!Decision for this caller and URL under  *)
(*                             whichever rule document is in force          *)
(*   exempt     : BOOLEAN      signature-exempt upload (large body limit)   *)
(*   over       : BOOLEAN      body larger than the limit of its class      *)
(*   framing    : "cl"|"chunked"                                            *)
(*   spoof      : 0..2         client-supplied copies of each owned header  *)
(***************************************************************************)
EXTENDS Naturals, Sequences, FiniteSets, TLC

CONSTANTS Conn, Port, Ident, Keys, Shapes, MaxReq, SplitKeyRead, EnvBudget,
          DestSet,      \* destinations the kernel may record (subset of Authz!Dests)
          MaxConnects   \* bound on the number of connects (keeps the reachable graph finite and small)

A == INSTANCE Authz

NoAttr == [has |-> FALSE, id |-> "none", elevated |-> FALSE, dest |-> "none"]
Attr(i, d) == [has |-> TRUE, id |-> i.id, elevated |-> i.elevated, dest |-> d]
NoReq == [pc |-> "none"]

VARIABLES audit, conn, rules, fault, key, req, nreq, upstream, out, failed, env, nconn

vars == <<audit, conn, rules, fault, key, req, nreq, upstream, out, failed, env, nconn>>

Eps == {"ws", "ga", "imds"}

Init ==
  /\ audit = [p \in Port |-> NoAttr]
  /\ conn = [c \in Conn |-> [st |-> "idle", port |-> CHOOSE p \in Port : TRUE, attr |-> NoAttr, own |-> NoAttr]]
  /\ rules = [e \in Eps |-> "none"]
  /\ fault = FALSE
  /\ key = "nokey"
  /\ req = [c \in Conn |-> NoReq]
  /\ nreq = [c \in Conn |-> 0]
  /\ upstream = {}
  /\ out = [c \in Conn |-> <<>>]
  /\ failed = 0
  /\ env = 0
  /\ nconn = 0

-----------------------------------------------------------------------------
\* connection establishment and attribution (C07)

PortFree(p) == \A c \in Conn : conn[c].st \in {"idle", "closed"} \/ conn[c].port # p

\* A local process connects; with `attributed` the kernel hook publishes the record under the source port first.
ClientConnect(c, p, attributed, i, d) ==
  /\ conn[c].st = "idle" /\ PortFree(p) /\ nconn < MaxConnects
  /\ nconn' = nconn + 1
  /\ LET rec == IF attributed THEN Attr(i, d) ELSE NoAttr IN
     /\ audit' = IF attributed THEN [audit EXCEPT ![p] = rec] ELSE audit
     /\ conn' = [conn EXCEPT ![c] = [st |-> "syn", port |-> p, attr |-> NoAttr, own |-> rec]]
  /\ UNCHANGED <<rules, fault, key, req, nreq, upstream, out, failed, env>>

AcceptLookup(c) ==
  /\ conn[c].st = "syn"
  /\ conn' = [conn EXCEPT ![c].st = "looked", ![c].attr = audit[conn[c].port]]
  /\ UNCHANGED <<audit, rules, fault, key, req, nreq, upstream, out, failed, env, nconn>>

\* the record is consumed when the connection is accepted (only if the lookup found one)
AcceptRemove(c) ==
  /\ conn[c].st = "looked"
  /\ audit' = IF conn[c].attr.has THEN [audit EXCEPT ![conn[c].port] = NoAttr] ELSE audit
  /\ conn' = [conn EXCEPT ![c].st = "accepted"]
  /\ UNCHANGED <<rules, fault, key, req, nreq, upstream, out, failed, env, nconn>>

Close(c) ==
  /\ conn[c].st = "accepted" /\ req[c].pc = "none"
  /\ conn' = [conn EXCEPT ![c].st = "closed"]
  /\ UNCHANGED <<audit, rules, fault, key, req, nreq, upstream, out, failed, env, nconn>>

Reopen(c) ==
  /\ conn[c].st = "closed"
  /\ conn' = [conn EXCEPT ![c].st = "idle", ![c].attr = NoAttr, ![c].own = NoAttr]
  /\ UNCHANGED <<audit, rules, fault, key, req, nreq, upstream, out, failed, env, nconn>>

-----------------------------------------------------------------------------
\* the request pipeline

Respond(c, status, fwd) ==
  /\ out' = [out EXCEPT ![c] = Append(@, [n |-> nreq[c], status |-> status, forwarded |-> fwd, shape |-> req[c].shape])]
  /\ req' = [req EXCEPT ![c] = NoReq]

StartRequest(c, s) ==
  /\ conn[c].st = "accepted" /\ req[c].pc = "none" /\ nreq[c] < MaxReq
  /\ nreq' = [nreq EXCEPT ![c] = @ + 1]
  /\ req' = [req EXCEPT ![c] = [pc |-> "eval", shape |-> s, rulesRead |-> "none", az |-> "none",
                                 k1 |-> "nokey", k2 |-> "nokey"]]
  /\ UNCHANGED <<audit, conn, rules, fault, key, upstream, out, failed, env, nconn>>

Eval(c) ==
  /\ req[c].pc = "eval"
  /\ LET s == req[c].shape IN
     IF s.framing = "cl" /\ s.over THEN Respond(c, 413, FALSE)
     ELSE IF s.trav THEN Respond(c, 404, FALSE)
     ELSE IF s.prov THEN Respond(c, 200, FALSE)          \* answered locally
     ELSE IF ~conn[c].attr.has THEN Respond(c, 421, FALSE)
     ELSE req' = [req EXCEPT ![c].pc = "getrules"] /\ UNCHANGED out
  /\ UNCHANGED <<audit, conn, rules, fault, key, nreq, upstream, failed, env, nconn>>

GetRules(c) ==
  /\ req[c].pc = "getrules"
  /\ LET d == conn[c].attr.dest IN
     IF fault /\ A!RulesApply(d) THEN Respond(c, 500, FALSE)
     ELSE /\ req' = [req EXCEPT ![c].pc = "authorize",
                                ![c].rulesRead = IF A!RulesApply(d) THEN rules[d] ELSE "none"]
          /\ UNCHANGED out
  /\ UNCHANGED <<audit, conn, rules, fault, key, nreq, upstream, failed, env, nconn>>

RbacEff(r) == IF r.rulesRead \in {"none", "disabled"} THEN TRUE ELSE r.shape.rbac

Authorize(c) ==
  /\ req[c].pc = "authorize"
  /\ LET at == conn[c].attr
         az == A!Result(at.dest, at.elevated, req[c].rulesRead, RbacEff(req[c])) IN
     /\ failed' = IF az # "Ok" THEN failed + 1 ELSE failed
     /\ IF az = "Forbidden" THEN Respond(c, 403, FALSE)
        ELSE req' = [req EXCEPT ![c].pc = "collect", ![c].az = az] /\ UNCHANGED out
  /\ UNCHANGED <<audit, conn, rules, fault, key, nreq, upstream, env, nconn>>

Collect(c) ==
  /\ req[c].pc = "collect"
  /\ LET s == req[c].shape IN
     IF s.over THEN Respond(c, 400, FALSE)                \* discovered while reading a chunked body
     ELSE /\ req' = [req EXCEPT ![c].pc = IF s.exempt THEN "send" ELSE IF SplitKeyRead THEN "key1" ELSE "keypair"]
          /\ UNCHANGED out
  /\ UNCHANGED <<audit, conn, rules, fault, key, nreq, upstream, failed, env, nconn>>

ReadKey1(c) ==      \* get_current_key_value
  /\ req[c].pc = "key1"
  /\ req' = [req EXCEPT ![c].pc = "key2", ![c].k1 = key]
  /\ UNCHANGED <<audit, conn, rules, fault, key, nreq, upstream, out, failed, env, nconn>>

ReadKey2(c) ==      \* get_current_key_guid
  /\ req[c].pc = "key2"
  /\ req' = [req EXCEPT ![c].pc = "send", ![c].k2 = key]
  /\ UNCHANGED <<audit, conn, rules, fault, key, nreq, upstream, out, failed, env, nconn>>

ReadKeyPair(c) ==   \* one actor message returning the key (value and id together)
  /\ req[c].pc = "keypair"
  /\ req' = [req EXCEPT ![c].pc = "send", ![c].k1 = key, ![c].k2 = key]
  /\ UNCHANGED <<audit, conn, rules, fault, key, nreq, upstream, out, failed, env, nconn>>

Send(c) ==
  /\ req[c].pc = "send"
  /\ LET r == req[c]
         at == conn[c].attr
         signed == ~r.shape.exempt /\ r.k1 # "nokey" /\ r.k2 # "nokey"
         u == [conn |-> c, n |-> nreq[c], attr |-> at, own |-> conn[c].own, rulesRead |-> r.rulesRead,
               rbac |-> RbacEff(r), az |-> r.az, shape |-> r.shape,
               signed |-> signed, sigSecret |-> IF signed THEN r.k1 ELSE "nokey", sigId |-> IF signed THEN r.k2 ELSE "nokey",
               \* header facts established by the replace-all inserts in Collect/Send
               claims |-> 1, claimsElevated |-> at.elevated, date |-> 1,
               clientOwned |-> 0, auth |-> IF signed THEN 1 ELSE r.shape.spoof, clientAuth |-> IF signed THEN 0 ELSE r.shape.spoof]
     IN /\ upstream' = upstream \cup {u}
        /\ Respond(c, 299, TRUE)                          \* 299 stands for "whatever the host answered"
  /\ UNCHANGED <<audit, conn, rules, fault, key, nreq, failed, env, nconn>>

-----------------------------------------------------------------------------
\* environment (key keeper and fault switch), bounded by EnvBudget steps

EnvStep == env < EnvBudget /\ env' = env + 1
SetRules(e, m) == /\ EnvStep /\ rules[e] # m /\ rules' = [rules EXCEPT ![e] = m]
                  /\ UNCHANGED <<audit, conn, fault, key, req, nreq, upstream, out, failed, nconn>>
SetKey(k) == /\ EnvStep /\ key # k /\ key' = k
             /\ UNCHANGED <<audit, conn, rules, fault, req, nreq, upstream, out, failed, nconn>>
ClearKey == /\ EnvStep /\ key # "nokey" /\ key' = "nokey"
            /\ UNCHANGED <<audit, conn, rules, fault, req, nreq, upstream, out, failed, nconn>>
SetFault(b) == /\ EnvStep /\ fault # b /\ fault' = b
               /\ UNCHANGED <<audit, conn, rules, key, req, nreq, upstream, out, failed, nconn>>

Next ==
  \/ \E c \in Conn, p \in Port, at \in BOOLEAN, i \in Ident, d \in DestSet : ClientConnect(c, p, at, i, d)
  \/ \E c \in Conn : AcceptLookup(c) \/ AcceptRemove(c) \/ Close(c) \/ Reopen(c)
  \/ \E c \in Conn, s \in Shapes : StartRequest(c, s)
  \/ \E c \in Conn : Eval(c) \/ GetRules(c) \/ Authorize(c) \/ Collect(c) \/ ReadKey1(c) \/ ReadKey2(c)
                     \/ ReadKeyPair(c) \/ Send(c)
  \/ \E e \in Eps, m \in A!RuleModes : SetRules(e, m)
  \/ \E k \in Keys : SetKey(k)
  \/ ClearKey
  \/ \E b \in BOOLEAN : SetFault(b)

Spec == Init /\ [][Next]_vars

-----------------------------------------------------------------------------
\* Properties.  Each u in `upstream` carries the ghost facts of the step that produced it.

\* C01 complete mediation: relayed => attributed and authorized by the rules read for this request
Mediation ==
  \A u \in upstream :
    /\ u.attr.has
    /\ A!Result(u.attr.dest, u.attr.elevated, u.rulesRead, u.rbac) \in {"Ok", "OkWithAudit"}
    /\ ~u.shape.trav /\ ~u.shape.prov
\* ... and in every other case an error status and nothing relayed
StatusMap ==
  \A c \in Conn : \A i \in 1..Len(out[c]) :
    LET o == out[c][i] IN
    (~o.forwarded) => o.status \in {404, 421, 500, 403, 413, 400, 200}
NothingLeaks ==   \* a response that is not marked forwarded has no upstream record
  \A c \in Conn : \A i \in 1..Len(out[c]) :
    (~out[c][i].forwarded) => ~\E u \in upstream : u.conn = c /\ u.n = out[c][i].n

\* C03
RootOnly == \A u \in upstream : (u.attr.dest \in {"ws", "ga"} => u.attr.elevated) /\ u.attr.dest # "self"

\* C05
OwnedHeaders == \A u \in upstream :
  /\ u.claims = 1 /\ u.date = 1 /\ u.clientOwned = 0 /\ u.claimsElevated = u.attr.elevated
  /\ u.signed => (u.auth = 1 /\ u.clientAuth = 0)

\* C07 attribution is single-use
SingleUse ==
  /\ \A c \in Conn : conn[c].attr.has => conn[c].attr = conn[c].own
  /\ \A c \in Conn : conn[c].st = "accepted" => ~audit[conn[c].port].has
  /\ \A u \in upstream : u.attr = u.own

\* C10
KeyPairing == \A u \in upstream : u.signed => u.sigSecret = u.sigId

\* C11 (the per-request part; Authz carries EnforceBlocks/AuditForwards)
Modes == \A u \in upstream : u.rulesRead = "enforce" => u.rbac
DenialCountedStep ==   \* every authorize step that is not plain Ok adds exactly one entry, nothing else does
  [][failed' # failed =>
       /\ failed' = failed + 1
       /\ \E c \in Conn : req[c].pc = "authorize" /\
            A!Result(conn[c].attr.dest, conn[c].attr.elevated, req[c].rulesRead, RbacEff(req[c])) # "Ok"]_vars

\* C15
BodyLimit == \A u \in upstream : ~u.shape.over

TypeOK == /\ failed \in Nat /\ env \in 0..EnvBudget
=============================================================================
