----------------------------- MODULE ExtHandler -----------------------------
(***************************************************************************)
(* X02 -- the VM extension's handler commands and its service loop.        *)
(* (growth of the specification beyond the 20 listed properties; the       *)
(* properties below are NEW, derived from the evident intent of the code)  *)
(*                                                                         *)
(* Implementation-shaped model of                                          *)
(*   proxy_agent_extension/src/handler_main.rs  install / enable / disable *)
(*       / update / uninstall / reset, one process per command, started by *)
(*       the guest agent with ConfigSequenceNumber in the environment;     *)
(*   proxy_agent_extension/src/common.rs  update_current_seq_no,           *)
(*       get_current_seq_no, report_status (<statusFolder>/<seq>.status),  *)
(*       report_heartbeat;                                                 *)
(*   proxy_agent_extension/src/service_main.rs  monitor_thread: one        *)
(*       iteration = read current_seq_no.txt; on a change compare the      *)
(*       installed agent version with the packaged one and run the setup   *)
(*       tool (backup, install); observe the agent's aggregate status      *)
(*       file; restore on Error / purge on Success (once: the flag         *)
(*       restored_in_error); write <seq>.status; sleep 15 s.               *)
(* composed with                                                           *)
(*   Health.tla   (INSTANCE: the report of StatusState::update_state with  *)
(*                 its ghost run lengths -- every observation of the loop  *)
(*                 is Health!Observe), and                                 *)
(*   Setup.tla    abstracted to the contract C17 establishes for the       *)
(*                complete states (InstallExact, BackupExact, RoundTrip /  *)
(*                RestoreExact, RestoreNoBackupIsNoop, RestoreDeletion,    *)
(*                PurgeOnlyBackup; `uninstall` = service mode: the unit is *)
(*                removed, the executable stays): one atomic action per    *)
(*                setup command over (installed, backup, agentUp).         *)
(*                                                                         *)
(* The handler environment:                                                *)
(*   one directory per handler (= extension version) h, holding            *)
(*     curSeq[h]   current_seq_no.txt: a sequence number or Absent         *)
(*     stf[h][s]   <statusFolder>/<s>.status exists                        *)
(*     stray[h]    the file `<statusFolder>.status` NEXT TO the status     *)
(*                 folder exists: what get_file_path yields for the empty  *)
(*                 sequence number (PathBuf::push("") + set_extension)     *)
(*     wr          the status write of the step just taken, if any:        *)
(*                 [h, s, v] with v the `status` field written.  Status    *)
(*                 files are written and never read by this code, so their *)
(*                 CONTENT is an output, not state: the generator          *)
(*                 (gen/ExtHandlerGen.tla) accumulates it from wr for the  *)
(*                 comparison with the real directory.                     *)
(*     hb[h]       the heartbeat file has been written (by the first       *)
(*                 iteration of a service run; heartbeat_thread writes it  *)
(*                 at start and every 5 minutes)                           *)
(*   and, shared by all handlers (parent directory / whole machine)        *)
(*     tag         update.tag                                              *)
(*     svc         the long-running ProxyAgentExt process (found by NAME,  *)
(*                 so at most one for all handlers) and its locals         *)
(*     installed, backup, agentUp, aggVer   the agent as the setup tool    *)
(*                 and the running agent leave it: version of              *)
(*                 /usr/sbin/azure-proxy-agent, version held in the Backup *)
(*                 folder, service registered and started, version named   *)
(*                 in /var/log/azure-proxy-agent/status.json               *)
(* The agent version packaged by handler h is called h; "x0" is a version  *)
(* that did not come from an extension (image / distribution package).     *)
(*                                                                         *)
(* The guest agent runs one handler command at a time (hp); the service    *)
(* loop, the agent and the rest of the machine run concurrently with it,   *)
(* interleaved at the granularity of file steps.                           *)
(*                                                                         *)
(* NEW PROPERTIES (stated conservatively; the first block holds for the    *)
(* code as built, the last two do NOT and are findings, see the configs)   *)
(*                                                                         *)
(*  StatusForCurrentSeq   a status file <s>.status changes only in a step  *)
(*      of a command delivered with sequence number s, or of a service     *)
(*      iteration that read s from current_seq_no.txt; so an older number  *)
(*      never overwrites a newer one's file.  After a successful           *)
(*      enable(s), current_seq_no.txt holds s and <s>.status exists.       *)
(*  EnableIdempotent      re-delivery of enable with the sequence number   *)
(*      already current changes neither current_seq_no.txt nor any status  *)
(*      file (the service's report is not thrown back to Transitioning)    *)
(*      and does not start a second service.  (Claimed while a service is  *)
(*      running; an enable that cannot start one reports Error, exit 7.)   *)
(*  UpdateTagLifecycle    between commands, update.tag exists exactly if   *)
(*      an `update` completed and no enable/reset completed since.         *)
(*  UninstallGuard        `uninstall` runs the setup tool's uninstall      *)
(*      exactly if update.tag is absent; hence an update choreography      *)
(*      (update on the new version, uninstall on the old one) never        *)
(*      unregisters the agent.                                             *)
(*  UnsupportedOsOnlyReports  on an unsupported OS every command only      *)
(*      writes an Error status for its own sequence number.                *)
(*  RollbackOnError       the loop runs `restore` only while the report is *)
(*      Error, i.e. (Health) after at least Threshold consecutive failed   *)
(*      observations and never after a success; `purge` only while the     *)
(*      report is Success, directly after a successful observation;        *)
(*      neither while Transitioning.                                       *)
(*  RestoreBringsBackPrevious  a restore that follows an install of the    *)
(*      loop puts back exactly the version its backup found installed      *)
(*      (composition with Setup's RoundTrip).                              *)
(*  NoUpgradeLoop         the loop installs only in an iteration that saw  *)
(*      current_seq_no.txt change (or the first one of a service run): at  *)
(*      most one install per change, never a self-sustaining cycle.  (A    *)
(*      known-bad version IS installed again after a restore on the next   *)
(*      sequence-number change or service start; that is bounded by        *)
(*      external events and is recorded, not claimed absent.)              *)
(*                                                                         *)
(*  StatusOnlyInFolder    [FAILS as built: finding stray-status]           *)
(*      no status file is ever written outside <statusFolder>/<seq>.status *)
(*      Counterexample: enable(s); reset while the service runs; the next  *)
(*      iteration reads "" and writes `<statusFolder>.status`.             *)
(*  RollbackCoversEveryInstall [FAILS as built: finding decision-latch]    *)
(*      at the end of an iteration an install of the loop that has not     *)
(*      been followed by restore/purge is still under observation          *)
(*      (report Transitioning).  Counterexample: install, Error, restore   *)
(*      (restored_in_error := true, never reset); a new sequence number    *)
(*      arrives; the old version differs from the packaged one, so the     *)
(*      loop installs the bad version again, and neither restores it on    *)
(*      Error nor purges the backup on Success for the rest of the run.    *)
(*      With ResetDecisionOnInstall = TRUE (the proposed minimal fix:      *)
(*      clear the flag when the loop issues a new install) it holds.       *)
(*                                                                         *)
(* Recorded, not judged (implementation shape the properties do not        *)
(* constrain): the status of the install step goes to <exe dir>/status,    *)
(* not to HandlerEnvironment.statusFolder (the deployed layouts make them  *)
(* the same directory); an observation is "successful" when status.json    *)
(* parses and names the packaged version -- neither its own `status` field *)
(* nor its age is looked at, so a stale file of the same version makes the *)
(* loop purge right after an install; handler commands compare sequence    *)
(* numbers as strings, never by order.                                     *)
(*                                                                         *)
(* Configurations: mc/ExtHandler.cfg (one handler, everything, < 60 s),    *)
(* mc/ExtHandler_update.cfg (two handlers, the update choreography),       *)
(* mc/ExtHandler_os.cfg (unsupported OS), mc/ExtHandler_stray.cfg and      *)
(* mc/ExtHandler_latch.cfg (expected counterexamples of the two findings), *)
(* mc/ExtHandler_fixed.cfg (the proposed fix).                             *)
(***************************************************************************)
EXTENDS Integers, TLC

CONSTANTS Handlers,      \* extension versions (directories); handler h packages agent version h
          Seqs,          \* sequence numbers the guest agent may deliver (strings, non-empty)
          Allowed,       \* the <<handler, command>> pairs the guest agent may issue (AllCmds = no restriction)
          Good,          \* agent versions that come up healthy and write status.json; subset of Versions
          OsSupported,   \* check_os_version_supported()
          SpawnMayFail,  \* `enable` may be unable to start ProxyAgentExt (6 attempts, then exit 7)
          ExternalChange,\* the machine may replace the installed agent out of band (version "x0")
          ResetDecisionOnInstall, \* FALSE = as built; TRUE = proposed fix for the decision latch
          Threshold, MaxCount, GhostCap   \* Health.tla (real values 20 / 10000 / >10000)

None   == "none"
Absent == "absent"
Empty  == ""             \* what get_current_seq_no returns without a file; String::new() of the cache
Versions == Handlers \cup {"x0"}
PkgOf(h) == h
StatusVals == {None, "transitioning", "success", "error"}
Cmds == {"install", "enable", "disable", "update", "uninstall", "reset"}
AllCmds == Handlers \X Cmds
\* an update from version h1 to h2 as the guest agent drives it (in any order, any number of times)
UpdateCmds == {<<"h1", "enable">>, <<"h1", "disable">>, <<"h1", "uninstall">>,
               <<"h2", "update">>, <<"h2", "install">>, <<"h2", "enable">>, <<"h2", "disable">>}

VARIABLES
  \* handler environment
  curSeq, stf, stray, wr, hb, tag,
  \* the machine (Setup contract) and the agent's aggregate status file
  installed, backup, agentUp, aggVer,
  \* the handler command in progress: Idle or [c, h, seq, pc, same, pretag, called]
  hp,
  \* ghost: an `update` completed and no enable/reset completed since
  upd,
  \* the service process: owner handler or None, program counter and locals of monitor_thread
  svc, lpc, cache, decided,
  \* Health.tla's variables (StatusState of the running service + ghost run lengths)
  st, fc, sc, gF, gS, lastObs,
  \* ghosts of the loop properties
  pending,   \* an install of the loop has not been followed by a restore/purge of the loop yet
  prev,      \* what the loop's last backup found installed (what a restore is to bring back)
  credit,    \* installs the service run is still entitled to: 1 at its start, +1 per change of the content of its
             \* handler's current_seq_no.txt (saturating at 2: the iteration in flight and the next one), -1 per install
  call       \* the setup command the loop's last decision ran: "none" | "restore" | "purge"

hvars == <<st, fc, sc, gF, gS, lastObs>>
envvars == <<curSeq, stf, stray, hb, tag>>   \* wr is listed separately: every action sets it
sysvars == <<installed, backup, agentUp, aggVer>>
loopvars == <<svc, lpc, cache, decided>>
ghosts == <<pending, prev, credit, call>>
vars == <<envvars, wr, sysvars, hp, upd, loopvars, hvars, ghosts>>

H == INSTANCE Health WITH last <- lastObs

Idle == [c |-> "idle"]
NoWrite == [v |-> None]
Min(a, b) == IF a < b THEN a ELSE b

-----------------------------------------------------------------------------
Init ==
  /\ curSeq = [h \in Handlers |-> Absent]
  /\ stf = [h \in Handlers |-> [s \in Seqs |-> FALSE]]
  /\ stray = [h \in Handlers |-> FALSE]
  /\ wr = NoWrite
  /\ hb = [h \in Handlers |-> FALSE]
  /\ tag = FALSE
  /\ installed \in {None, "x0"} /\ backup = None
  /\ agentUp = (installed # None)
  /\ aggVer = IF installed \in Good THEN installed ELSE None
  /\ hp = Idle /\ upd = FALSE
  /\ svc = None /\ lpc = "top" /\ cache = Empty /\ decided = FALSE
  /\ H!Init
  /\ pending = FALSE /\ prev = None /\ credit = 0 /\ call = None

\* report_status(folder, s, status): get_file_path(folder, "", "status") is `<folder>.status`
WriteStatus(h, s, v) ==
  /\ wr' = [h |-> h, s |-> s, v |-> v]
  /\ IF s = Empty THEN stray' = [stray EXCEPT ![h] = TRUE] /\ UNCHANGED stf
                  ELSE stf' = [stf EXCEPT ![h][s] = TRUE] /\ UNCHANGED stray
Quiet == wr' = NoWrite

\* the locals of monitor_thread as a new process has them (StatusState::new()); also what is left when it dies
LoopLocals(owner) ==
  /\ svc' = owner /\ lpc' = "top" /\ cache' = Empty /\ decided' = FALSE
  /\ st' = "transitioning" /\ fc' = 0 /\ sc' = 0 /\ gF' = 0 /\ gS' = 0 /\ lastObs' = "none"
  /\ credit' = IF owner = None THEN 0 ELSE 1
  /\ call' = None

-----------------------------------------------------------------------------
\* Handler commands (handler_main.rs).  The guest agent starts one process per command and waits for it.

Begin(h, c, s) ==
  /\ Quiet
  /\ hp = Idle
  /\ hp' = [c |-> c, h |-> h, seq |-> s, pc |-> "os", same |-> FALSE, pretag |-> tag, called |-> FALSE]
  /\ UNCHANGED <<envvars, sysvars, upd, loopvars, hvars, ghosts>>

\* the command's process exits: "ok" = exit code 0
Finish(res) ==
  /\ hp' = Idle
  /\ upd' = CASE res = "ok" /\ hp.c = "update" -> TRUE
              [] res = "ok" /\ hp.c \in {"enable", "reset"} -> FALSE
              [] OTHER -> upd

FirstPc(c) == CASE c = "enable" -> "seq" [] c = "disable" -> "kill" [] c = "update" -> "tag"
                [] c = "uninstall" -> "chk" [] c = "reset" -> "rmtag" [] OTHER -> "noop"

\* program_start: an unsupported OS version is reported for the command's sequence number, exit 6
OsCheck ==
  /\ hp # Idle /\ hp.pc = "os"
  /\ IF OsSupported
     THEN hp' = [hp EXCEPT !.pc = FirstPc(hp.c)] /\ Quiet /\ UNCHANGED <<stf, stray, upd>>
     ELSE WriteStatus(hp.h, hp.seq, "error") /\ Finish("exit6")
  /\ UNCHANGED <<curSeq, hb, tag, sysvars, loopvars, hvars, ghosts>>

InstallNoop ==     \* install_handler does nothing on Linux
  /\ Quiet
  /\ hp # Idle /\ hp.pc = "noop"
  /\ Finish("ok")
  /\ UNCHANGED <<envvars, sysvars, loopvars, hvars, ghosts>>

\* enable_handler, step 1: common::update_current_seq_no (read, compare as strings, write)
EnSeq ==
  /\ Quiet
  /\ hp # Idle /\ hp.pc = "seq"
  /\ LET same == curSeq[hp.h] = hp.seq IN
       /\ curSeq' = IF same THEN curSeq ELSE [curSeq EXCEPT ![hp.h] = hp.seq]
       /\ hp' = [hp EXCEPT !.pc = IF same THEN "start" ELSE "status", !.same = same]
       /\ credit' = IF ~same /\ svc = hp.h THEN Min(credit + 1, 2) ELSE credit
  /\ UNCHANGED <<stf, stray, hb, tag, sysvars, upd, loopvars, hvars, pending, prev, call>>

\* step 2, only if the number changed: report_status_enable_command(.., None) = Transitioning
EnStatus ==
  /\ hp # Idle /\ hp.pc = "status"
  /\ WriteStatus(hp.h, hp.seq, "transitioning")
  /\ hp' = [hp EXCEPT !.pc = "start"]
  /\ UNCHANGED <<curSeq, hb, tag, sysvars, upd, loopvars, hvars, ghosts>>

\* step 3: a ProxyAgentExt with a one-element command line is looked for by name; started if there is none
EnStart ==
  /\ Quiet
  /\ hp # Idle /\ hp.pc = "start"
  /\ IF svc = None THEN LoopLocals(hp.h) ELSE UNCHANGED <<loopvars, hvars, credit, call>>
  /\ hp' = [hp EXCEPT !.pc = "untag"]
  /\ UNCHANGED <<envvars, sysvars, upd, pending, prev>>

\* ... six failed attempts: Error status for the command's number, exit 7 (update.tag is left alone)
EnStartFail ==
  /\ SpawnMayFail
  /\ hp # Idle /\ hp.pc = "start" /\ svc = None
  /\ WriteStatus(hp.h, hp.seq, "error")
  /\ Finish("exit7")
  /\ UNCHANGED <<curSeq, hb, tag, sysvars, loopvars, hvars, ghosts>>

\* step 4: update.tag is removed
EnUntag ==
  /\ Quiet
  /\ hp # Idle /\ hp.pc = "untag"
  /\ tag' = FALSE
  /\ Finish("ok")
  /\ UNCHANGED <<curSeq, stf, stray, hb, sysvars, loopvars, hvars, ghosts>>

\* disable_handler: SIGKILL to the service, wherever its loop stands
DisKill ==
  /\ Quiet
  /\ hp # Idle /\ hp.pc = "kill"
  /\ IF svc # None THEN LoopLocals(None) ELSE UNCHANGED <<loopvars, hvars, credit, call>>
  /\ Finish("ok")
  /\ UNCHANGED <<envvars, sysvars, pending, prev>>

\* update_handler: write update.tag in the parent directory
UpdTag ==
  /\ Quiet
  /\ hp # Idle /\ hp.pc = "tag"
  /\ tag' = TRUE
  /\ Finish("ok")
  /\ UNCHANGED <<curSeq, stf, stray, hb, sysvars, loopvars, hvars, ghosts>>

\* uninstall_handler: the setup tool's `uninstall` unless an update is in progress
UnCheck ==
  /\ Quiet
  /\ hp # Idle /\ hp.pc = "chk"
  /\ IF tag THEN Finish("ok") ELSE hp' = [hp EXCEPT !.pc = "setup"] /\ UNCHANGED upd
  /\ UNCHANGED <<envvars, sysvars, loopvars, hvars, ghosts>>

UnSetup ==         \* proxy_agent_setup uninstall (service mode): unit removed, files stay
  /\ Quiet
  /\ hp # Idle /\ hp.pc = "setup"
  /\ agentUp' = FALSE
  /\ hp' = [hp EXCEPT !.pc = "done", !.called = TRUE]
  /\ UNCHANGED <<envvars, installed, backup, aggVer, upd, loopvars, hvars, ghosts>>

UnDone ==
  /\ Quiet
  /\ hp # Idle /\ hp.pc = "done"
  /\ Finish("ok")
  /\ UNCHANGED <<envvars, sysvars, loopvars, hvars, ghosts>>

\* reset_handler: remove update.tag, then current_seq_no.txt (the service is not touched)
RsTag ==
  /\ Quiet
  /\ hp # Idle /\ hp.pc = "rmtag"
  /\ tag' = FALSE
  /\ hp' = [hp EXCEPT !.pc = "rmseq"]
  /\ UNCHANGED <<curSeq, stf, stray, hb, sysvars, upd, loopvars, hvars, ghosts>>

RsSeq ==
  /\ Quiet
  /\ hp # Idle /\ hp.pc = "rmseq"
  /\ curSeq' = [curSeq EXCEPT ![hp.h] = Absent]
  /\ credit' = IF curSeq[hp.h] # Absent /\ svc = hp.h THEN Min(credit + 1, 2) ELSE credit
  /\ Finish("ok")
  /\ UNCHANGED <<stf, stray, hb, tag, sysvars, loopvars, hvars, pending, prev, call>>

BeginCmd == \E h \in Handlers, c \in Cmds, s \in Seqs :
              \* the number matters to `enable` and to the unsupported-OS report only
              /\ <<h, c>> \in Allowed
              /\ (c # "enable" /\ OsSupported) => s = CHOOSE x \in Seqs : TRUE
              /\ Begin(h, c, s)

-----------------------------------------------------------------------------
\* The service (service_main.rs).  svc is the handler whose directory the process runs from.

SeqText(h) == IF curSeq[h] = Absent THEN Empty ELSE curSeq[h]

\* top of the loop: get_current_seq_no, compare with the cache
LRead ==
  /\ Quiet
  /\ svc # None /\ lpc = "top"
  /\ IF cache # SeqText(svc)
     THEN cache' = SeqText(svc) /\ lpc' = "ver"
     ELSE cache' = cache /\ lpc' = "obs"
  /\ hb' = [hb EXCEPT ![svc] = TRUE]       \* heartbeat_thread has written by now
  /\ UNCHANGED <<curSeq, stf, stray, tag, sysvars, hp, upd, svc, decided, hvars, ghosts>>

\* `<installed exe> --version` vs the packaged one (a missing executable reads as "")
LVersion ==
  /\ Quiet
  /\ svc # None /\ lpc = "ver"
  /\ lpc' = IF installed # PkgOf(svc) THEN "bak" ELSE "obs"
  /\ UNCHANGED <<envvars, sysvars, hp, upd, svc, cache, decided, hvars, ghosts>>

\* proxy_agent_setup backup (Setup: BackupExact; nothing installed leaves an earlier backup in place)
LBackup ==
  /\ Quiet
  /\ svc # None /\ lpc = "bak"
  /\ backup' = IF installed # None THEN installed ELSE backup
  /\ prev' = installed
  /\ lpc' = "ins"
  /\ UNCHANGED <<envvars, installed, agentUp, aggVer, hp, upd, svc, cache, decided, hvars, pending, credit, call>>

\* proxy_agent_setup install (Setup: InstallExact, StartedAfter), then report_proxy_agent_service_status:
\* update_state(false) -- an installation counts as a failed observation
LInstall ==
  /\ Quiet
  /\ svc # None /\ lpc = "ins"
  /\ installed' = PkgOf(svc) /\ agentUp' = TRUE
  /\ H!Observe(FALSE)
  /\ pending' = TRUE /\ credit' = credit - 1
  /\ decided' = IF ResetDecisionOnInstall THEN FALSE ELSE decided
  /\ lpc' = "insst"
  /\ UNCHANGED <<envvars, backup, aggVer, hp, upd, svc, cache, prev, call>>

\* ... and writes it to <exe dir>/status/<cache>.status (the deployed layouts make that the status folder)
LInstStatus ==
  /\ svc # None /\ lpc = "insst"
  /\ WriteStatus(svc, cache, st)
  /\ lpc' = "obs"
  /\ UNCHANGED <<curSeq, hb, tag, sysvars, hp, upd, svc, cache, decided, hvars, ghosts>>

\* report_proxy_agent_aggregate_status: status.json readable and naming the packaged version = success
LObserve ==
  /\ Quiet
  /\ svc # None /\ lpc = "obs"
  /\ H!Observe(aggVer = PkgOf(svc))
  /\ lpc' = "dec"
  /\ UNCHANGED <<envvars, sysvars, hp, upd, svc, cache, decided, ghosts>>

\* restore_purge_proxyagent, unless restored_in_error is already set
LDecide ==
  /\ Quiet
  /\ svc # None /\ lpc = "dec"
  /\ lpc' = "rep"
  /\ IF ~decided /\ st = "error"
     THEN \* proxy_agent_setup restore (Setup: RestoreExact / RestoreNoBackupIsNoop / RestoreDeletion)
          /\ installed' = IF backup # None THEN backup ELSE installed
          /\ agentUp' = IF backup # None THEN TRUE ELSE agentUp
          /\ backup' = None
          /\ decided' = TRUE /\ pending' = FALSE /\ call' = "restore"
     ELSE IF ~decided /\ st = "success"
     THEN \* proxy_agent_setup purge (Setup: PurgeOnlyBackup)
          /\ backup' = None
          /\ decided' = TRUE /\ pending' = FALSE /\ call' = "purge"
          /\ UNCHANGED <<installed, agentUp>>
     ELSE UNCHANGED <<installed, agentUp, backup, decided, pending, call>>
  /\ UNCHANGED <<envvars, aggVer, hp, upd, svc, cache, hvars, prev, credit>>

\* common::report_status(<statusFolder>, cache, status); then sleep 15 s
LReport ==
  /\ svc # None /\ lpc = "rep"
  /\ WriteStatus(svc, cache, st)
  /\ lpc' = "top"
  /\ UNCHANGED <<curSeq, hb, tag, sysvars, hp, upd, svc, cache, decided, hvars, ghosts>>

-----------------------------------------------------------------------------
\* The rest of the machine.

\* a healthy agent that is registered and started writes its own version into status.json
AgentReport ==
  /\ Quiet
  /\ agentUp /\ installed \in Good /\ aggVer # installed
  /\ aggVer' = installed
  /\ UNCHANGED <<envvars, installed, backup, agentUp, hp, upd, loopvars, hvars, ghosts>>

\* the image's / distribution's own package replaces the agent
ExternalInstall ==
  /\ Quiet
  /\ ExternalChange /\ installed # "x0"
  /\ installed' = "x0" /\ agentUp' = TRUE
  /\ UNCHANGED <<envvars, backup, aggVer, hp, upd, loopvars, hvars, ghosts>>

\* the service dies (reboot, OOM, ...); only a later `enable` starts it again
Crash ==
  /\ Quiet
  /\ svc # None
  /\ LoopLocals(None)
  /\ UNCHANGED <<envvars, sysvars, hp, upd, pending, prev>>

HandlerStep == \/ OsCheck \/ InstallNoop \/ EnSeq \/ EnStatus \/ EnStart \/ EnStartFail \/ EnUntag
               \/ DisKill \/ UpdTag \/ UnCheck \/ UnSetup \/ UnDone \/ RsTag \/ RsSeq
LoopStep == LRead \/ LVersion \/ LBackup \/ LInstall \/ LInstStatus \/ LObserve \/ LDecide \/ LReport
EnvStep == AgentReport \/ ExternalInstall \/ Crash

Next == BeginCmd \/ HandlerStep \/ LoopStep \/ EnvStep
Spec == Init /\ [][Next]_vars

-----------------------------------------------------------------------------
\* Properties.

TypeOK ==
  /\ curSeq \in [Handlers -> Seqs \cup {Absent}]
  /\ stf \in [Handlers -> [Seqs -> BOOLEAN]] /\ stray \in [Handlers -> BOOLEAN]
  /\ wr.v \in StatusVals
  /\ hb \in [Handlers -> BOOLEAN] /\ tag \in BOOLEAN /\ upd \in BOOLEAN
  /\ installed \in Versions \cup {None} /\ backup \in Versions \cup {None} /\ aggVer \in Versions \cup {None}
  /\ prev \in Versions \cup {None} /\ agentUp \in BOOLEAN
  /\ svc \in Handlers \cup {None} /\ cache \in Seqs \cup {Empty} /\ decided \in BOOLEAN
  /\ lpc \in {"top", "ver", "bak", "ins", "insst", "obs", "dec", "rep"}
  /\ H!TypeOK
  /\ pending \in BOOLEAN /\ credit \in -1..2 /\ call \in {None, "restore", "purge"}

\* a handler step is a step that changes hp
IsHandlerStep == hp' # hp
Busy == hp # Idle

\* --- StatusForCurrentSeq
StatusWriter(h, s) ==
  \/ Busy /\ hp.h = h /\ hp.seq = s /\ hp.c = "enable" /\ hp.pc \in {"status", "start"}
  \/ Busy /\ hp.h = h /\ hp.seq = s /\ hp.pc = "os"
  \/ svc = h /\ cache = s /\ lpc \in {"insst", "rep"}
StatusForCurrentSeq ==
  [][(wr' # NoWrite /\ wr'.s # Empty) => StatusWriter(wr'.h, wr'.s)]_vars
\* a successful enable leaves its number current and reported
EnableOk == Busy /\ hp.c = "enable" /\ hp.pc = "untag" /\ hp' = Idle
EnableReportsItsSeq == [][EnableOk => curSeq'[hp.h] = hp.seq /\ stf'[hp.h][hp.seq]]_vars

\* --- EnableIdempotent: the steps of an enable that found its own number already current do not write
\* (the exit-7 report of a service that cannot be started is the one exception: nothing is running then)
SameNow == Busy /\ hp.c = "enable" /\ (IF hp.pc = "seq" THEN curSeq[hp.h] = hp.seq ELSE hp.same)
EnableIdempotent ==
  [][(IsHandlerStep /\ SameNow /\ svc # None) =>
        /\ curSeq' = curSeq /\ wr' = NoWrite
        /\ UNCHANGED <<loopvars, hvars>>]_vars
\* ... and an enable never restarts a running service, whatever the number
EnableKeepsRunningService ==
  [][(IsHandlerStep /\ Busy /\ hp.c = "enable" /\ svc # None) => UNCHANGED <<loopvars, hvars>>]_vars

\* --- UpdateTagLifecycle (ghost upd follows the completed commands, tag the file steps)
UpdateTagLifecycle == (hp = Idle) => (tag = upd)

\* --- UninstallGuard
UninstallGuard == [][(Busy /\ hp.c = "uninstall" /\ hp.pc # "os" /\ hp' = Idle) => (hp.called = ~hp.pretag)]_vars
\* the agent is unregistered only by an uninstall outside an update
AgentUnregisteredOnlyByUninstall ==
  [][(agentUp /\ ~agentUp') => (Busy /\ hp.c = "uninstall" /\ ~hp.pretag)]_vars

\* --- UnsupportedOsOnlyReports
UnsupportedOsOnlyReports ==
  ~OsSupported => /\ svc = None /\ ~tag /\ backup = None
                  /\ wr.v \in {None, "error"}
                  /\ \A h \in Handlers : curSeq[h] = Absent /\ ~stray[h]

\* --- RollbackOnError (composition with Health: gF / lastObs are Health's true run lengths)
DecisionStep == svc # None /\ lpc = "dec" /\ lpc' = "rep"
Ran(c) == DecisionStep /\ ~decided /\ decided' /\ call' = c
RollbackOnError ==
  [][/\ Ran("restore") => st = "error" /\ gF >= Threshold /\ lastObs = "fail"
     /\ Ran("purge")   => st = "success" /\ lastObs = "ok"
     /\ (DecisionStep /\ st = "transitioning") => UNCHANGED <<installed, backup, agentUp, decided>>]_vars
\* the machine's agent changes under the loop only by its install and its restore
LoopTouchesAgentOnlyBy ==
  [][(installed' # installed /\ ~IsHandlerStep /\ installed' # "x0") => (lpc = "ins" \/ Ran("restore"))]_vars

\* --- RestoreBringsBackPrevious (Setup's RoundTrip seen from the loop)
RestoreBringsBackPrevious ==
  [][(Ran("restore") /\ pending /\ prev # None) => installed' = prev]_vars

\* --- NoUpgradeLoop
LoopInstallStep == svc # None /\ lpc = "ins" /\ lpc' = "insst"
NoUpgradeLoop == [][LoopInstallStep => credit >= 1]_vars
\* the loop installs nothing but its own packaged version, and only over a different one
InstallOnlyOnMismatch == [][LoopInstallStep => installed # PkgOf(svc) /\ installed' = PkgOf(svc)]_vars

\* --- heartbeat: only a service run writes the heartbeat file
HeartbeatOnlyByService == [][\A h \in Handlers : (hb'[h] /\ ~hb[h]) => svc = h]_vars
\* what the service reports is Health's report at that moment
ServiceReportsHealth == [][(wr' # NoWrite /\ ~IsHandlerStep) => wr'.v = st /\ wr'.h = svc /\ wr'.s = cache]_vars

\* --- findings (do NOT hold for the code as built; checked by their own configurations)
StatusOnlyInFolder == \A h \in Handlers : ~stray[h]
RollbackCoversEveryInstall == (svc # None /\ lpc = "top" /\ pending) => st = "transitioning"
=============================================================================
