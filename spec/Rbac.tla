-------------------------------- MODULE Rbac --------------------------------
(***************************************************************************)
(* C02 — the declared semantics of an access-control rule document.        *)
(*                                                                         *)
(* Written on SETS and lower-cased values, straight from the property      *)
(* statement, so independence of listing order and of letter case holds    *)
(* by construction (and is re-checked by TLC as PermInvariant /            *)
(* CaseInvariant over the small universe of mc/Rbac.cfg).                   *)
(*                                                                         *)
(* Representation.  Strings the semantics looks into character-wise (paths,*)
(* query keys and values) are sequences of 1-character strings; names and  *)
(* identity attributes are plain strings compared for equality.            *)
(*   Doc  == [mode: "disabled"|"audit"|"enforce", allow: BOOLEAN,          *)
(*            privs: Seq([name, path, q: Seq([k, v])]),   hasPrivs,        *)
(*            roles: Seq([name, privs: Seq(name)]),       hasRoles,        *)
(*            ids:   Seq([name, user, group, proc, exe]), hasIds,          *)
(*            asg:   Seq([role, ids: Seq(name)]),         hasAsg]          *)
(*   a section with has* = FALSE is absent from the document; the          *)
(*   statement gives it no meaning other than "lists nothing".             *)
(*   Caller == [user, groups: SUBSET STRING, proc, exe]                    *)
(*   Url    == [path: chars, q: Seq([k: chars, v: chars])]                 *)
(***************************************************************************)
EXTENDS Naturals, Sequences, FiniteSets, TLC

NONE == "NONE"

LowerTable == [c \in {"A", "B", "C", "D", "E", "F", "G", "H", "I", "J", "K", "L", "M", "N", "O", "P", "Q", "R", "S",
                      "T", "U", "V", "W", "X", "Y", "Z"} |->
               CASE c = "A" -> "a" [] c = "B" -> "b" [] c = "C" -> "c" [] c = "D" -> "d" [] c = "E" -> "e"
                 [] c = "F" -> "f" [] c = "G" -> "g" [] c = "H" -> "h" [] c = "I" -> "i" [] c = "J" -> "j"
                 [] c = "K" -> "k" [] c = "L" -> "l" [] c = "M" -> "m" [] c = "N" -> "n" [] c = "O" -> "o"
                 [] c = "P" -> "p" [] c = "Q" -> "q" [] c = "R" -> "r" [] c = "S" -> "s" [] c = "T" -> "t"
                 [] c = "U" -> "u" [] c = "V" -> "v" [] c = "W" -> "w" [] c = "X" -> "x" [] c = "Y" -> "y"
                 [] c = "Z" -> "z"]
LowerC(c) == IF c \in DOMAIN LowerTable THEN LowerTable[c] ELSE c
Lower(s) == [i \in 1..Len(s) |-> LowerC(s[i])]

IsPrefixOf(p, s) == Len(p) <= Len(s) /\ \A i \in 1..Len(p) : p[i] = s[i]
SetOf(seq) == {seq[i] : i \in 1..Len(seq)}

\* --- what a document lists (absent section = lists nothing) ---
Privs(R) == IF R.hasPrivs THEN SetOf(R.privs) ELSE {}
Roles(R) == IF R.hasRoles THEN SetOf(R.roles) ELSE {}
Ids(R)   == IF R.hasIds THEN SetOf(R.ids) ELSE {}
Asgs(R)  == IF R.hasAsg THEN SetOf(R.asg) ELSE {}

\* --- matching a privilege against a URL ---
\* The statement says "all listed query parameters, case-insensitively" and is silent about a request that
\* repeats a key with different values.  Two readings: the FIRST occurrence of the key decides (what the
\* implementation does), or ANY occurrence may satisfy it.  Cases on which the readings differ are
\* "unspecified" and either answer is accepted (Ambiguous below).
QMatchFirst(pq, uq) ==
  \A i \in 1..Len(pq) :
    \E j \in 1..Len(uq) :
      /\ Lower(uq[j].k) = Lower(pq[i].k)
      /\ \A h \in 1..(j - 1) : Lower(uq[h].k) # Lower(pq[i].k)
      /\ Lower(uq[j].v) = Lower(pq[i].v)
QMatchAny(pq, uq) ==
  \A i \in 1..Len(pq) :
    \E j \in 1..Len(uq) : Lower(uq[j].k) = Lower(pq[i].k) /\ Lower(uq[j].v) = Lower(pq[i].v)

PrivMatchWith(QM(_, _), p, u) == IsPrefixOf(Lower(p.path), Lower(u.path)) /\ QM(p.q, u.q)

\* --- matching an identity against a caller: every stated attribute equals the caller's ---
IdMatch(i, c) == /\ (i.user # NONE => i.user = c.user)
                 /\ (i.group # NONE => i.group \in c.groups)
                 /\ (i.proc # NONE => i.proc = c.proc)
                 /\ (i.exe # NONE => i.exe = c.exe)

\* privilege p is granted to caller c: some assignment binds a role that lists p to a DEFINED identity matching c
Granted(R, p, c) ==
  \E a \in Asgs(R), r \in Roles(R), i \in Ids(R) :
    /\ a.role = r.name
    /\ p.name \in SetOf(r.privs)
    /\ i.name \in SetOf(a.ids)
    /\ IdMatch(i, c)

DecisionWith(QM(_, _), R, c, u) ==
  IF R.mode = "disabled" THEN TRUE
  ELSE LET M == {p \in Privs(R) : PrivMatchWith(QM, p, u)} IN
       IF \E p \in M : Granted(R, p, c) THEN TRUE
       ELSE IF M # {} THEN FALSE
       ELSE R.allow

Decision(R, c, u)    == DecisionWith(QMatchFirst, R, c, u)
DecisionAny(R, c, u) == DecisionWith(QMatchAny, R, c, u)
Ambiguous(R, c, u)   == Decision(R, c, u) # DecisionAny(R, c, u)

\* --- classification used for known-finding signatures and coverage accounting ---
Names(S) == {x.name : x \in S}
DupNames(S) == \E x, y \in S : x.name = y.name /\ x # y
HasDupNames(R) == DupNames(Privs(R)) \/ DupNames(Roles(R)) \/ DupNames(Ids(R))
SomeSectionMissing(R) == ~(R.hasPrivs /\ R.hasRoles /\ R.hasIds /\ R.hasAsg)
HasUpperRulePath(R) == \E p \in Privs(R) : Lower(p.path) # p.path
Features(R, c, u) ==
  [matched |-> \E p \in Privs(R) : PrivMatchWith(QMatchFirst, p, u),
   granted |-> \E p \in Privs(R) : PrivMatchWith(QMatchFirst, p, u) /\ Granted(R, p, c),
   dup |-> HasDupNames(R), dupPriv |-> DupNames(Privs(R)), dupRole |-> DupNames(Roles(R)), dupId |-> DupNames(Ids(R)), missing |-> SomeSectionMissing(R), upper |-> HasUpperRulePath(R),
   ambiguous |-> Ambiguous(R, c, u)]
=============================================================================
