-------------------------------- MODULE Setup --------------------------------
(***************************************************************************)
(* C17 -- the setup tool's upgrade is reversible.                          *)
(*                                                                         *)
(* Implementation-shaped model of proxy_agent_setup on Linux               *)
(* (proxy_agent_setup/src/main.rs + linux.rs + backup.rs,                  *)
(* proxy_agent_shared/src/service/linux_service.rs).  Every command is the *)
(* SEQUENCE of file-system / systemctl steps the code performs, one action *)
(* per step, so "stopped before any file is replaced" is an action         *)
(* property.  Files are abstract content ids (a version name) or "absent". *)
(*                                                                         *)
(*   sys[l]   the four system locations                                    *)
(*              exe  /usr/sbin/azure-proxy-agent                           *)
(*              cfg  /etc/azure/proxy-agent.json                           *)
(*              ebpf /usr/lib/azure-proxy-agent/ebpf_cgroup.o              *)
(*              unit /usr/lib/systemd/system/azure-proxy-agent.service     *)
(*   pkg[l]   the packaged files in the setup folder                       *)
(*              <dir>/ProxyAgent/{azure-proxy-agent,proxy-agent.json,      *)
(*              ebpf_cgroup.o}, <dir>/azure-proxy-agent.service            *)
(*   bak[l]   <dir>/ProxyAgent/Backup/Package/* and                        *)
(*            <dir>/ProxyAgent/Backup/azure-proxy-agent.service            *)
(*   bdir     the Backup folder exists                                     *)
(*   rest     every other file (frame)                                     *)
(*   svc      what the systemctl calls so far leave the service in         *)
(*   calls    systemctl calls of the current command, each with the        *)
(*            contents of the system locations at the time of the call (s) *)
(*            and whether one of them had already been written (w)         *)
(*                                                                         *)
(* No bound on the number of commands: the reachable graph is finite, so   *)
(* the exhaustive configuration covers command sequences of every length   *)
(* from every initial state (nothing installed / version "a" installed,    *)
(* backup of a version "b" present / absent, package = another version "p" *)
(* or byte-identical to the installed one).                                *)
(*                                                                         *)
(* Environment dimension SameFs: is the tool's folder (and so its Backup)  *)
(* on the file system of the system locations?  TRUE on a VM with one root *)
(* file system (/var/lib/waagent/..., or the deb/rpm layout                *)
(* /usr/lib/azure-proxy-agent/package): link(2) and rename(2) between the  *)
(* two succeed; FALSE: they fail with EXDEV.  The design copies bytes      *)
(* (fs::copy) everywhere, so no file name ever shares an inode with another*)
(* (BackupIsSeparate) and the expected contents after every command        *)
(* sequence are the same for both values -- which is exactly what the      *)
(* replay checks on the real binary in both layouts.  lnk[l] records that  *)
(* the backup of l and the system location l are two names of ONE inode;   *)
(* all writes to system locations are IN PLACE (fs::copy opens the         *)
(* existing file with O_TRUNC), so they show through every name.  The      *)
(* design variant LinkBackup ("backup by hard link, copy on EXDEV"; only   *)
(* mc/Setup_linkbackup*.cfg set it) must be rejected by TLC when SameFs.   *)
(*                                                                         *)
(* Environment dimension ClockSteps: the wall clock may be stepped between *)
(* two commands (timesync stepping back a clock that booted fast, resume   *)
(* after migration, or simply more than a week passing).  The tool never   *)
(* reads the clock or a file time for a decision, so the expected contents *)
(* are the same whatever the clock does; the only trace a step leaves in   *)
(* the model is bakodd = "the time stamp of the backed-up executable is    *)
(* not within (now - 7 days, now] as the clock reads now", which no action *)
(* of the design looks at.  The replay realises a step by shifting the     *)
(* time stamps of every file of the tool's world (+3 min = clock stepped   *)
(* back 3 min, -8 days = 8 days later) between two commands.  The design   *)
(* variant StaleCheck ("restore refuses a backup whose time stamp is not   *)
(* within the last 7 days"; only mc/Setup_stalecheck*.cfg set it) must be  *)
(* rejected by TLC when ClockSteps.                                        *)
(***************************************************************************)
EXTENDS Naturals, Sequences, TLC

CONSTANTS SameFs,      \* environment: link(2) from the system locations into the tool's Backup folder succeeds
          LinkBackup   \* design variant: backup_files hard-links the three packaged files, copies when link fails
ASSUME SameFs \in BOOLEAN /\ LinkBackup \in BOOLEAN
CONSTANTS ClockSteps,  \* environment: the wall clock can be stepped (either way) between two commands
          StaleCheck   \* design variant: check_backup_exists also refuses a backup that does not look at most 7 days old
ASSUME ClockSteps \in BOOLEAN /\ StaleCheck \in BOOLEAN

Locs == {"exe", "cfg", "ebpf", "unit"}
A    == "absent"
Z    == "zero"       \* an empty file: what copying a file onto itself leaves (truncated before it is read)
LinkLocs == {"cfg", "ebpf", "exe"}     \* the files of Backup/Package (linux::backup_files); the unit file is always copied
All(v)  == [l \in Locs |-> v]
Full(f) == \A l \in Locs : f[l] # A
None(f) == \A l \in Locs : f[l] = A

Cmds     == {"backup", "install", "restoreT", "restoreF", "uninstallS", "uninstallP", "purge"}
Restores == {"restoreT", "restoreF"}

VARIABLES sys, pkg, bak, bdir, rest, svc, calls,
          bakodd, \* the backed-up executable's time stamp is in the future or more than 7 days back, as the clock reads now
          lnk,   \* lnk[l]: Backup's file for l and the system location l are one inode (never, in the design)
          wrote, \* a system location has been written / removed by the current (last) command, whatever the bytes
          cmd,   \* the command in progress (pc > 0) or the last one completed (pc = 0); "none" initially
          pc,    \* index of the next step of Prog(cmd); 0 = between commands
          res,   \* how the last command ended: "ok" | "skip" (restore without backup) | "fail" (exit 1) | "panic"
          pre,   \* ghost: the state when the current/last command began
          s0, rt, chk   \* ghosts for RoundTrip, see NextRt

vars == <<sys, pkg, bak, bdir, rest, svc, calls, lnk, bakodd, wrote, cmd, pc, res, pre, s0, rt, chk>>

-----------------------------------------------------------------------------
\* The commands as programs (order of main.rs / linux.rs).

S(k, a) == [k |-> k, a |-> a]
SvcTail == << S("call", "unmask"), S("call", "daemon-reload"), S("call", "enable"), S("call", "start") >>

Prog(c) ==
  CASE c = "backup" ->     \* linux::backup_files: config, ebpf, exe, then the unit file
         << S("bk", "cfg"), S("bk", "ebpf"), S("bk", "exe"), S("bk", "unit") >>
    [] c = "install" ->    \* stop_service; copy_proxy_agent (version probe, copy_files); setup_service
         << S("call", "stop"), S("probe", "pkg"), S("cpP", "exe"), S("cpP", "cfg"), S("cpP", "ebpf"),
            S("unitP", "unit") >> \o SvcTail
    [] c \in Restores ->   \* check_backup_exists; stop_service; restore_proxy_agent; setup_service; delete_backup_folder
         << S("chk", "bak"), S("call", "stop"), S("probe", "bak"), S("cpB", "exe"), S("cpB", "cfg"),
            S("cpB", "ebpf"), S("unitB", "unit") >> \o SvcTail
            \o (IF c = "restoreT" THEN << S("rmbak", "bak") >> ELSE << >>)
    [] c = "uninstallS" -> \* stop_and_delete_service: stop, disable, remove unit (+ daemon-reload if it was there)
         << S("call", "stop"), S("call", "disable"), S("rmunit", "unit"), S("call", "daemon-reload") >>
    [] c = "uninstallP" -> \* ... then linux::delete_files
         << S("call", "stop"), S("call", "disable"), S("rmunit", "unit"), S("call", "daemon-reload"),
            S("rm", "exe"), S("rm", "cfg"), S("rm", "ebpf") >>
    [] c = "purge" ->      \* delete_backup_folder
         << S("rmbak", "bak") >>

St == Prog(cmd)[pc]

-----------------------------------------------------------------------------
\* Ghost bookkeeping for RoundTrip, shared with the trace specification: a function of the command names and
\* of the system locations when `backup` ran -- never of what the implementation did.
\*   rt = 0  nothing to claim
\*   rt = 1  a backup was taken while a version was installed (all four files present); s0 = those contents
\*   rt = 2  ... and an installation happened since (uninstalls in between do not matter)
\*   chk     the command just completed is the restore that closes such an upgrade: sys must equal s0
NextRt(c, presys, r, s) ==
  CASE c = "backup"   -> IF Full(presys) THEN <<1, presys, FALSE>> ELSE <<0, All(A), FALSE>>
    [] c = "install"  -> <<IF r >= 1 THEN 2 ELSE 0, s, FALSE>>
    [] c \in {"uninstallS", "uninstallP"} -> <<r, s, FALSE>>
    [] c = "restoreT" -> <<0, s, r = 2>>
    [] c = "restoreF" -> <<IF r >= 1 THEN 1 ELSE 0, s, r = 2>>
    [] c = "purge"    -> <<0, All(A), FALSE>>

Snapshot == [sys |-> sys, bak |-> bak, bdir |-> bdir, svc |-> svc, pkg |-> pkg, rest |-> rest]

-----------------------------------------------------------------------------
Init ==
  \E i \in {A, "a"}, b \in {A, "b"}, p \in {"p", "a"} :
    /\ p = "a" => i = "a"          \* "package byte-identical to the installed version" needs an installed version
    /\ sys = All(i) /\ bak = All(b) /\ bdir = (b # A) /\ pkg = All(p)
    /\ rest = "r0" /\ lnk = All(FALSE) /\ bakodd = FALSE
    /\ svc = IF i = A THEN "stopped" ELSE "running"
    /\ calls = << >> /\ wrote = FALSE /\ cmd = "none" /\ pc = 0 /\ res = "none"
    /\ pre = [sys |-> All(i), bak |-> All(b), bdir |-> (b # A), svc |-> IF i = A THEN "stopped" ELSE "running",
              pkg |-> All(p), rest |-> "r0"]
    /\ s0 = All(A) /\ rt = 0 /\ chk = FALSE

Begin(c) ==
  /\ pc = 0
  /\ cmd' = c /\ pc' = 1 /\ res' = "run" /\ calls' = << >> /\ wrote' = FALSE
  /\ pre' = Snapshot
  /\ chk' = FALSE
  /\ s0' = IF rt = 0 THEN All(A) ELSE s0
  /\ UNCHANGED <<sys, pkg, bak, bdir, rest, svc, rt, lnk, bakodd>>

\* the environment steps the wall clock between two commands: nothing changes but how old the backup looks
ClockStep ==
  /\ ClockSteps /\ pc = 0 /\ bak["exe"] # A /\ ~bakodd
  /\ bakodd' = TRUE
  /\ UNCHANGED <<sys, pkg, bak, bdir, rest, svc, calls, lnk, wrote, cmd, pc, res, pre, s0, rt, chk>>

Finish(r) ==
  /\ pc' = 0 /\ res' = r
  /\ LET g == NextRt(cmd, pre.sys, rt, s0) IN rt' = g[1] /\ s0' = g[2] /\ chk' = g[3]

Goto(n) == IF n <= Len(Prog(cmd)) THEN pc' = n /\ UNCHANGED <<res, s0, rt, chk>> ELSE Finish("ok")
Adv     == Goto(pc + 1)

Src(a) == IF a \in {"pkg", "cpP", "unitP"} THEN pkg ELSE bak

\* fs::copy(src, <system location l>): the destination is opened O_WRONLY|O_CREAT|O_TRUNC and written, i.e. an existing
\* inode is overwritten in place and every other name of it (lnk) shows the new bytes; when the source is that very
\* inode (restore from a backup that is a link of the live file) it is truncated before it is read: empty
WriteSys(l, v, fromBak) ==
  LET w == IF fromBak /\ lnk[l] THEN Z ELSE v IN
    /\ sys' = [sys EXCEPT ![l] = w]
    /\ bak' = IF lnk[l] THEN [bak EXCEPT ![l] = w] ELSE bak

\* one systemctl invocation (linux_service.rs); the stand-in records what the system locations hold right now
DoCall ==
  /\ pc > 0 /\ St.k = "call"
  /\ calls' = Append(calls, [v |-> St.a, s |-> sys, w |-> wrote])
  /\ svc' = CASE St.a = "stop" -> "stopped" [] St.a = "start" -> "running" [] OTHER -> svc
  /\ Adv
  /\ UNCHANGED <<sys, pkg, bak, bdir, rest, wrote, cmd, pre, lnk, bakodd>>

\* main.rs check_backup_exists: the backed-up executable decides
DoCheckBackup ==
  /\ pc > 0 /\ St.k = "chk"
  /\ IF bak["exe"] = A \/ (StaleCheck /\ bakodd) THEN Finish("skip") ELSE Adv
  /\ UNCHANGED <<sys, pkg, bak, bdir, rest, svc, calls, wrote, cmd, pre, lnk, bakodd>>

\* running::proxy_agent_version_target_folder runs `<exe> --version` on the packaged / backed-up executable
DoProbe ==
  /\ pc > 0 /\ St.k = "probe"
  /\ IF Src(St.a)["exe"] \in {A, Z} THEN Finish("panic") ELSE Adv      \* an empty file cannot be executed either
  /\ UNCHANGED <<sys, pkg, bak, bdir, rest, svc, calls, wrote, cmd, pre, lnk, bakodd>>

\* linux::copy_files, one file: a missing source is logged and skipped
DoCopyIn ==
  /\ pc > 0 /\ St.k \in {"cpP", "cpB"}
  /\ LET src == Src(St.k) IN
       /\ IF src[St.a] # A THEN WriteSys(St.a, src[St.a], St.k = "cpB") ELSE UNCHANGED <<sys, bak>>
       /\ wrote' = (wrote \/ src[St.a] # A)
  /\ Adv
  /\ UNCHANGED <<pkg, bdir, rest, svc, calls, cmd, pre, lnk, bakodd>>

\* linux::setup_service -> copy_service_config_file: a missing source is fatal (exit 1, no start)
DoCopyUnit ==
  /\ pc > 0 /\ St.k \in {"unitP", "unitB"}
  /\ LET src == Src(St.k) IN
       IF src["unit"] = A
       THEN Finish("fail") /\ UNCHANGED <<sys, bak, wrote>>
       ELSE WriteSys("unit", src["unit"], St.k = "unitB") /\ wrote' = TRUE /\ Adv
  /\ UNCHANGED <<pkg, bdir, rest, svc, calls, cmd, pre, lnk, bakodd>>

\* linux::backup_files, one file (copy_file creates Backup/Package first; a missing source is logged and skipped,
\* which leaves whatever an earlier backup put there).  The design copies the bytes into a file of its own.
\* Variant LinkBackup: the old backup file is dropped and the system file hard-linked; where link(2) fails
\* (not SameFs: EXDEV) the bytes are copied as before.
DoBackupFile ==
  /\ pc > 0 /\ St.k = "bk"
  /\ IF sys[St.a] = A
     THEN UNCHANGED <<sys, bak, lnk>>
     ELSE IF LinkBackup /\ SameFs /\ St.a \in LinkLocs
     THEN bak' = [bak EXCEPT ![St.a] = sys[St.a]] /\ lnk' = [lnk EXCEPT ![St.a] = TRUE] /\ UNCHANGED sys
     ELSE IF lnk[St.a]      \* fs::copy of a file onto another name of itself
     THEN bak' = [bak EXCEPT ![St.a] = Z] /\ sys' = [sys EXCEPT ![St.a] = Z] /\ UNCHANGED lnk
     ELSE bak' = [bak EXCEPT ![St.a] = sys[St.a]] /\ UNCHANGED <<sys, lnk>>
  /\ bdir' = TRUE
  /\ bakodd' = IF St.a = "exe" /\ sys["exe"] # A THEN FALSE ELSE bakodd     \* a file just written carries the time it was written
  /\ Adv
  /\ UNCHANGED <<pkg, rest, svc, calls, wrote, cmd, pre>>

\* linux_service::delete_service_config_file: daemon-reload only if the unit file was there
DoRemoveUnit ==
  /\ pc > 0 /\ St.k = "rmunit"
  /\ IF sys["unit"] # A
     THEN sys' = [sys EXCEPT !["unit"] = A] /\ wrote' = TRUE /\ Adv
     ELSE UNCHANGED <<sys, wrote>> /\ Goto(pc + 2)
  /\ lnk' = [lnk EXCEPT !["unit"] = FALSE]       \* unlink removes one name; the other keeps the inode
  /\ UNCHANGED <<pkg, bak, bdir, rest, svc, calls, cmd, pre, bakodd>>

\* linux::delete_files, one file
DoDeleteFile ==
  /\ pc > 0 /\ St.k = "rm"
  /\ sys' = [sys EXCEPT ![St.a] = A]
  /\ lnk' = [lnk EXCEPT ![St.a] = FALSE]
  /\ wrote' = (wrote \/ sys[St.a] # A)
  /\ Adv
  /\ UNCHANGED <<pkg, bak, bdir, rest, svc, calls, cmd, pre, bakodd>>

\* main.rs delete_backup_folder: remove_dir_all(<dir>/ProxyAgent/Backup)
DoDeleteBackup ==
  /\ pc > 0 /\ St.k = "rmbak"
  /\ bak' = All(A) /\ bdir' = FALSE /\ lnk' = All(FALSE) /\ bakodd' = FALSE
  /\ Adv
  /\ UNCHANGED <<sys, pkg, rest, svc, calls, wrote, cmd, pre>>

BeginBackup     == Begin("backup")
BeginInstall    == Begin("install")
BeginRestoreT   == Begin("restoreT")
BeginRestoreF   == Begin("restoreF")
BeginUninstallS == Begin("uninstallS")
BeginUninstallP == Begin("uninstallP")
BeginPurge      == Begin("purge")

Next == \/ BeginBackup \/ BeginInstall \/ BeginRestoreT \/ BeginRestoreF
        \/ BeginUninstallS \/ BeginUninstallP \/ BeginPurge
        \/ DoCall \/ DoCheckBackup \/ DoProbe \/ DoCopyIn \/ DoCopyUnit \/ DoBackupFile
        \/ DoRemoveUnit \/ DoDeleteFile \/ DoDeleteBackup
        \/ ClockStep

Spec == Init /\ [][Next]_vars

-----------------------------------------------------------------------------
\* Properties.  Done = a command has just completed; `pre` is the state it started from.
\* The state predicates below are also what the trace specification (trace/SetupTrace.tla) evaluates on the
\* observed behaviour of the real binary, so they mention only observables and the ghosts of NextRt.

Done == pc = 0 /\ cmd # "none"
Content == {A, "a", "b", "p"} \cup (IF LinkBackup THEN {Z} ELSE {})
TypeOK ==
  /\ sys \in [Locs -> Content] /\ bak \in [Locs -> Content] /\ pkg \in [Locs -> Content]
  /\ lnk \in [Locs -> BOOLEAN] /\ bakodd \in BOOLEAN
  /\ bdir \in BOOLEAN /\ svc \in {"running", "stopped"} /\ cmd \in Cmds \cup {"none"}
  /\ wrote \in BOOLEAN /\ pc \in 0..12 /\ res \in {"none", "run", "ok", "skip", "fail", "panic"} /\ rt \in 0..2 /\ chk \in BOOLEAN

\* backup (of an installed version); installation; restore  =>  the four locations are byte-identical to before
RoundTrip == chk => sys = s0

\* observable form of "stopped before any file was replaced": if the command wrote or changed a system location, a
\* `stop` was issued and, up to and including that call, no location had been written and all still held what
\* they held before the command
StopBeforeReplaceObs ==
  (Done /\ (sys # pre.sys \/ wrote)) =>
     \E i \in 1..Len(calls) : calls[i].v = "stop" /\ \A j \in 1..i : calls[j].s = pre.sys /\ ~calls[j].w
\* ... as a step property of the model
StopBeforeReplace == [][(sys' # sys \/ (wrote' /\ ~wrote)) =>
                           svc = "stopped" /\ \E i \in 1..Len(calls) : calls[i].v = "stop"]_vars

\* "and started again afterwards": an install, or a restore from a complete backup, ends with `start`, issued when
\* the locations already held their final contents, and began with `stop`, issued before anything changed
StartedAfter ==
  (Done /\ (cmd = "install" \/ (cmd \in Restores /\ Full(pre.bak)))) =>
     /\ res = "ok" /\ svc = "running" /\ Len(calls) >= 2
     /\ calls[1].v = "stop" /\ calls[1].s = pre.sys /\ ~calls[1].w
     /\ calls[Len(calls)].v = "start" /\ calls[Len(calls)].s = sys

InstallExact == (Done /\ cmd = "install") => sys = pre.pkg

RestoreNoBackupIsNoop ==
  (Done /\ cmd \in Restores /\ None(pre.bak)) =>
     sys = pre.sys /\ bak = pre.bak /\ bdir = pre.bdir /\ svc = pre.svc /\ calls = << >>

\* "restore with / without backup deletion"
RestoreDeletion ==
  /\ (Done /\ cmd = "restoreT" /\ Full(pre.bak)) => None(bak) /\ ~bdir
  /\ (Done /\ cmd = "restoreF") => bak = pre.bak /\ bdir = pre.bdir

UninstallPackageRemoves == (Done /\ cmd = "uninstallP") => None(sys)

PurgeOnlyBackup ==
  (Done /\ cmd = "purge") => None(bak) /\ ~bdir /\ sys = pre.sys /\ svc = pre.svc /\ calls = << >>

\* no command alters anything outside the system locations, the backup folder and the log: neither the rest of
\* the file system nor the packaged files
FrameObs == Done => rest = pre.rest /\ pkg = pre.pkg
Frame == [][rest' = rest /\ pkg' = pkg]_vars

\* --- model-only (implementation shape; conformance, not the statement) ---
\* lnk means what it says
LnkSound == \A l \in Locs : lnk[l] => sys[l] # A /\ bak[l] = sys[l]
\* the design keeps the backup in files of its own, whatever the file systems: this is what makes overwriting the
\* system locations in place safe, and why SameFs does not change any expected content
BackupIsSeparate == \A l \in Locs : ~lnk[l]
RestoreExact == (Done /\ cmd \in Restores /\ Full(pre.bak)) => sys = pre.bak
BackupExact  == (Done /\ cmd = "backup" /\ Full(pre.sys)) => bak = pre.sys /\ bdir /\ sys = pre.sys /\ calls = << >>
BackupTouchedOnlyBy == [][bak' # bak => cmd \in {"backup", "restoreT", "purge"}]_vars
RtMeansBackupHeld == (pc = 0 /\ rt >= 1) => bak = s0 /\ Full(s0)
\* the tool fails (exit 1, service left stopped) only when the source of the unit file is missing, which needs a
\* backup taken while the unit was not installed; never from a complete package or backup
FailOnlyFromPartialBackup == (Done /\ res \in {"fail", "panic"}) => cmd \in Restores /\ ~Full(pre.bak)
=============================================================================
