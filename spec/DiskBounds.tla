----------------------------- MODULE DiskBounds -----------------------------
(***************************************************************************)
(* C19 -- disk usage by rolling logs, telemetry event files and            *)
(* authorization-rule dumps stays within the configured bounds.            *)
(*                                                                         *)
(* Three small machines in the SHAPE of the code:                          *)
(*                                                                         *)
(*  RollingLog  proxy_agent_shared/src/logger/rolling_logger.rs            *)
(*     The logger object keeps NO state: every write re-opens the current  *)
(*     file (creating it when absent), checks its size BEFORE appending    *)
(*     (roll_if_needed: size >= limit), and on a roll renames the current  *)
(*     file to a timestamped name, lists the archived files (the current   *)
(*     one does not exist at that moment), removes the                     *)
(*     (count - max + 1) oldest when count >= max, re-creates the current  *)
(*     file and only then appends.  So max-1 archived files + the current. *)
(*     A restart is therefore a no-op on the abstract state; what matters  *)
(*     is the directory it finds.                                          *)
(*     Fault dimension (RollFaults): for a while the environment makes the *)
(*     rename of the current file fail (the file is a mount point, is      *)
(*     append-only, ...) while appending still works.  roll_if_needed()?   *)
(*     then returns the error BEFORE anything is appended: the write is    *)
(*     refused and nothing grows (LogWriteRollFails).                      *)
(*     Kill dimension (RollKills): a run may be killed INSIDE archive_file *)
(*     after the rename of the full current file and before the removal of *)
(*     the old archives is complete; the next run finds what is left       *)
(*     (LogKilledInRoll): max archived files and no current one, so one    *)
(*     file too many per such kill -- until the first roll that completes, *)
(*     whose removal loop deletes ALL the excess.                          *)
(*     Fault dimension (RoomFaults): for a while the file system of the    *)
(*     logs has NO ROOM: creating an (empty) file, renaming and removing   *)
(*     work, anything that needs a data block fails.  The roll of the      *)
(*     code needs no room (rename, removals -- which free room --, create) *)
(*     and completes; only the append fails, the write is refused          *)
(*     (LogWriteNoRoomNoRoll / LogWriteNoRoomRoll).  RollDesign = "copy"   *)
(*     is the design VARIANT that archives by copy + truncate: its copy    *)
(*     fails after creating the archive, before the clean-up, the current  *)
(*     file stays at its limit and every further write leaves one more     *)
(*     file (witness configuration, TLC must reject it).                   *)
(*     Environment dimension (LogListFaults): while a write rolls, an      *)
(*     entry of the log directory cannot be stat()ed -- the OTHER rolling  *)
(*     logger of the same folder removed one of its archives between this  *)
(*     logger's read_dir and fs::metadata (or a dangling link).            *)
(*     get_log_files() skips such an entry: the roll completes its         *)
(*     clean-up as ever (no action changes under logBlind).                *)
(*     ListingDesign = "fail" is the design VARIANT (the code before       *)
(*     'fix: skip directory entries that cannot be inspected ...') whose   *)
(*     listing fails as a whole AFTER the rename and BEFORE the removals:  *)
(*     one file too many, the current file gone, the write refused         *)
(*     (witness configuration, TLC must reject it).                        *)
(*  EventDir    proxy_agent_shared/src/telemetry/event_logger.rs start()   *)
(*     timer tick: queue empty -> nothing; else the queue is drained, the  *)
(*     directory is listed and, when files >= cap, the drained events are  *)
(*     dropped; otherwise ONE new file holds all of them.  The queue is    *)
(*     process memory (lost on restart); the telemetry reader removes      *)
(*     files independently.  event_logger::stop() sets a flag; the loop,   *)
(*     at its next wake-up, closes the queue, drains what is queued        *)
(*     SUBJECT TO THE SAME CAP CHECK (one file or dropped) and the task    *)
(*     ends (EvStopIdle / EvStopWrite / EvStopDrop); from then on          *)
(*     write_event fails on the closed queue until the process restarts.   *)
(*     Fault dimension (FlushFaults): json_write_to_file creates           *)
(*     <nanos>.tmp, serialises into it and renames it; when the write      *)
(*     fails after File::create (disk full) the temp file STAYS -- an      *)
(*     entry of the directory that is not an event file and that nobody    *)
(*     removes (the reader takes *.json only).  misc_helpers::get_files    *)
(*     counts every regular file, so such leftovers use up the cap: the    *)
(*     cap is a bound on ALL entries of the directory (EvEntries).         *)
(*  RuleDumps   proxy_agent/src/proxy/authorization_rules.rs write_all     *)
(*     list AuthorizationRules_*.json sorted by name (= by time, names     *)
(*     carry the UTC time), remove the (count - max + 1) first when        *)
(*     count >= max, then write the new dump.                              *)
(*     Environment dimension (ListFaults): for a while the directory has   *)
(*     an entry that cannot be stat()ed (dangling symbolic link):          *)
(*     misc_helpers::search_files fails as a whole and write_all returns   *)
(*     BEFORE writing anything (DumpWriteSkipped).  DumpDesign =           *)
(*     "write-first" is the design VARIANT that writes the new dump before *)
(*     listing: its early return skips the clean-up instead (witness       *)
(*     configuration, TLC must reject it).                                 *)
(*                                                                         *)
(* Sizes are in abstract units; archived files and dumps are kept oldest   *)
(* first.  `Machine` selects which machine(s) may move, so that the        *)
(* exhaustive configurations do not explore the (uninteresting) product.   *)
(***************************************************************************)
EXTENDS Integers, Sequences, FiniteSets, TLC

CONSTANTS Machine,      \* "log" | "event" | "dumps" | "all"
          \* --- rolling log
          MaxCount,     \* configured number of files per rolling log (>= 1)
          Limit,        \* size limit of one file
          MaxWrite,     \* writes have sizes 1..MaxWrite (model bound only)
          PreArch,      \* directories are pre-filled with 0..PreArch archived files ...
          PreSizes,     \* ... of these sizes
          PreCur,       \* ... and no current file or one of one of these sizes
          CrashPoints,  \* BOOLEAN: the process may also be killed between the system calls of one write
          RollFaults,   \* BOOLEAN: the environment may make the archive rename fail for a while
          RoomFaults,   \* BOOLEAN: the log file system may have no room for a while
          RollDesign,   \* "rename" (the code) | "copy" (design variant: archive by copy + truncate)
          LogListFaults,\* BOOLEAN: an entry of the log directory may be un-stat()able while a write rolls
          ListingDesign,\* "skip" (the code: such entries are skipped) | "fail" (design variant: the listing fails)
          RollKills,    \* BOOLEAN: a run may be killed between the rename and the last removal of a roll, then restarted
          \* --- event directory
          Cap,          \* max_event_file_count
          MaxPush,      \* events pushed at once 1..MaxPush
          QueueBound,   \* model bound on the in-memory queue (the real queue holds 1000)
          PreEv,        \* directory pre-filled with 0..PreEv files
          FlushFaults,  \* BOOLEAN: a flush may fail after creating its temp file (disk full)
          PreTmp,       \* directory pre-filled with 0..PreTmp leftover temp files as well (FlushFaults only)
          \* --- rule dumps
          MaxDumps,     \* max_file_count of write_all
          ListFaults,   \* BOOLEAN: the dump directory may hold an entry that cannot be stat()ed for a while
          DumpDesign,   \* "cleanup-first" (the code) | "write-first" (design variant)
          PreDumps,     \* directory pre-filled with 0..PreDumps dumps
          MaxIds        \* model bound on the number of dumps ever written

VARIABLES
  \* rolling log
  arch,      \* sizes of the archived files, oldest first
  cur,       \* size of the current file, -1 = no current file
  lw,        \* ghost: size of the last write that went into the current file
  rolled,    \* ghost: a roll happened since the directory was found
  logLegal,  \* ghost: the directory found at start could have been left by this logger (room for the current file)
  debt,      \* ghost (CrashPoints / RollKills): kills in the middle of archive_file since the last completed roll
  logBlind,  \* environment: an entry of the log directory cannot be stat()ed at present
  noRoom,    \* environment: no data block can be allocated on the log file system at present
  rollFails, \* environment: fs::rename of the current file fails at present (appending still works)
  \* event directory
  evFiles,   \* number of event files (<nanos>.json) in the event directory
  evTmp,     \* number of leftover temp files (<nanos>.tmp) in the event directory
  evQueue,   \* events waiting in the in-memory queue
  evRun,     \* the event logger task is running (FALSE after stop() was handled, until the process restarts)
  evLegal,   \* ghost: the directory found at start held <= Cap files
  \* rule dumps
  dumps,     \* ids of the dumps on disk, oldest first; ids grow with age order of creation
  nextId,
  dLegal,    \* ghost: the directory found at start held <= MaxDumps dumps
  dWritten,  \* ghost: write_all ran its clean-up at least once
  listFails  \* environment: search_files on the dump directory fails at present

logVars  == <<arch, cur, lw, rolled, logLegal, debt, rollFails, noRoom, logBlind>>
evVars   == <<evFiles, evTmp, evQueue, evRun, evLegal>>
dumpVars == <<dumps, nextId, dLegal, dWritten, listFails>>
vars     == <<logVars, evVars, dumpVars>>

On(m) == Machine = m \/ Machine = "all"

Range(s) == {s[i] : i \in DOMAIN s}
SeqsUpTo(S, n) == UNION {[1..k -> S] : k \in 0..n}
Drop(s, k) == SubSeq(s, k + 1, Len(s))
\* the loop shared by archive_file and write_all: `if count >= max { remove count - max + 1 of the first }`
Excess(count, max) == IF count >= max THEN count - max + 1 ELSE 0

-----------------------------------------------------------------------------
\* The property, as predicates over observable quantities (used by the model's invariants below and, with the
\* REAL numbers of a run, by trace/DiskBoundsTrace.tla).

NumLogFiles(a, c) == Len(a) + (IF c >= 0 THEN 1 ELSE 0)
\* "the number of files kept per rolling log never exceeds its configured count"
P_LogCount(a, c, max) == NumLogFiles(a, c) <= max
\* "no log file grows beyond its size limit by more than one write"
P_LogSize(size, lastWrite, limit) == size <= limit + lastWrite
\* "the event directory never holds more files than its cap"
P_EvCount(n, cap) == n <= cap
\* "(new events are dropped instead)": at or above the cap the logger adds nothing
P_EvNoGrowthAtCap(n, n2, cap) == n >= cap => n2 <= n
\* "at most the configured number of authorization-rule dumps is kept"
P_DumpCount(d, max) == Len(d) <= max
\* a rule-set change never takes the number of dumps above the configured number, nor any higher than it found it
P_DumpNoGrowthAtMax(n, n2, max) == n >= max => n2 <= n
\* "the oldest being removed first": every removed dump is older than every dump that was kept (ids grow with age order)
P_RemovedAreOldest(old, new) ==
  \A i \in DOMAIN old : old[i] \notin Range(new) =>
     \A j \in DOMAIN old : old[j] \in Range(new) => old[i] < old[j]

-----------------------------------------------------------------------------
\* Initial states: the directories found by the first run (empty, partly filled, at the limit, beyond it).

LogInit ==
  /\ IF On("log")
       THEN /\ arch \in SeqsUpTo(PreSizes, PreArch)
            /\ cur \in PreCur \cup {-1}
       ELSE arch = <<>> /\ cur = -1
  /\ lw = IF cur < Limit THEN 0 ELSE cur - Limit + 1   \* the smallest last write that explains the size found
  /\ rolled = FALSE /\ debt = 0 /\ rollFails = FALSE /\ noRoom = FALSE /\ logBlind = FALSE
  /\ logLegal = (Len(arch) + 1 <= MaxCount)

EvInit ==
  /\ IF On("event") THEN evFiles \in 0..PreEv ELSE evFiles = 0
  /\ IF On("event") /\ FlushFaults THEN evTmp \in 0..PreTmp ELSE evTmp = 0
  /\ evQueue = 0 /\ evRun = TRUE
  /\ evLegal = (evFiles + evTmp <= Cap)

DumpInit ==
  /\ \E n \in 0..(IF On("dumps") THEN PreDumps ELSE 0) :
        /\ dumps = [i \in 1..n |-> i]
        /\ nextId = n + 1
  /\ dLegal = (Len(dumps) <= MaxDumps)
  /\ dWritten = FALSE /\ listFails = FALSE

Init == LogInit /\ EvInit /\ DumpInit

-----------------------------------------------------------------------------
\* RollingLog.  One write (RollingLogger::write / write_many) is one action:
\*   roll_if_needed: open_file (creates an empty current file when absent); size >= limit => archive_file; open_file
\*   then append.

LogOnly == On("log") /\ UNCHANGED <<evVars, dumpVars>>
CurOpened == IF cur < 0 THEN 0 ELSE cur          \* open_file
ShouldRoll == CurOpened >= Limit                 \* `file_length >= self.max_log_file_size`, checked BEFORE appending
Renamed == Append(arch, CurOpened)               \* fs::rename(current, name.<utc>-<nanos>.log); the current file is gone
\* get_log_files() inside archive_file succeeds: always in the code ("skip": an entry that cannot be inspected is not
\* one of this log's files), not while such an entry exists in the design variant "fail"
ListingWorks == logBlind => ListingDesign = "skip"
Trimmed == Drop(Renamed, Excess(Len(Renamed), MaxCount))   \* get_log_files() + removal loop (oldest = first by name)

LogWriteNoRoll(n) ==         \* appending works whether or not the rename would
  /\ LogOnly /\ ~ShouldRoll /\ ~noRoom
  /\ cur' = CurOpened + n /\ lw' = n
  /\ UNCHANGED <<arch, rolled, logLegal, debt, rollFails, noRoom, logBlind>>

LogWriteRollKeep(n) ==       \* roll, nothing to delete yet
  /\ LogOnly /\ ShouldRoll /\ ~rollFails /\ ~noRoom /\ ListingWorks /\ Excess(Len(Renamed), MaxCount) = 0
  /\ arch' = Renamed /\ cur' = n /\ lw' = n /\ rolled' = TRUE /\ debt' = 0
  /\ UNCHANGED <<logLegal, rollFails, noRoom, logBlind>>

LogWriteRollTrim(n) ==       \* roll and delete the oldest archived files
  /\ LogOnly /\ ShouldRoll /\ ~rollFails /\ ~noRoom /\ ListingWorks /\ Excess(Len(Renamed), MaxCount) > 0
  /\ arch' = Trimmed /\ cur' = n /\ lw' = n /\ rolled' = TRUE /\ debt' = 0
  /\ UNCHANGED <<logLegal, rollFails, noRoom, logBlind>>

\* `self.roll_if_needed()?` with archive_file's fs::rename failing: the error is returned before open_file/append,
\* the write of n is REFUSED and every file keeps its size
LogWriteRollFails(n) ==
  /\ LogOnly /\ ShouldRoll /\ rollFails
  /\ UNCHANGED logVars

\* the environment: the fault appears (on an existing current file) and goes away
LogFaultOn ==
  /\ LogOnly /\ RollFaults /\ ~rollFails /\ cur >= 0
  /\ rollFails' = TRUE
  /\ UNCHANGED <<arch, cur, lw, rolled, logLegal, debt, noRoom, logBlind>>

LogFaultOff ==
  /\ LogOnly /\ rollFails
  /\ rollFails' = FALSE
  /\ UNCHANGED <<arch, cur, lw, rolled, logLegal, debt, noRoom, logBlind>>

\* No room on the log file system.  The write of n without a roll: open_file (creates the EMPTY current file when
\* absent: no data block needed), the append fails, the write is REFUSED.
LogWriteNoRoomNoRoll(n) ==
  /\ LogOnly /\ noRoom /\ ~ShouldRoll
  /\ cur' = CurOpened /\ lw' = IF cur < 0 THEN 0 ELSE lw
  /\ UNCHANGED <<arch, rolled, logLegal, debt, rollFails, noRoom, logBlind>>

\* ... with a roll, as the code does it: fs::rename, the removals (they free room), File::create of the new current
\* file -- none of them needs room, the roll COMPLETES --, then the append fails and the write is refused.
LogWriteNoRoomRoll(n) ==
  /\ LogOnly /\ noRoom /\ ShouldRoll /\ ~rollFails /\ ListingWorks /\ RollDesign = "rename"
  /\ arch' = Trimmed /\ cur' = 0 /\ lw' = 0 /\ rolled' = TRUE /\ debt' = 0
  /\ UNCHANGED <<logLegal, rollFails, noRoom, logBlind>>

\* DESIGN VARIANT (RollDesign = "copy"): archive by fs::copy + truncate.  The copy creates the archive and fails for
\* want of room BEFORE the clean-up; the current file keeps its size (still at the limit); the write is refused.
LogWriteNoRoomCopyFails(n) ==
  /\ LogOnly /\ noRoom /\ ShouldRoll /\ ~rollFails /\ RollDesign = "copy"
  /\ arch' = Append(arch, 0)
  /\ UNCHANGED <<cur, lw, rolled, logLegal, debt, rollFails, noRoom, logBlind>>

\* DESIGN VARIANT (ListingDesign = "fail"): fs::rename done, get_log_files()? fails on the entry that cannot be
\* stat()ed: no removal, no new current file, the write of n is refused
LogWriteRollListingFails(n) ==
  /\ LogOnly /\ ShouldRoll /\ ~rollFails /\ logBlind /\ ListingDesign = "fail"
  /\ arch' = Renamed /\ cur' = -1 /\ lw' = 0
  /\ UNCHANGED <<rolled, logLegal, debt, rollFails, noRoom, logBlind>>

LogListingBreaks ==
  /\ LogOnly /\ LogListFaults /\ ~logBlind
  /\ logBlind' = TRUE
  /\ UNCHANGED <<arch, cur, lw, rolled, logLegal, debt, rollFails, noRoom>>

LogListingHeals ==
  /\ LogOnly /\ logBlind
  /\ logBlind' = FALSE
  /\ UNCHANGED <<arch, cur, lw, rolled, logLegal, debt, rollFails, noRoom>>

LogNoRoomOn ==
  /\ LogOnly /\ RoomFaults /\ ~noRoom
  /\ noRoom' = TRUE
  /\ UNCHANGED <<arch, cur, lw, rolled, logLegal, debt, rollFails, logBlind>>

LogNoRoomOff ==
  /\ LogOnly /\ noRoom
  /\ noRoom' = FALSE
  /\ UNCHANGED <<arch, cur, lw, rolled, logLegal, debt, rollFails, logBlind>>

\* The run is killed inside archive_file during a write: after fs::rename and j of the removals that were due (not
\* all of them), before the current file is re-created; the process is started again and finds the directory so.
\* A restart: the event queue is lost and the event logger task runs again.
LogKilledInRoll(j) ==
  /\ On("log") /\ RollKills /\ ShouldRoll /\ ~rollFails
  /\ j \in 0..(Excess(Len(Renamed), MaxCount) - 1)
  /\ arch' = Drop(Renamed, j) /\ cur' = -1 /\ lw' = 0
  /\ rolled' = FALSE            \* the directory is found anew, no roll has completed since
  /\ debt' = debt + 1
  /\ UNCHANGED <<logLegal, rollFails, noRoom, logBlind>>
  /\ evQueue' = 0 /\ evRun' = TRUE
  /\ UNCHANGED <<evFiles, evTmp, evLegal, dumpVars>>

\* Crash points (only with CrashPoints): the process is killed between two system calls of one write.
\* after open_file / after the re-creation that follows a roll, before the append
LogKillBeforeAppend ==
  /\ LogOnly /\ CrashPoints /\ (ShouldRoll => ~rollFails)
  /\ IF ShouldRoll THEN arch' = Trimmed /\ cur' = 0 /\ rolled' = TRUE /\ debt' = 0
                   ELSE arch' = arch /\ cur' = CurOpened /\ rolled' = rolled /\ debt' = debt
  /\ lw' = IF ShouldRoll \/ cur < 0 THEN 0 ELSE lw
  /\ UNCHANGED <<logLegal, rollFails, noRoom, logBlind>>
\* after the rename and j of the removals, before the current file is re-created
LogKillInArchive(j) ==
  /\ LogOnly /\ CrashPoints /\ ShouldRoll /\ ~rollFails
  /\ j \in 0..Excess(Len(Renamed), MaxCount)
  /\ arch' = Drop(Renamed, j) /\ cur' = -1 /\ lw' = 0
  /\ debt' = IF j < Excess(Len(Renamed), MaxCount) THEN debt + 1 ELSE debt
  /\ UNCHANGED <<rolled, logLegal, rollFails, noRoom, logBlind>>

LogNext == \/ \E n \in 1..MaxWrite : \/ LogWriteNoRoll(n)
                                     \/ LogWriteRollKeep(n)
                                     \/ LogWriteRollTrim(n)
                                     \/ LogWriteRollFails(n)
                                     \/ LogWriteNoRoomNoRoll(n) \/ LogWriteNoRoomRoll(n)
                                     \/ LogWriteNoRoomCopyFails(n)
                                     \/ LogWriteRollListingFails(n)
           \/ LogFaultOn \/ LogFaultOff \/ LogNoRoomOn \/ LogNoRoomOff \/ LogListingBreaks \/ LogListingHeals
           \/ LogKillBeforeAppend
           \/ \E j \in 0..(PreArch + 2) : LogKillInArchive(j) \/ LogKilledInRoll(j)

-----------------------------------------------------------------------------
\* EventDir.

EvOnly == On("event") /\ UNCHANGED <<logVars, dumpVars>>
EvEntries == evFiles + evTmp     \* misc_helpers::get_files(&event_dir).len(): every regular file, whatever its name
EvPush(k) ==                 \* write_event x k (the queue is bounded; the model stays below the bound)
  /\ EvOnly /\ evRun /\ evQueue + k <= QueueBound
  /\ evQueue' = evQueue + k
  /\ UNCHANGED <<evFiles, evTmp, evRun, evLegal>>

EvPushClosed(k) ==           \* write_event after the stop: EVENT_QUEUE.push fails (closed), the events are discarded
  /\ EvOnly /\ ~evRun /\ k \in 1..MaxPush
  /\ UNCHANGED evVars

EvTickIdle ==                \* `if EVENT_QUEUE.is_empty() { continue; }`
  /\ EvOnly /\ evRun /\ evQueue = 0
  /\ UNCHANGED evVars

EvTickWrite ==               \* drained, files < cap: ONE new file <nanos>.json
  /\ EvOnly /\ evRun /\ evQueue > 0 /\ EvEntries < Cap
  /\ evFiles' = evFiles + 1 /\ evQueue' = 0
  /\ UNCHANGED <<evTmp, evRun, evLegal>>

EvTickFails ==               \* drained, entries < cap, File::create(<nanos>.tmp) ok, the write fails: the temp file stays
  /\ EvOnly /\ FlushFaults /\ evRun /\ evQueue > 0 /\ EvEntries < Cap
  /\ evTmp' = evTmp + 1 /\ evQueue' = 0
  /\ UNCHANGED <<evFiles, evRun, evLegal>>

EvTickDrop ==                \* drained, `files.len() >= max_event_file_count`: the events are dropped
  /\ EvOnly /\ evRun /\ evQueue > 0 /\ EvEntries >= Cap
  /\ evQueue' = 0
  /\ UNCHANGED <<evFiles, evTmp, evRun, evLegal>>

EvTickStopped ==             \* time passes after the task has ended: nothing
  /\ EvOnly /\ ~evRun
  /\ UNCHANGED evVars

\* event_logger::stop() and the loop's next wake-up: `shutdown.load()` -> EVENT_QUEUE.close(); then the SAME body as
\* a periodic tick (empty -> continue; drain; cap check -> drop, or one file); back at the top of the loop the closed
\* queue ends the task.
EvStopIdle ==
  /\ EvOnly /\ evRun /\ evQueue = 0
  /\ evRun' = FALSE
  /\ UNCHANGED <<evFiles, evTmp, evQueue, evLegal>>

EvStopWrite ==               \* the last events go to ONE new file: only below the cap
  /\ EvOnly /\ evRun /\ evQueue > 0 /\ EvEntries < Cap
  /\ evFiles' = evFiles + 1 /\ evQueue' = 0 /\ evRun' = FALSE
  /\ UNCHANGED <<evTmp, evLegal>>

EvStopFails ==               \* the last flush fails after creating its temp file
  /\ EvOnly /\ FlushFaults /\ evRun /\ evQueue > 0 /\ EvEntries < Cap
  /\ evTmp' = evTmp + 1 /\ evQueue' = 0 /\ evRun' = FALSE
  /\ UNCHANGED <<evFiles, evLegal>>

EvStopDrop ==                \* at or above the cap the last events are dropped like any others
  /\ EvOnly /\ evRun /\ evQueue > 0 /\ EvEntries >= Cap
  /\ evQueue' = 0 /\ evRun' = FALSE
  /\ UNCHANGED <<evFiles, evTmp, evLegal>>

EvStop == EvStopIdle \/ EvStopWrite \/ EvStopDrop

EvReaderRemove(k) ==         \* the telemetry reader sent k event files and removed them (it never touches temp files)
  /\ EvOnly /\ k \in 1..evFiles
  /\ evFiles' = evFiles - k
  /\ UNCHANGED <<evTmp, evQueue, evRun, evLegal>>

EvNext == \/ \E k \in 1..MaxPush : EvPush(k) \/ EvPushClosed(k)
          \/ EvTickIdle \/ EvTickWrite \/ EvTickDrop \/ EvTickStopped \/ EvTickFails
          \/ EvStop \/ EvStopFails
          \/ \E k \in 1..(PreEv + 1) : EvReaderRemove(k)

-----------------------------------------------------------------------------
\* RuleDumps.

DumpOnly == On("dumps") /\ UNCHANGED <<logVars, evVars>>
DumpKept == Drop(dumps, Excess(Len(dumps), MaxDumps))

DumpWriteKeep ==
  /\ DumpOnly /\ ~listFails /\ Excess(Len(dumps), MaxDumps) = 0
  /\ dumps' = Append(dumps, nextId) /\ nextId' = nextId + 1 /\ dWritten' = TRUE
  /\ UNCHANGED <<dLegal, listFails>>

DumpWriteTrim ==
  /\ DumpOnly /\ ~listFails /\ Excess(Len(dumps), MaxDumps) > 0
  /\ dumps' = Append(DumpKept, nextId) /\ nextId' = nextId + 1 /\ dWritten' = TRUE
  /\ UNCHANGED <<dLegal, listFails>>

\* search_files fails (an entry of the directory cannot be stat()ed): `return` before anything is written
DumpWriteSkipped ==
  /\ DumpOnly /\ listFails /\ DumpDesign = "cleanup-first"
  /\ UNCHANGED dumpVars

\* DESIGN VARIANT (DumpDesign = "write-first"): the new dump is written, THEN the listing fails and the early return
\* skips the clean-up
DumpWriteNoCleanup ==
  /\ DumpOnly /\ listFails /\ DumpDesign = "write-first"
  /\ dumps' = Append(dumps, nextId) /\ nextId' = nextId + 1
  /\ UNCHANGED <<dLegal, dWritten, listFails>>

DumpListingBreaks ==
  /\ DumpOnly /\ ListFaults /\ ~listFails
  /\ listFails' = TRUE
  /\ UNCHANGED <<dumps, nextId, dLegal, dWritten>>

DumpListingHeals ==
  /\ DumpOnly /\ listFails
  /\ listFails' = FALSE
  /\ UNCHANGED <<dumps, nextId, dLegal, dWritten>>

DumpNext == DumpWriteKeep \/ DumpWriteTrim \/ DumpWriteSkipped \/ DumpWriteNoCleanup
            \/ DumpListingBreaks \/ DumpListingHeals

-----------------------------------------------------------------------------
\* Restart of the process: the rolling logger and write_all keep no state; the event queue is memory and the event
\* logger task is started again (SHUT_DOWN / EVENT_QUEUE are statics of the new process).  Whether the rename fault
\* is still there is the environment's business (LogFaultOff may happen at any time).
Restart ==
  /\ evQueue' = 0 /\ evRun' = TRUE
  /\ UNCHANGED <<logVars, evFiles, evTmp, evLegal, dumpVars>>

Next == LogNext \/ EvNext \/ DumpNext \/ Restart

Spec == Init /\ [][Next]_vars

\* the sizes of the archived files never influence a later step (only their number does): the configuration that
\* explores kills inside rolls identifies states up to those sizes
CountView == <<Len(arch), cur, lw, rolled, logLegal, debt, rollFails, noRoom, logBlind, evVars, dumpVars>>

\* model bounds (state constraint)
Bounded == nextId <= MaxIds + 1 /\ debt <= 2

-----------------------------------------------------------------------------
\* Invariants (after EVERY step) and step properties.

TypeOK == /\ arch \in Seq(Nat) /\ cur \in Int /\ cur >= -1 /\ lw \in Nat
          /\ noRoom \in BOOLEAN /\ listFails \in BOOLEAN /\ logBlind \in BOOLEAN
          /\ rollFails \in BOOLEAN /\ (rollFails => RollFaults /\ cur >= 0)
          /\ evFiles \in Nat /\ evTmp \in Nat /\ evQueue \in 0..QueueBound /\ evRun \in BOOLEAN
          /\ dumps \in Seq(Nat) /\ nextId \in Nat

\* C19, rolling log, for directories an earlier run with the same settings can have left without being killed in a roll
LogCountBound == (logLegal /\ ~CrashPoints /\ debt = 0) => P_LogCount(arch, cur, MaxCount)
\* whatever was found (by the first run, or after a kill inside a roll): once a roll has COMPLETED the bound holds
\* (the removal loop deletes ALL the excess) and keeps holding
LogCountRecovered == (rolled /\ ~CrashPoints) => P_LogCount(arch, cur, MaxCount)
\* without a roll nothing is ever added beyond the current file
LogNoGrowthWithoutRoll == [][(Len(arch') > Len(arch)) => (rolled' \/ debt' > debt)]_vars
\* with crash points anywhere: one file too many per kill that hit the window between the rename and the removals
\* (max archived files, then a fresh current one), until the next completed roll removes ALL the excess
LogCountBoundCrash == logLegal => P_LogCount(arch, cur, MaxCount + debt)
\* witness (expected to FAIL with CrashPoints): the plain bound does not survive a kill between the rename and the removals
LogCountLegalStrict == logLegal => P_LogCount(arch, cur, MaxCount)
LogCrashRecovers == [][(debt' = 0 /\ debt > 0) => P_LogCount(arch', cur', MaxCount)]_vars
\* the size: the implementation checks `>=` before appending, so the bound is even strict
LogSizeBound == cur >= 0 => P_LogSize(cur, lw, Limit)
LogSizeStrict == cur >= 0 => cur < Limit + lw
\* while the roll cannot be done, a file at or over the limit takes nothing more (the write is refused)
LogNoGrowthWhileRollFails == [][(rollFails /\ rollFails' /\ cur >= Limit) => (cur' = cur /\ arch' = arch)]_vars
\* event directory
\* "the event directory never holds more files than its cap": ALL entries count, event files and leftovers alike
EvCountBound == evLegal => P_EvCount(evFiles + evTmp, Cap)
EvDropAtCap == [][P_EvNoGrowthAtCap(evFiles + evTmp, evFiles' + evTmp', Cap)]_vars
EvOneFilePerTick == [][evFiles' + evTmp' <= evFiles + evTmp + 1]_vars
\* once the task has ended the logger adds nothing (only the reader changes the directory) and holds no events
EvStoppedIsQuiet == [][(~evRun /\ ~evRun') => evFiles' + evTmp' <= evFiles + evTmp]_vars
EvStoppedQueueEmpty == ~evRun => evQueue = 0
\* rule dumps
DumpCountBound == (dLegal \/ dWritten) => P_DumpCount(dumps, MaxDumps)
DumpNoGrowthAtMax == [][P_DumpNoGrowthAtMax(Len(dumps), Len(dumps'), MaxDumps)]_vars
DumpOldestFirst == [][P_RemovedAreOldest(dumps, dumps')]_vars
DumpNewestKept == [][dumps' # dumps => dumps'[Len(dumps')] = nextId]_vars
=============================================================================
