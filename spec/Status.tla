------------------------------- MODULE Status -------------------------------
(***************************************************************************)
(* X01_STATUS -- aggregation and publication of the agent status.          *)
(*                                                                         *)
(* Growth of the specification beyond the 20 listed properties (DESIGN §5).*)
(* Code: proxy_agent/src/shared_state/agent_status_wrapper.rs (the actor   *)
(* AgentStatusSharedState: one mpsc channel, one message handled at a      *)
(* time), proxy_agent/src/proxy_agent_status.rs (ProxyAgentStatusTask:     *)
(* start / loop_status), proxy_agent_shared/src/misc_helpers.rs            *)
(* (json_write_to_file: create status.tmp, write, rename to status.json),  *)
(* proxy_agent_extension/src/service_main.rs (reader of status.json and    *)
(* get_top_proxy_connection_summary).                                      *)
(*                                                                         *)
(* Shape: ONE ACTION PER ACTOR MESSAGE / FILE-SYSTEM CALL / LOOP STEP.     *)
(*  - the actor's locals: mstate, mmsg (per module), conn / fail (the two  *)
(*    summary bags: key -> count, key = ProxySummary::to_key_string),      *)
(*    http / tcp (connection counters);                                    *)
(*  - environment = the other tasks of the agent (key keeper, redirector,  *)
(*    proxy server, telemetry): SetState, SetMessage, AddConnection,       *)
(*    AddFailed, IncreaseConnectionCount, IncreaseTcpConnectionCount;      *)
(*  - the status task: StartSetState, StartSetMessage, then per iteration  *)
(*    the 13 reads in the order the code performs them (struct-literal     *)
(*    field order): GetState/GetMessage(KeyKeeper), GetKeyKeeperStates     *)
(*    (the six KeyKeeperSharedState reads, another actor, abstracted),     *)
(*    GetState/GetMessage(Redirector), GetState/GetMessage(ProxyServer)    *)
(*    [overall status computed here], GetMonitorMessage,                   *)
(*    GetState/GetMessage(TelemetryLogger), GetConnectionCount,            *)
(*    GetAllConnectionSummary, GetAllFailedSummary; StatusEvent (15 min),  *)
(*    CreateTmp, WriteTmp, RenameTmp, SetMonitorMessage, ClearCheck (24 h),*)
(*    Wake (end of tokio::time::sleep(interval));                          *)
(*  - Tick: the monotonic clock (std::time::Instant -- NOT tokio's clock); *)
(*    the two deadlines are kept as saturating "elapsed" counters;         *)
(*  - Crash: the process dies; only the two files survive.                 *)
(*                                                                         *)
(* PROPERTIES (new; derived from the evident intent of the code, not from  *)
(* properties.jsonl; stated conservatively):                               *)
(*  P1 FileNeverHalfWritten   status.json, once it exists, always exists   *)
(*       and always holds one complete document (tmp + rename); the        *)
(*       partial content only ever lives in status.tmp.  Also over Crash.  *)
(*  P2 OverallStatusFunction  the published overall status is SUCCESS iff  *)
(*       the *published* states of KeyKeeper, Redirector and ProxyServer   *)
(*       are all RUNNING, else ERROR (never UNKNOWN); TelemetryLogger /    *)
(*       TelemetryReader / the monitor itself do not take part.            *)
(*  P3 FieldwiseSnapshot      every component of a published document      *)
(*       (each module state, each module message, the monitor message, the *)
(*       connection count, EACH BAG AS A WHOLE) is the value that          *)
(*       component had at one instant of the iteration that produced the   *)
(*       document (between its Wake and its rename).                       *)
(*  P4 QuiescentSnapshot      if nothing was written during that iteration *)
(*       the document is exactly the aggregate of the actor's state.       *)
(*     (StrongSnapshot -- the whole document is the aggregate of ONE       *)
(*      instant -- is NOT a property of this design: the document is       *)
(*      assembled from 13 separate actor messages.  Kept as a stated       *)
(*      non-property; mc/Status_torn.cfg exhibits the torn SUCCESS.)       *)
(*  P5 CountsAreAdds / CountsMonotoneBetweenClears   a key's count in a    *)
(*       bag equals the number of adds of that key since the last clear    *)
(*       (first add inserts 1, later adds increment); it never decreases   *)
(*       except at the 24 h clear (or a restart); the clear empties BOTH   *)
(*       bags in one message; the counters http/tcp are never cleared.     *)
(*  P6 PublishedCountsMonotone  between two successive publications with   *)
(*       no clear in between no published count decreases and no key       *)
(*       disappears.                                                       *)
(*     (NoAddLostAtClear -- every add shows up in some publication before  *)
(*      it is cleared -- is NOT a property of this design: the clear is a  *)
(*      separate message after the publication; mc/Status_lost.cfg.)       *)
(*  P7 MessageBounded         a published module message is the message    *)
(*       set, or, when that is longer than MaxMsg (1024) bytes, its        *)
(*       longest prefix of at most MaxMsg bytes that ends on a character   *)
(*       boundary, marked with "...".  (The monitor message is the task's  *)
(*       own and is not cut.)                                              *)
(*  P8 EventCarriesPublishedStatus / event cadence   the 15-minute event   *)
(*       carries the proxyAgentStatus of the document written in the same  *)
(*       iteration; an event is written only when >= EventAfter elapsed    *)
(*       since the previous one (or the start), a clear only when          *)
(*       >= ClearAfter elapsed since the previous one (or the start), and  *)
(*       the first iteration that finds the deadline passed does it.       *)
(*  P9 ExtensionTopN          the extension's reduction of a published bag *)
(*       keeps min(N, len) entries, every kept count >= every dropped one, *)
(*       ascending, equal counts in their original order (stable).         *)
(*       MODEL LEVEL ONLY: get_top_proxy_connection_summary is private to  *)
(*       service_main.rs and is not bound to the code by this check.       *)
(*  P10 MonitorTruthful       monitorStatus.message of a document tells    *)
(*       how the previous iteration's write went: "... is running." in the *)
(*       first document of a process, then "written" / "Error writing".    *)
(*  P11 PublishesEveryIteration  every iteration replaces status.json      *)
(*       unless the file system refuses; status.tmp does not linger.       *)
(*  P12 Returns (trace level)  set_module_state returns the state set,     *)
(*       set_module_status_message returns "changed", the counters return  *)
(*       their new value.                                                  *)
(*                                                                         *)
(* Facts met while binding (checks/x01_status.py reports them as           *)
(* observations, none breaks P1..P12):                                     *)
(*  - both deadlines use std::time::Instant: tokio's paused clock does not *)
(*    move them (the harness moves CLOCK_MONOTONIC with an LD_PRELOAD shim)*)
(*  - the 15 min event goes through event_logger::write_event, which cuts  *)
(*    messages at 4096 bytes: with long module messages the event is not   *)
(*    valid JSON any more                                                  *)
(*  - real status.json documents that no single instant explains, incl.    *)
(*    SUCCESS while the gates were never RUNNING together (StrongSnapshot) *)
(*  - adds that reach the actor between GetAllConnectionSummary and        *)
(*    ClearAllSummary appear in no published count (NoAddLostAtClear)      *)
(***************************************************************************)
EXTENDS Naturals, Sequences, FiniteSets, TLC

CONSTANTS ConnKeys,        \* keys of the connection summary bag
          FailKeys,        \* keys of the failed-authorization summary bag
          Msgs,            \* messages the environment may set: records [id, len, cut]
                           \*   len = byte length; cut = byte length of the longest prefix of at most
                           \*   MaxMsg bytes ending on a character boundary (= len when len <= MaxMsg)
          MaxMsg,          \* 1024  MAX_STATUS_MESSAGE_LENGTH
          EventAfter,      \* 900    seconds (status_report_duration)
          ClearAfter,      \* 86400  seconds (map_clear_duration)
          MaxCount,        \* bound of a summary count explored by the exhaustive configurations
          MaxHttp,         \* bound of the published connection counter explored
          MaxTcp,          \* bound of the tcp connection counter explored
          Ticks,           \* BOOLEAN: the clock advances in this configuration
          EnvStateModules, \* modules whose state the environment changes in this configuration
          EnvMsgModules,   \* modules whose message the environment changes in this configuration
          IoFaults,        \* BOOLEAN: create / write / rename may fail
          MaxCrash,        \* number of crashes explored
          TrackInstants,   \* BOOLEAN: keep the ghost set of per-instant aggregates (P3, StrongSnapshot)
          TopN             \* the extension's N (constants::MAX_CONNECTION_SUMMARY_LEN)

VARIABLES mstate, mmsg, conn, fail, http, tcp,     \* the actor's locals
          pc, acc, wrOk,                            \* the status task
          sinceEvent, sinceClear,                   \* status_report_time.elapsed(), start_time.elapsed(), saturating
          file, tmp,                                \* status.json, status.tmp
          lastEv, evIter,                           \* last status event written; written in this iteration?
          addsC, addsF,                             \* ghost: adds per key since the last clear / restart
          prevWrite,                                \* ghost: how the previous iteration's write went: first | ok | err
          dirty, clearedSincePub, crashes, winAggs  \* ghosts

vars == <<mstate, mmsg, conn, fail, http, tcp, pc, acc, wrOk, sinceEvent, sinceClear, file, tmp,
          lastEv, evIter, addsC, addsF, prevWrite, dirty, clearedSincePub, crashes, winAggs>>

-----------------------------------------------------------------------------
Modules   == {"KeyKeeper", "TelemetryReader", "TelemetryLogger", "Redirector", "ProxyServer", "ProxyAgentStatus"}
Published == {"KeyKeeper", "Redirector", "ProxyServer", "TelemetryLogger"}   \* get_module_status(m) is published
Gate      == {"KeyKeeper", "Redirector", "ProxyServer"}                      \* decide the overall status
MStates   == {"UNKNOWN", "RUNNING", "STOPPED"}
Self      == "ProxyAgentStatus"

Min(a, b) == IF a < b THEN a ELSE b

\* messages of the system itself (short; never cut)
Sys(id)    == [id |-> id, len |-> 0, cut |-> 0]
UnkMsg     == Sys("unk")           \* "Status unknown."
MonRunning == Sys("mon_running")   \* "Proxy agent status is running."
MonWritten == Sys("mon_written")   \* "Aggregate status written to status file: <path>"
MonError   == Sys("mon_error")     \* "Error writing aggregate status to status file: <e>"
SysMsgs    == {UnkMsg, MonRunning, MonWritten, MonError}

\* get_module_status: what is published for a message
Trunc(m) == IF m.len > MaxMsg THEN [id |-> m.id, len |-> m.cut, dots |-> TRUE]
                              ELSE [id |-> m.id, len |-> m.len, dots |-> FALSE]
Plain(m) == [id |-> m.id, len |-> m.len, dots |-> FALSE]     \* get_module_status_message: not cut

EmptyC == [k \in ConnKeys |-> 0]
EmptyF == [k \in FailKeys |-> 0]

Overall(det) == IF \A m \in Gate : det[m].status = "RUNNING" THEN "SUCCESS" ELSE "ERROR"

None    == [v |-> "none"]
Partial == [v |-> "partial"]
Blank   == [v |-> "doc", status |-> "ERROR", mon |-> Plain(UnkMsg),
            det |-> [m \in Published |-> [status |-> "UNKNOWN", message |-> Trunc(UnkMsg)]],
            count |-> 0, conn |-> EmptyC, fail |-> EmptyF]

\* the aggregate of the actor's state at this instant (what one atomic snapshot would publish)
Agg == [v |-> "doc",
        status |-> Overall([m \in Published |-> [status |-> mstate[m]]]),
        mon |-> Plain(mmsg[Self]),
        det |-> [m \in Published |-> [status |-> mstate[m], message |-> Trunc(mmsg[m])]],
        count |-> http, conn |-> conn, fail |-> fail]

Pas(d) == [status |-> d.status, mon |-> d.mon, det |-> d.det, count |-> d.count]   \* proxyAgentStatus
NoEvent == [v |-> "none"]

\* pcs of the iteration window: from the Wake to the rename
InWindow == pc \in {"kk_s", "kk_m", "kk_x", "rd_s", "rd_m", "ps_s", "ps_m", "mon", "tl_s", "tl_m", "cnt", "conn", "fail",
                    "event", "create", "write", "rename"}

Init ==
  /\ mstate = [m \in Modules |-> "UNKNOWN"] /\ mmsg = [m \in Modules |-> UnkMsg]
  /\ conn = EmptyC /\ fail = EmptyF /\ http = 0 /\ tcp = 0
  /\ pc = "st_state" /\ acc = Blank /\ wrOk = TRUE
  /\ sinceEvent = 0 /\ sinceClear = 0
  /\ file = None /\ tmp = None
  /\ lastEv = NoEvent /\ evIter = FALSE
  /\ addsC = EmptyC /\ addsF = EmptyF /\ prevWrite = "first"
  /\ dirty = FALSE /\ clearedSincePub = FALSE /\ crashes = 0 /\ winAggs = {}

-----------------------------------------------------------------------------
\* Environment: every action is one message handled by the actor.
\* Ghost bookkeeping of a write: the window is dirtied, the new aggregate joins the instants seen.
Wrote == /\ dirty' = (dirty \/ InWindow)
         /\ winAggs' = IF TrackInstants /\ InWindow THEN winAggs \cup {Agg'} ELSE winAggs

TaskKeeps == UNCHANGED <<pc, acc, wrOk, sinceEvent, sinceClear, file, tmp, lastEv, evIter, prevWrite, clearedSincePub,
                         crashes>>

SetState(m, s) ==
  /\ mstate' = [mstate EXCEPT ![m] = s]
  /\ UNCHANGED <<mmsg, conn, fail, http, tcp, addsC, addsF>> /\ TaskKeeps /\ Wrote

\* the reply is "updated" = (the stored message differs); the caller then writes a Warn event
SetMessage(m, x) ==
  /\ mmsg' = [mmsg EXCEPT ![m] = x]
  /\ UNCHANGED <<mstate, conn, fail, http, tcp, addsC, addsF>> /\ TaskKeeps /\ Wrote

\* hash_map::Entry::Vacant => insert(summary.into()) with count 1, else count += 1
AddConnection(k) ==
  /\ conn[k] < MaxCount
  /\ conn' = [conn EXCEPT ![k] = IF @ = 0 THEN 1 ELSE @ + 1]
  /\ addsC' = [addsC EXCEPT ![k] = @ + 1]
  /\ UNCHANGED <<mstate, mmsg, fail, http, tcp, addsF>> /\ TaskKeeps /\ Wrote

AddFailed(k) ==
  /\ fail[k] < MaxCount
  /\ fail' = [fail EXCEPT ![k] = IF @ = 0 THEN 1 ELSE @ + 1]
  /\ addsF' = [addsF EXCEPT ![k] = @ + 1]
  /\ UNCHANGED <<mstate, mmsg, conn, http, tcp, addsC>> /\ TaskKeeps /\ Wrote

IncreaseConnectionCount ==
  /\ http < MaxHttp /\ http' = http + 1
  /\ UNCHANGED <<mstate, mmsg, conn, fail, tcp, addsC, addsF>> /\ TaskKeeps /\ Wrote

IncreaseTcpConnectionCount ==      \* never published: ids of connections only
  /\ tcp < MaxTcp /\ tcp' = tcp + 1
  /\ UNCHANGED <<mstate, mmsg, conn, fail, http, addsC, addsF>> /\ TaskKeeps
  /\ UNCHANGED <<dirty, winAggs>>

EnvSetState   == \E m \in EnvStateModules, s \in MStates : s # mstate[m] /\ SetState(m, s)
EnvSetMessage == \E m \in EnvMsgModules, x \in Msgs : x # mmsg[m] /\ SetMessage(m, x)
EnvSameMessage == \E m \in EnvMsgModules : SetMessage(m, mmsg[m])      \* reply "not updated": nothing changes
EnvAddConnection == \E k \in ConnKeys : AddConnection(k)
EnvAddFailed  == \E k \in FailKeys : AddFailed(k)
Env == EnvSetState \/ EnvSetMessage \/ EnvAddConnection \/ EnvAddFailed
       \/ IncreaseConnectionCount \/ IncreaseTcpConnectionCount

\* the monotonic clock; n seconds pass
Advance(n) ==
  /\ sinceEvent' = Min(sinceEvent + n, EventAfter) /\ sinceClear' = Min(sinceClear + n, ClearAfter)
  /\ UNCHANGED <<mstate, mmsg, conn, fail, http, tcp, pc, acc, wrOk, file, tmp, lastEv, evIter, addsC, addsF,
                 prevWrite, dirty, clearedSincePub, crashes, winAggs>>
Tick == Ticks /\ Advance(1)

-----------------------------------------------------------------------------
\* The status task.
ActorKeeps == UNCHANGED <<mstate, mmsg, conn, fail, http, tcp, addsC, addsF>>
Step(from, to) == pc = from /\ pc' = to
Quiet == UNCHANGED <<wrOk, sinceEvent, sinceClear, file, tmp, lastEv, evIter, prevWrite, dirty, clearedSincePub, crashes,
                     winAggs>>

StartSetState ==
  /\ Step("st_state", "st_msg")
  /\ mstate' = [mstate EXCEPT ![Self] = "RUNNING"]
  /\ UNCHANGED <<mmsg, conn, fail, http, tcp, addsC, addsF, acc>> /\ Quiet

\* ... then loop_status takes its two Instants and enters the first iteration
StartSetMessage ==
  /\ Step("st_msg", "kk_s")
  /\ mmsg' = [mmsg EXCEPT ![Self] = MonRunning]
  /\ sinceEvent' = 0 /\ sinceClear' = 0
  /\ dirty' = FALSE
  /\ UNCHANGED <<mstate, conn, fail, http, tcp, addsC, addsF, acc, wrOk, file, tmp, lastEv, evIter, prevWrite,
                 clearedSincePub, crashes>>
  /\ winAggs' = IF TrackInstants THEN {Agg'} ELSE {}

GetState(m, from, to) ==
  /\ Step(from, to)
  /\ acc' = [acc EXCEPT !.det[m].status = mstate[m]]
  /\ ActorKeeps /\ Quiet

GetMessage(m, from, to) ==
  /\ Step(from, to)
  /\ LET d == [acc.det EXCEPT ![m].message = Trunc(mmsg[m])]
     IN  acc' = [acc EXCEPT !.det = d,
                            \* proxy_agent_status_new computes the overall status once the three gates are read
                            !.status = IF m = "ProxyServer" THEN Overall(d) ELSE @]
  /\ ActorKeeps /\ Quiet

GetKeyKeeperStates ==            \* six reads of KeyKeeperSharedState (another actor): states map, not modelled
  /\ Step("kk_x", "rd_s") /\ UNCHANGED acc /\ ActorKeeps /\ Quiet

GetMonitorMessage ==
  /\ Step("mon", "tl_s")
  /\ acc' = [acc EXCEPT !.mon = Plain(mmsg[Self])]
  /\ ActorKeeps /\ Quiet

GetConnectionCount ==
  /\ Step("cnt", "conn") /\ acc' = [acc EXCEPT !.count = http] /\ ActorKeeps /\ Quiet

GetAllConnectionSummary ==
  /\ Step("conn", "fail") /\ acc' = [acc EXCEPT !.conn = conn] /\ ActorKeeps /\ Quiet

GetAllFailedSummary ==
  /\ Step("fail", "event") /\ acc' = [acc EXCEPT !.fail = fail] /\ ActorKeeps /\ Quiet

StatusEvent ==
  /\ Step("event", "create")
  /\ IF sinceEvent >= EventAfter
       THEN lastEv' = Pas(acc) /\ evIter' = TRUE /\ sinceEvent' = 0
       ELSE UNCHANGED <<lastEv, evIter, sinceEvent>>
  /\ UNCHANGED <<acc, wrOk, sinceClear, file, tmp, prevWrite, dirty, clearedSincePub, crashes, winAggs>> /\ ActorKeeps

\* json_write_to_file: File::create(status.tmp); to_writer_pretty; rename
CreateTmp ==
  /\ pc = "create"
  /\ \/ tmp' = Partial /\ pc' = "write" /\ UNCHANGED wrOk
     \/ IoFaults /\ UNCHANGED tmp /\ wrOk' = FALSE /\ pc' = "setmsg"
  /\ UNCHANGED <<acc, sinceEvent, sinceClear, file, lastEv, evIter, prevWrite, dirty, clearedSincePub, crashes, winAggs>>
  /\ ActorKeeps

WriteTmp ==
  /\ pc = "write"
  /\ \/ tmp' = acc /\ pc' = "rename" /\ UNCHANGED wrOk
     \/ IoFaults /\ UNCHANGED tmp /\ wrOk' = FALSE /\ pc' = "setmsg"
  /\ UNCHANGED <<acc, sinceEvent, sinceClear, file, lastEv, evIter, prevWrite, dirty, clearedSincePub, crashes, winAggs>>
  /\ ActorKeeps

RenameTmp ==
  /\ pc = "rename" /\ pc' = "setmsg"
  /\ \/ file' = tmp /\ tmp' = None /\ wrOk' = TRUE /\ clearedSincePub' = FALSE
     \/ IoFaults /\ UNCHANGED <<file, tmp, clearedSincePub>> /\ wrOk' = FALSE
  /\ UNCHANGED <<acc, sinceEvent, sinceClear, lastEv, evIter, prevWrite, dirty, crashes, winAggs>>
  /\ ActorKeeps

SetMonitorMessage ==
  /\ Step("setmsg", "clear")
  /\ mmsg' = [mmsg EXCEPT ![Self] = IF wrOk THEN MonWritten ELSE MonError]
  /\ acc' = Blank /\ wrOk' = TRUE /\ prevWrite' = IF wrOk THEN "ok" ELSE "err"
  /\ UNCHANGED <<mstate, conn, fail, http, tcp, addsC, addsF, sinceEvent, sinceClear, file, tmp, lastEv, evIter,
                 dirty, clearedSincePub, crashes, winAggs>>

\* ClearAllSummary: both bags in one message
ClearCheck ==
  /\ Step("clear", "sleep")
  /\ IF sinceClear >= ClearAfter
       THEN /\ conn' = EmptyC /\ fail' = EmptyF /\ addsC' = EmptyC /\ addsF' = EmptyF
            /\ sinceClear' = 0 /\ clearedSincePub' = TRUE
       ELSE UNCHANGED <<conn, fail, addsC, addsF, sinceClear, clearedSincePub>>
  /\ evIter' = FALSE /\ lastEv' = NoEvent          \* (ghosts of this iteration's event)
  /\ UNCHANGED <<mstate, mmsg, http, tcp, acc, wrOk, sinceEvent, file, tmp, prevWrite, dirty, crashes, winAggs>>

Wake ==
  /\ Step("sleep", "kk_s")
  /\ dirty' = FALSE
  /\ winAggs' = IF TrackInstants THEN {Agg} ELSE {}
  /\ UNCHANGED <<acc, wrOk, sinceEvent, sinceClear, file, tmp, lastEv, evIter, prevWrite, clearedSincePub, crashes>>
  /\ ActorKeeps

Task ==
  \/ StartSetState \/ StartSetMessage
  \/ GetState("KeyKeeper", "kk_s", "kk_m") \/ GetMessage("KeyKeeper", "kk_m", "kk_x") \/ GetKeyKeeperStates
  \/ GetState("Redirector", "rd_s", "rd_m") \/ GetMessage("Redirector", "rd_m", "ps_s")
  \/ GetState("ProxyServer", "ps_s", "ps_m") \/ GetMessage("ProxyServer", "ps_m", "mon")
  \/ GetMonitorMessage
  \/ GetState("TelemetryLogger", "tl_s", "tl_m") \/ GetMessage("TelemetryLogger", "tl_m", "cnt")
  \/ GetConnectionCount \/ GetAllConnectionSummary \/ GetAllFailedSummary
  \/ StatusEvent \/ CreateTmp \/ WriteTmp \/ RenameTmp \/ SetMonitorMessage \/ ClearCheck \/ Wake

\* the process dies and is started again: actor and task are new, the files stay
Crash ==
  /\ crashes < MaxCrash /\ crashes' = crashes + 1
  /\ mstate' = [m \in Modules |-> "UNKNOWN"] /\ mmsg' = [m \in Modules |-> UnkMsg]
  /\ conn' = EmptyC /\ fail' = EmptyF /\ http' = 0 /\ tcp' = 0 /\ addsC' = EmptyC /\ addsF' = EmptyF
  /\ pc' = "st_state" /\ acc' = Blank /\ wrOk' = TRUE /\ sinceEvent' = 0 /\ sinceClear' = 0
  /\ lastEv' = NoEvent /\ evIter' = FALSE /\ dirty' = FALSE /\ clearedSincePub' = TRUE /\ winAggs' = {}
  /\ prevWrite' = "first"
  /\ UNCHANGED <<file, tmp>>

Next == \/ EnvSetState \/ EnvSetMessage \/ EnvAddConnection \/ EnvAddFailed
        \/ IncreaseConnectionCount \/ IncreaseTcpConnectionCount
        \/ Tick \/ Task \/ Crash
Spec == Init /\ [][Next]_vars

-----------------------------------------------------------------------------
\* Properties.

PubMsgs == {Trunc(m) : m \in Msgs \cup SysMsgs}
DocOK(d) ==
  /\ d.v = "doc" /\ d.status \in {"SUCCESS", "ERROR"}
  /\ \A m \in Published : d.det[m].status \in MStates /\ d.det[m].message \in PubMsgs
  /\ d.count \in 0..MaxHttp
  /\ d.conn \in [ConnKeys -> 0..MaxCount] /\ d.fail \in [FailKeys -> 0..MaxCount]

TypeOK ==
  /\ mstate \in [Modules -> MStates] /\ mmsg \in [Modules -> Msgs \cup SysMsgs]
  /\ conn \in [ConnKeys -> 0..MaxCount] /\ fail \in [FailKeys -> 0..MaxCount]
  /\ http \in 0..MaxHttp /\ tcp \in 0..MaxTcp
  /\ DocOK(acc) /\ (file.v = "doc" => DocOK(file)) /\ (tmp.v = "doc" => DocOK(tmp))
  /\ sinceEvent \in 0..EventAfter /\ sinceClear \in 0..ClearAfter

\* P1
FileNeverHalfWritten == file.v \in {"none", "doc"}
FileStaysPresent == [][file.v = "doc" => file'.v = "doc"]_vars

\* P2 (on the file and on the event)
OverallStatusFunction ==
  /\ file.v = "doc" => file.status = Overall(file.det)
  /\ lastEv # NoEvent => lastEv.status = Overall(lastEv.det)

Published_ == pc = "rename" /\ pc' = "setmsg" /\ wrOk'        \* this step is a successful rename

\* P3
Component(d) == [ms |-> [m \in Published |-> d.det[m].status], mm |-> [m \in Published |-> d.det[m].message],
                 mon |-> d.mon, count |-> d.count, conn |-> d.conn, fail |-> d.fail]
FieldwiseSnapshot ==
  [][(TrackInstants /\ Published_) =>
       /\ \A m \in Published : \E a \in winAggs : a.det[m].status = file'.det[m].status
       /\ \A m \in Published : \E a \in winAggs : a.det[m].message = file'.det[m].message
       /\ \E a \in winAggs : a.mon = file'.mon
       /\ \E a \in winAggs : a.count = file'.count
       /\ \E a \in winAggs : a.conn = file'.conn
       /\ \E a \in winAggs : a.fail = file'.fail]_vars

\* P4
QuiescentSnapshot == [][(Published_ /\ ~dirty) => file' = Agg]_vars

\* stated NON-property (refuted by mc/Status_torn.cfg): the document is one instant's aggregate
StrongSnapshot == [][(TrackInstants /\ Published_) => file' \in winAggs]_vars
\* the sharpest form of the tear: SUCCESS published although the three gates were never RUNNING together
NoPhantomSuccess ==
  [][(TrackInstants /\ Published_ /\ file'.status = "SUCCESS") => \E a \in winAggs : a.status = "SUCCESS"]_vars

\* P5
CountsAreAdds == conn = addsC /\ fail = addsF
ClearStep == pc = "clear" /\ pc' = "sleep" /\ sinceClear >= ClearAfter     \* this step is a clear that fires
CountsMonotoneBetweenClears ==
  [][(\/ \E k \in ConnKeys : conn'[k] < conn[k]
      \/ \E k \in FailKeys : fail'[k] < fail[k])
     => (ClearStep \/ crashes' > crashes)]_vars
ClearEmptiesBoth ==
  [][(conn' = EmptyC /\ conn # EmptyC /\ crashes' = crashes) \/ (fail' = EmptyF /\ fail # EmptyF /\ crashes' = crashes)
     => (conn' = EmptyC /\ fail' = EmptyF /\ http' = http /\ tcp' = tcp)]_vars

\* P6
PublishedCountsMonotone ==
  [][(Published_ /\ file.v = "doc" /\ ~clearedSincePub) =>
       /\ \A k \in ConnKeys : file'.conn[k] >= file.conn[k]
       /\ \A k \in FailKeys : file'.fail[k] >= file.fail[k]]_vars

\* stated NON-property (refuted by mc/Status_lost.cfg): what is cleared has been published
NoAddLostAtClear == [][(ClearStep /\ file.v = "doc") => (conn = file.conn /\ fail = file.fail)]_vars

\* P7
MessageBounded ==
  file.v = "doc" => \A m \in Published :
     LET p == file.det[m].message IN
       /\ p.len <= MaxMsg
       /\ \E o \in Msgs \cup SysMsgs :
            /\ o.id = p.id
            /\ p.dots = (o.len > MaxMsg)
            /\ p.len = IF o.len > MaxMsg THEN o.cut ELSE o.len
MsgsWellFormed == \A o \in Msgs : IF o.len > MaxMsg THEN o.cut <= MaxMsg /\ o.cut + 4 > MaxMsg ELSE o.cut = o.len

\* P8
EventCarriesPublishedStatus == [][(Published_ /\ evIter) => Pas(file') = lastEv]_vars
EventOnlyWhenDue == [][(crashes' = crashes /\ pc # "clear" /\ (lastEv' # lastEv \/ (evIter' /\ ~evIter)))
                         => (pc = "event" /\ sinceEvent >= EventAfter)]_vars
EventWhenDue     == [][(pc = "event" /\ pc' = "create" /\ sinceEvent >= EventAfter)
                         => (evIter' /\ lastEv' = Pas(acc) /\ sinceEvent' = 0)]_vars
ClearOnlyWhenDue == [][(crashes' = crashes /\ pc # "st_msg" /\ sinceClear' < sinceClear) => ClearStep]_vars
ClearWhenDue     == [][(pc = "clear" /\ pc' = "sleep" /\ sinceClear >= ClearAfter)
                         => (conn' = EmptyC /\ fail' = EmptyF /\ sinceClear' = 0)]_vars

\* P10: the monitor message of a document tells how the PREVIOUS iteration's write went
MonitorTruthful ==
  [][Published_ => file'.mon.id = (CASE prevWrite = "first" -> "mon_running" [] prevWrite = "ok" -> "mon_written"
                                     [] OTHER -> "mon_error")]_vars
\* P11: unless the file system refuses, every iteration replaces the file with what it collected
PublishesEveryIteration == [][(pc = "rename" /\ pc' = "setmsg" /\ ~IoFaults) => (file' = acc /\ tmp' = None)]_vars

\* P9 -- the extension's reduction (service_main.rs get_top_proxy_connection_summary), model level only:
\* summary.sort_by(count) (stable), then split_off(len - max_count)
RECURSIVE InsertStable(_, _)
InsertStable(s, e) ==           \* s ascending; e goes after every element with count <= e.count
  IF s = <<>> THEN <<e>>
  ELSE IF s[Len(s)].count <= e.count THEN Append(s, e)
  ELSE Append(InsertStable(SubSeq(s, 1, Len(s) - 1), e), s[Len(s)])
RECURSIVE SortStable(_)
SortStable(s) == IF s = <<>> THEN <<>> ELSE InsertStable(SortStable(SubSeq(s, 1, Len(s) - 1)), s[Len(s)])
TopOf(s, n) == LET t == SortStable(s) IN IF Len(t) > n THEN SubSeq(t, Len(t) - n + 1, Len(t)) ELSE t

Perms(S) == {f \in [1..Cardinality(S) -> S] : \A i, j \in 1..Cardinality(S) : i # j => f[i] # f[j]}
Pos(s, e) == CHOOSE i \in 1..Len(s) : s[i] = e
TopNOK(s, n) ==
  LET r == TopOf(s, n)
      kept == {r[i] : i \in 1..Len(r)}
      all == {s[i] : i \in 1..Len(s)}
  IN /\ Len(r) = Min(n, Len(s)) /\ kept \subseteq all /\ Cardinality(kept) = Len(r)
     /\ \A x \in kept, y \in all \ kept : x.count >= y.count
     /\ \A i, j \in 1..Len(r) : i < j => /\ r[i].count <= r[j].count
                                         /\ (r[i].count = r[j].count => Pos(s, r[i]) < Pos(s, r[j]))
Entries(bag) == {[key |-> k, count |-> bag[k]] : k \in {x \in DOMAIN bag : bag[x] > 0}}
ExtensionTopN ==
  file.v = "doc" => /\ \A s \in Perms(Entries(file.conn)) : TopNOK(s, TopN)
                    /\ \A s \in Perms(Entries(file.fail)) : TopNOK(s, TopN)

-----------------------------------------------------------------------------
\* Instances for the exhaustive configurations (referenced from mc/Status*.cfg with "<-").
McNoMsgs  == {}
McMsgs    == {[id |-> "a", len |-> 2, cut |-> 2],          \* short
              [id |-> "b", len |-> 4, cut |-> 4],          \* exactly MaxMsg: not cut
              [id |-> "c", len |-> 5, cut |-> 4],          \* one byte over, cut at MaxMsg
              [id |-> "d", len |-> 9, cut |-> 2]}          \* over, MaxMsg falls inside a multi-byte character
McNone    == {}
McGate    == {"KeyKeeper", "Redirector", "ProxyServer"}
McGateTl  == {"KeyKeeper", "Redirector", "TelemetryLogger"}
McTwo     == {"KeyKeeper", "Redirector"}
McMsgMods == {"KeyKeeper", "TelemetryLogger"}
McOneMod  == {"Redirector"}
McKK      == {"KeyKeeper"}
\* bound on the writes explored inside one iteration window (configurations with TrackInstants)
McFewInstants == Cardinality(winAggs) <= 3
=============================================================================
