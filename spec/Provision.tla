------------------------------ MODULE Provision ------------------------------
(***************************************************************************)
(* C16 -- truthful provisioning status under any arrival order.            *)
(*                                                                         *)
(* Implementation-shaped model of proxy_agent/src/provision.rs on top of   *)
(* the ProvisionSharedState actor (shared_state/provision_wrapper.rs).     *)
(* One action per actor message (= one H5 gate of the code):               *)
(*   update_one_state, reset_one_state, get_state, set_provision_finished, *)
(*   get_provision_finished,                                               *)
(* every composite function of provision.rs split at each await on the    *)
(* actor:                                                                  *)
(*   update_provision_state  = Upd ; [ALL_READY: SetFin(true) ; write]     *)
(*   reset_provision_state   = Reset ; SetFin(state = ALL_READY)           *)
(*   provision_timeup        = TState ; [not ALL_READY: SetFin(true);write]*)
(*   write_provision_state   = WState(get_state) ; open/trunc status.tag.  *)
(*                             tmp ; write ; rename -> status.tag          *)
(*   /provision handler      = QFin(get_provision_finished) ; QState(get_  *)
(*                             state) ; QChan(key keeper channel state)    *)
(* Tasks as in the service: redirector ("rd": redirector_ready), listener  *)
(* ("ls": ProxyServer::start -> listener_started, then it serves the       *)
(* queries), key keeper ("kk": ONE sequential task doing key_latched,      *)
(* key_latch_ready_state_reset and provision_timeup in any order), HTTP    *)
(* queries (concurrent tasks, served once the listener task is serving).   *)
(* The clock is an abstract counter; SetFin(true) stores the current clock *)
(* (misc_helpers::get_date_time_unix_nano inside the actor), a query names *)
(* any instant 0..clock, the exact current finished tick, or the future.   *)
(***************************************************************************)
EXTENDS Naturals, FiniteSets, TLC

CONSTANTS MaxClock,    \* the abstract clock runs 1..MaxClock
          MaxKK,       \* operations performed by the key keeper task
          MaxRd,       \* redirector_ready reports
          NQ,          \* queries
          MaxLatch,    \* changes of the secure channel state
          MaxPolls,    \* polls of one waiting query (the client loop of `--status --wait`, provision_query::ProvisionQuery)
          FileSteps,   \* TRUE: the three file system calls of write_provision_state are separate steps
          QKinds,      \* subset of {"zero", "past", "exact", "future"}: instants a query may name
          KKOps,       \* subset of {"U", "R", "T"}: what the key keeper may do
          Fix          \* {} = the code as it is.  Proposed repairs, to check them on the design:
                       \*  "stale": set_provision_finished(true) of update_provision_state only takes effect (and the
                       \*           status files are only written) if the flags are still ALL_READY inside the actor
                       \*  "zero" : a finished tick of 0 (not finished) never satisfies a query
                       \*  "tmp"  : every writer of status.tag uses its own temp file
                       \*  "v-refused-finishes" is not a repair but a design *variant* that TLC must reject
                       \*           (mc/Provision_variant_l.cfg): a poll that got no answer makes the waiting client
                       \*           return 'finished'
                       \* (the repository now contains all three: the mc/ and gen/ProvisionGen.cfg configurations use
                       \*  Fix = {"stale", "zero", "tmp"}; the gen/ProvisionGen_cex*.cfg keep Fix = {} and serve as
                       \*  regression schedules: the interleavings that broke the statement before the repairs)

VARIABLES flags, fin, clock, latch,      \* actor state, clock, key keeper secure channel latched?
          wpc, wloc, kkLeft, rdLeft, latchLeft,
          qs,                            \* query tasks
          tmpF, tagF, fd,                \* status.tag.tmp, status.tag, open descriptors of the writers
          reported, everAllReady, timeupFired,   \* ghosts of DESIGN
          allReadyAt, timeupAt, owed, written,   \* ghosts of the oracle
          last                           \* label of the last step (hidden by the VIEW)

All     == {"R", "K", "L"}
Writers == {"rd", "ls", "kk"}
Future  == MaxClock + 1
SubOf(w) == CASE w = "rd" -> "R" [] w = "ls" -> "L" [] w = "kk" -> "K"

NoFile     == [k |-> "absent", n |-> {}]
Clean(s)   == [k |-> "file", n |-> s]          \* a file holding the complete message naming the subsystems s
Garbage    == [k |-> "garbage", n |-> {}]      \* bytes of two different messages

vars  == <<flags, fin, clock, latch, wpc, wloc, kkLeft, rdLeft, latchLeft, qs, tmpF, tagF, fd,
           reported, everAllReady, timeupFired, allReadyAt, timeupAt, owed, written, last>>
\* everything but the step label
view  == <<flags, fin, clock, latch, wpc, wloc, kkLeft, rdLeft, latchLeft, qs, tmpF, tagF, fd,
           reported, everAllReady, timeupFired, allReadyAt, timeupAt, owed, written>>

QIdle == [pc |-> "idle", q |-> 0, tick |-> 0, fl |-> {}, rep |-> {}, names |-> {}, lat |-> FALSE,
          finished |-> FALSE, owed0 |-> 0, ev |-> 0, tu |-> 0, inR0 |-> FALSE, polls |-> 0, ans |-> TRUE]
LocIdle == [op |-> "-", farg |-> FALSE, msg |-> {}]

Init == /\ flags = {} /\ fin = 0 /\ clock = 1 /\ latch = FALSE
        /\ wpc = [w \in Writers |-> "idle"] /\ wloc = [w \in Writers |-> LocIdle]
        /\ kkLeft = MaxKK /\ rdLeft = MaxRd /\ latchLeft = MaxLatch
        /\ qs = [i \in 1..NQ |-> QIdle]
        /\ tmpF = [w \in Writers |-> NoFile] /\ tagF = NoFile /\ fd = [w \in Writers |-> "none"]
        /\ reported = {} /\ everAllReady = FALSE /\ timeupFired = FALSE
        /\ allReadyAt = 0 /\ timeupAt = 0 /\ owed = 0 /\ written = {}
        /\ last = [t |-> "-", i |-> 0, a |-> "init", x |-> "-"]

-----------------------------------------------------------------------------
\* ghosts that follow the flags and the clock
Ghost(f2, c2) == /\ allReadyAt' = IF f2 = All THEN c2 ELSE allReadyAt
                 /\ everAllReady' = (everAllReady \/ f2 = All)

KKInReset == wpc["kk"] = "setfin" /\ wloc["kk"].op = "R"
\* where a composite returns to: the listener task goes on to serve queries, the others may start again
Rest(w) == IF w = "ls" THEN "serving" ELSE "idle"

UNCH_FILES == UNCHANGED <<tmpF, tagF, fd, written>>
UNCH_ENV   == UNCHANGED <<clock, latch, latchLeft>>

Tick == /\ clock < MaxClock
        /\ clock' = clock + 1
        /\ Ghost(flags, clock + 1)
        /\ last' = [t |-> "env", i |-> 0, a |-> "tick", x |-> "-"]
        /\ UNCHANGED <<flags, fin, latch, wpc, wloc, kkLeft, rdLeft, latchLeft, qs, tmpF, tagF, fd,
                       reported, timeupFired, timeupAt, owed, written>>

\* KeyKeeperSharedState::update_current_secure_channel_state (one message to the key keeper actor)
SetLatch == /\ latchLeft > 0
            /\ latch' = ~latch /\ latchLeft' = latchLeft - 1
            /\ last' = [t |-> "env", i |-> 0, a |-> "latch", x |-> IF latch THEN "off" ELSE "on"]
            /\ UNCHANGED <<flags, fin, clock, wpc, wloc, kkLeft, rdLeft, qs, tmpF, tagF, fd,
                           reported, everAllReady, timeupFired, allReadyAt, timeupAt, owed, written>>

\* may task w begin a composite of kind op ?
CanStart(w, op) ==
  /\ wpc[w] = "idle"
  /\ CASE w = "rd" -> op = "U" /\ rdLeft > 0
       [] w = "ls" -> op = "U"
       [] w = "kk" -> op \in KKOps /\ kkLeft > 0
Spend(w) == /\ kkLeft' = IF w = "kk" THEN kkLeft - 1 ELSE kkLeft
            /\ rdLeft' = IF w = "rd" THEN rdLeft - 1 ELSE rdLeft

\* update_provision_state: provision_shared_state.update_one_state(state)  [actor: provision_state |= state]
Upd(w) ==
  /\ CanStart(w, "U") /\ Spend(w)
  /\ LET f2 == flags \cup {SubOf(w)} IN
       /\ flags' = f2 /\ reported' = reported \cup {SubOf(w)}
       /\ Ghost(f2, clock)
       /\ wpc' = [wpc EXCEPT ![w] = IF f2 = All THEN "setfin" ELSE Rest(w)]
       /\ wloc' = [wloc EXCEPT ![w] = IF f2 = All THEN [op |-> "U", farg |-> TRUE, msg |-> {}] ELSE LocIdle]
  /\ last' = [t |-> w, i |-> 0, a |-> "upd", x |-> SubOf(w)]
  /\ UNCH_FILES /\ UNCH_ENV
  /\ UNCHANGED <<fin, qs, timeupFired, timeupAt, owed>>

\* reset_provision_state: reset_one_state(KEY_LATCH_READY)  [actor: provision_state &= !state]
Reset(w) ==
  /\ w = "kk" /\ CanStart(w, "R") /\ Spend(w)
  /\ LET f2 == flags \ {"K"} IN
       /\ flags' = f2 /\ reported' = reported \ {"K"}
       /\ Ghost(f2, clock)
       /\ wpc' = [wpc EXCEPT ![w] = "setfin"]
       /\ wloc' = [wloc EXCEPT ![w] = [op |-> "R", farg |-> (f2 = All), msg |-> {}]]
  /\ owed' = 0
  /\ last' = [t |-> w, i |-> 0, a |-> "reset", x |-> "K"]
  /\ UNCH_FILES /\ UNCH_ENV
  /\ UNCHANGED <<fin, qs, timeupFired, timeupAt>>

\* provision_timeup: get_state(); nothing to do when ALL_READY
TState(w) ==
  /\ w = "kk" /\ CanStart(w, "T") /\ Spend(w)
  /\ timeupFired' = TRUE
  /\ wpc' = [wpc EXCEPT ![w] = IF flags # All THEN "setfin" ELSE Rest(w)]
  /\ wloc' = [wloc EXCEPT ![w] = IF flags # All THEN [op |-> "T", farg |-> TRUE, msg |-> {}] ELSE LocIdle]
  /\ last' = [t |-> w, i |-> 0, a |-> "tstate", x |-> "-"]
  /\ UNCH_FILES /\ UNCH_ENV
  /\ UNCHANGED <<flags, fin, qs, reported, everAllReady, allReadyAt, timeupAt, owed>>

\* set_provision_finished(farg)  [actor: tick := now or 0]
SetFin(w) ==
  /\ wpc[w] = "setfin"
  /\ LET applies == ~("stale" \in Fix) \/ wloc[w].op # "U" \/ flags = All IN
       /\ fin' = IF ~applies THEN fin ELSE IF wloc[w].farg THEN clock ELSE 0
       /\ timeupAt' = IF wloc[w].op = "T" THEN clock ELSE timeupAt
       /\ owed' = IF wloc[w].op = "R" THEN 0
                  ELSE IF applies /\ wloc[w].farg /\ ~KKInReset THEN clock ELSE owed
       /\ wpc' = [wpc EXCEPT ![w] = IF wloc[w].op = "R" \/ ~applies THEN Rest(w) ELSE "wstate"]
       /\ wloc' = [wloc EXCEPT ![w] = IF wloc[w].op = "R" \/ ~applies THEN LocIdle ELSE wloc[w]]
       \* a completed key latch reset supersedes the earlier "all three ready"
       /\ allReadyAt' = IF wloc[w].op = "R" /\ flags # All THEN 0 ELSE allReadyAt
  /\ last' = [t |-> w, i |-> 0, a |-> "setfin", x |-> wloc[w].op]
  /\ UNCH_FILES /\ UNCH_ENV
  /\ UNCHANGED <<flags, kkLeft, rdLeft, qs, reported, everAllReady, timeupFired>>

-----------------------------------------------------------------------------
\* the file system: one inode per name; descriptors follow their inode through renames
Over(old, msg) ==      \* write(2) of msg at offset 0 into a file holding old
  IF msg = {} THEN old                         \* zero bytes: no system call at all
  ELSE IF old.k = "file" /\ old.n \subseteq msg THEN Clean(msg)   \* old is empty, equal or shorter
  ELSE Garbage
\* tmpF maps a temp-file slot to its file: one shared slot (status.tag.tmp), or one per writer with the "tmp" repair
Slot(w) == IF "tmp" \in Fix THEN w ELSE "rd"
DoOpen(w, t0, g0, d0) ==  \* open(temp, O_CREAT|O_TRUNC): <<tmp, tag, fd>>
  <<[t0 EXCEPT ![Slot(w)] = Clean({})], g0, [d0 EXCEPT ![w] = "tmp"]>>
DoWrite(w, m, t0, g0, d0) ==
  CASE d0[w] = "tmp" -> <<[t0 EXCEPT ![Slot(w)] = Over(t0[Slot(w)], m)], g0, d0>>
    [] d0[w] = "tag" -> <<t0, Over(g0, m), d0>>
    [] OTHER         -> <<t0, g0, d0>>
DoRename(w, t0, g0, d0) ==
  IF t0[Slot(w)].k = "absent" THEN <<t0, g0, [d0 EXCEPT ![w] = "none"]>>     \* ENOENT, logged
  ELSE <<[t0 EXCEPT ![Slot(w)] = NoFile], t0[Slot(w)],
         [x \in Writers |-> IF x = w THEN "none"
                            ELSE IF d0[x] = "tmp" /\ Slot(x) = Slot(w) THEN "tag"
                            ELSE IF d0[x] = "tag" THEN "orphan" ELSE d0[x]]>>

\* write_provision_state: get_state() inside get_provision_failed_state_message; message = subsystems not ready.
\* With FileSteps = FALSE the three system calls follow without an await (one step, as on one thread).
WState(w) ==
  /\ wpc[w] = "wstate"
  /\ LET m == All \ flags IN
       /\ IF FileSteps
          THEN /\ wpc' = [wpc EXCEPT ![w] = "wopen"]
               /\ wloc' = [wloc EXCEPT ![w].msg = m]
               /\ UNCH_FILES
          ELSE LET a == DoOpen(w, tmpF, tagF, fd)
                   b == DoWrite(w, m, a[1], a[2], a[3])
                   c == DoRename(w, b[1], b[2], b[3])
               IN /\ tmpF' = c[1] /\ tagF' = c[2] /\ fd' = c[3]
                  /\ written' = written \cup {m}
                  /\ wpc' = [wpc EXCEPT ![w] = Rest(w)]
                  /\ wloc' = [wloc EXCEPT ![w] = LocIdle]
  /\ last' = [t |-> w, i |-> 0, a |-> "wstate", x |-> wloc[w].op]
  /\ UNCH_ENV
  /\ UNCHANGED <<flags, fin, kkLeft, rdLeft, qs, reported, everAllReady, timeupFired, allReadyAt, timeupAt, owed>>

FileStep(w, pcNow, pcNext, r, wr, lab) ==
  /\ FileSteps /\ wpc[w] = pcNow
  /\ tmpF' = r[1] /\ tagF' = r[2] /\ fd' = r[3]
  /\ written' = wr
  /\ wpc' = [wpc EXCEPT ![w] = pcNext]
  /\ wloc' = [wloc EXCEPT ![w] = IF pcNext \in {"idle", "serving"} THEN LocIdle ELSE wloc[w]]
  /\ last' = [t |-> w, i |-> 0, a |-> lab, x |-> wloc[w].op]
  /\ UNCH_ENV
  /\ UNCHANGED <<flags, fin, kkLeft, rdLeft, qs, reported, everAllReady, timeupFired, allReadyAt,
                 timeupAt, owed>>
\* a writer of the empty message has completely written it as soon as the file is truncated
WOpen(w)   == FileStep(w, "wopen", "wwrite", DoOpen(w, tmpF, tagF, fd),
                       IF wloc[w].msg = {} THEN written \cup {{}} ELSE written, "wopen")
WWrite(w)  == FileStep(w, "wwrite", "wrename", DoWrite(w, wloc[w].msg, tmpF, tagF, fd),
                       written \cup {wloc[w].msg}, "wwrite")
WRename(w) == FileStep(w, "wrename", Rest(w), DoRename(w, tmpF, tagF, fd), written, "wrename")

-----------------------------------------------------------------------------
\* GET /provision: handle_provision_state_check_request -> get_provision_state_internal
QTick(kind) == CASE kind = "zero"   -> {0}
                 [] kind = "past"   -> 1..clock
                 [] kind = "exact"  -> IF fin # 0 THEN {fin} ELSE {}
                 [] kind = "future" -> {Future}
Max(a, b) == IF a >= b THEN a ELSE b
Reported(tick, q, lat) == (tick >= q /\ (tick # 0 \/ ~("zero" \in Fix))) \/ lat
QFin(i) ==      \* get_provision_finished
  /\ qs[i].pc = "idle" /\ wpc["ls"] = "serving"
  /\ \E kind \in QKinds : \E q \in QTick(kind) :
       /\ qs' = [qs EXCEPT ![i] = [QIdle EXCEPT !.pc = "qstate", !.q = q, !.tick = fin, !.owed0 = owed,
                                                  !.ev = allReadyAt, !.inR0 = KKInReset, !.polls = 1]]
       /\ last' = [t |-> "q", i |-> i, a |-> "qfin", x |-> kind]
  /\ UNCH_FILES /\ UNCH_ENV
  /\ UNCHANGED <<flags, fin, wpc, wloc, kkLeft, rdLeft, reported, everAllReady, timeupFired, allReadyAt,
                 timeupAt, owed>>
\* The waiting client (ProvisionQuery::get_provision_status_wait): created with the instant q, it polls -- every poll
\* names q again (the notify header goes with the first poll only; the key keeper may answer it with a reset at any
\* time, which is already one of its operations) -- sleeps 100 ms after a "not finished" and gives up at its deadline.
\* What the client returns is the answer of its last poll, so the record of the poll *is* the client's result: the
\* statement's properties on done records cover the value a waiting query returns.
WPoll(i) ==     \* next poll: get_provision_finished again, same instant
  /\ qs[i].pc = "done" /\ ~qs[i].finished /\ qs[i].polls < MaxPolls /\ wpc["ls"] = "serving"
  /\ qs' = [qs EXCEPT ![i] = [QIdle EXCEPT !.pc = "qstate", !.q = qs[i].q, !.tick = fin, !.owed0 = owed,
                                             !.ev = allReadyAt, !.inR0 = KKInReset, !.polls = qs[i].polls + 1]]
  /\ last' = [t |-> "q", i |-> i, a |-> "wpoll", x |-> "-"]
  /\ UNCH_FILES /\ UNCH_ENV
  /\ UNCHANGED <<flags, fin, wpc, wloc, kkLeft, rdLeft, reported, everAllReady, timeupFired, allReadyAt,
                 timeupAt, owed>>
\* A poll that gets no answer: the listener is not reachable (service not yet listening -- boot race, AddrInUse retry,
\* restart -- connection refused) for the first polls of a waiting query, or for all of them.  The client counts it as
\* "not finished"; a query none of whose polls was answered returns "not finished".
RefusedAnswer == "v-refused-finishes" \in Fix
QRefused(i) ==  \* the first poll of a query is refused (no listener needed)
  /\ qs[i].pc = "idle"
  /\ \E kind \in QKinds : \E q \in QTick(kind) :
       /\ qs' = [qs EXCEPT ![i] = [QIdle EXCEPT !.pc = "done", !.q = q, !.polls = 1, !.ans = FALSE, !.finished = RefusedAnswer,
                                                  !.fl = flags, !.rep = reported, !.names = All \ flags]]
       /\ last' = [t |-> "q", i |-> i, a |-> "qrefused", x |-> kind]
  /\ UNCH_FILES /\ UNCH_ENV
  /\ UNCHANGED <<flags, fin, wpc, wloc, kkLeft, rdLeft, reported, everAllReady, timeupFired, allReadyAt,
                 timeupAt, owed>>
WRefused(i) ==  \* a later poll is refused: the client keeps (variant: spoils) what it has
  /\ qs[i].pc = "done" /\ ~qs[i].finished /\ qs[i].polls < MaxPolls
  /\ qs' = [qs EXCEPT ![i].polls = qs[i].polls + 1, ![i].ans = FALSE, ![i].owed0 = 0, ![i].finished = RefusedAnswer]
  /\ last' = [t |-> "q", i |-> i, a |-> "wrefused", x |-> "-"]
  /\ UNCH_FILES /\ UNCH_ENV
  /\ UNCHANGED <<flags, fin, wpc, wloc, kkLeft, rdLeft, reported, everAllReady, timeupFired, allReadyAt,
                 timeupAt, owed>>
QState(i) ==    \* get_state inside get_provision_failed_state_message
  /\ qs[i].pc = "qstate"
  /\ qs' = [qs EXCEPT ![i].pc = "qchan", ![i].fl = flags, ![i].rep = reported, ![i].names = All \ flags,
                      ![i].ev = Max(qs[i].ev, allReadyAt)]
  /\ last' = [t |-> "q", i |-> i, a |-> "qstate", x |-> "-"]
  /\ UNCH_FILES /\ UNCH_ENV
  /\ UNCHANGED <<flags, fin, wpc, wloc, kkLeft, rdLeft, reported, everAllReady, timeupFired, allReadyAt,
                 timeupAt, owed>>
QChan(i) ==     \* get_current_secure_channel_state; finished := tick >= q || latched
  /\ qs[i].pc = "qchan"
  /\ qs' = [qs EXCEPT ![i].pc = "done", ![i].lat = latch, ![i].ev = Max(qs[i].ev, allReadyAt), ![i].tu = timeupAt,
                      ![i].finished = Reported(qs[i].tick, qs[i].q, latch)]
  /\ last' = [t |-> "q", i |-> i, a |-> "qchan", x |-> "-"]
  /\ UNCH_FILES /\ UNCH_ENV
  /\ UNCHANGED <<flags, fin, wpc, wloc, kkLeft, rdLeft, reported, everAllReady, timeupFired, allReadyAt,
                 timeupAt, owed>>

Next == \/ Tick \/ SetLatch
        \/ \E w \in Writers : \/ Upd(w) \/ Reset(w) \/ TState(w) \/ SetFin(w) \/ WState(w)
                              \/ WOpen(w) \/ WWrite(w) \/ WRename(w)
        \/ \E i \in 1..NQ : QFin(i) \/ WPoll(i) \/ QRefused(i) \/ WRefused(i) \/ QState(i) \/ QChan(i)
Spec == Init /\ [][Next]_vars

-----------------------------------------------------------------------------
\* Properties.
TypeOK == /\ flags \subseteq All /\ fin \in 0..MaxClock /\ clock \in 1..MaxClock /\ latch \in BOOLEAN
          /\ \A w \in Writers : wpc[w] \in {"idle", "serving", "setfin", "wstate", "wopen", "wwrite", "wrename"}
          /\ \A i \in 1..NQ : qs[i].pc \in {"idle", "qstate", "qchan", "done"}

\* --- DESIGN: the implementation-level statements -------------------------------------------------
FinishedOnlyAfter == fin # 0 => everAllReady \/ timeupFired
Answer == \A i \in 1..NQ : qs[i].pc = "done" => (qs[i].finished <=> Reported(qs[i].tick, qs[i].q, qs[i].lat))
\* the subsystems named are exactly those not ready at the linearization point of get_state, and the flags
\* read there are what the subsystems last reported (no lost update)
ErrorTextExact == \A i \in 1..NQ : qs[i].pc \in {"qchan", "done"} /\ qs[i].ans =>
                     /\ qs[i].names = All \ qs[i].fl
                     /\ qs[i].fl = qs[i].rep
NoLostUpdate == flags = reported

\* --- the statement of C16 (the oracle), on ghosts and responses only ------------------------------
\* 'finished' only if the secure channel was latched, or -- at an instant at or after the one the query names -- the
\* deadline handler fired or all three subsystems were ready.  "All three ready" is what the subsystems last
\* reported: a key latch reset that *completed* supersedes an earlier all-ready (allReadyAt is erased), a reset still
\* in progress when the query reads the tick is concurrent with it (either order is an answer).  The evidence is what
\* existed while the query ran (ev: all-ready instants seen at its three reads, tu: deadline at its end).
QueryTruthAt(r) ==
  r.finished => \/ r.lat \/ r.inR0
                \/ r.ev # 0 /\ r.ev >= r.q
                \/ r.tu # 0 /\ r.tu >= r.q
QueryTruth == \A i \in 1..NQ : qs[i].pc = "done" => QueryTruthAt(qs[i])
\* the same for queries that name a real instant (a missing time_tick header is read as instant 0)
QueryTruthPos == \A i \in 1..NQ : qs[i].pc = "done" /\ qs[i].q # 0 => QueryTruthAt(qs[i])
\* truthful in the other direction, conservatively: a provisioning that completed (all ready, or deadline) at or
\* after the named instant, with no key latch reset begun since, is reported finished
QueryCompleteAt(q, finished, o) == (o # 0 /\ o >= q) => finished
QueryComplete == \A i \in 1..NQ : qs[i].pc = "done" => QueryCompleteAt(qs[i].q, qs[i].finished, qs[i].owed0)

\* status.tag only ever holds a message some writer completely wrote ...
TagAtomic == tagF.k # "absent" => tagF.k = "file" /\ tagF.n \in written
\* ... and is replaced by rename only, never rewritten in place
TagReplacedByRenameOnly == [][\A w \in Writers : fd[w] = "tag" /\ wpc[w] = "wwrite" /\ wpc'[w] = "wrename"
                                                 => tagF' = tagF]_vars

\* witnesses for anti-vacuity (negated in the cfg of a witness run)
SomeQueryFinishedByTick == \E i \in 1..NQ : qs[i].pc = "done" /\ qs[i].finished /\ ~qs[i].lat /\ qs[i].names = {}
NoQueryFinishedByTick == ~SomeQueryFinishedByTick
=============================================================================
