------------------------------ MODULE Telemetry ------------------------------
(***************************************************************************)
(* C18 -- telemetry is delivered at most once, well-formed, in bounded     *)
(* batches.                                                                *)
(*                                                                         *)
(* The reader's state machine in the shape of the code                     *)
(*   proxy_agent/src/telemetry/event_reader.rs                             *)
(*     process_events_and_clean : for file in files { read; send; clean }  *)
(*     send_events              : greedy batching, events popped from the  *)
(*                                END of the vector, the event that made   *)
(*                                the document reach MAX is put back (or   *)
(*                                dropped if it was alone)                 *)
(*     send_data_to_wire_server : up to MaxTries POSTs of the same         *)
(*                                document, 15 s sleep after a failure     *)
(*   proxy_agent/src/telemetry/telemetry_event.rs                          *)
(*     to_xml / get_size        : envelope + one <Event> element per event,*)
(*                                every value passed through xml_escape    *)
(* One action per loop head / branch of that code.  The properties are     *)
(* stated on ghost (history) variables only -- composed, posts, dropped,   *)
(* present, pc = "done" -- so that the trace specification                 *)
(* (trace/TelemetryTrace.tla) can evaluate the very same formulas on what  *)
(* the mock host observed.                                                 *)
(*                                                                         *)
(* Sizes are abstract units: a document of events S has size               *)
(* Envelope + sum of the events' element sizes, and is acceptable iff that *)
(* is < Max (Max = 64 Ki units scaled down in the model-checking configs,  *)
(* the real 65536 bytes in the trace config).                              *)
(***************************************************************************)
EXTENDS Naturals, Sequences, FiniteSets, TLC

CONSTANTS Max,        \* a document must be smaller than this (64 KiB, scaled)
          Envelope,   \* size of the document without any event
          MaxTries,   \* 5 in send_data_to_wire_server
          Sizes,      \* event element sizes the initial condition draws from
          Classes,    \* content classes the initial condition draws from
          MaxFiles, MaxEv, MaxTotal   \* bounds of the initial condition only

VARIABLES ev,        \* id -> [sz, cl]           (fixed by Init)
          files,     \* seq of [bad, ids]        (fixed by Init; ids in file order)
          fi,        \* index of the file the for-loop is at
          pc,        \* "file" | "outer" | "fill" | "send" | "clean" | "done"   ("stuck": trace spec only)
          evs,       \* events: Vec<Event> still to send (popped from the end)
          batch,     \* telemetry_data.events (ids)
          more,      \* add_more_events
          tries,     \* iterations of the retry loop already failed
          present,   \* ghost: files still in the directory
          composed,  \* ghost: documents built and handed to the uploader, in order: [ids, size, hazard]
          posts,     \* ghost: POSTs seen by the host, in order: [b (index into composed), ok]
          dropped    \* ghost: ids discarded as too large

vars == <<ev, files, fi, pc, evs, batch, more, tries, present, composed, posts, dropped>>

Range(s) == {s[i] : i \in DOMAIN s}

-----------------------------------------------------------------------------
\* Content, abstractly.  A content class is the set of hazardous material a text may carry; composing a
\* document passes every value through xml_escape (common/helpers.rs) and places it inside an attribute value
\* inside a CDATA section.  A CDATA terminator "]]>" needs a literal '>', so escaping '>' neutralises it.
Hazards == {"lt", "gt", "amp", "quot", "apos", "cdataend"}
HazardOf(cl) == CASE cl = "plain"    -> {}
                  [] cl = "nonascii" -> {}
                  [] cl = "markup"   -> {"lt", "gt", "amp", "quot", "apos"}
                  [] cl = "cdata"    -> {"cdataend", "gt"}
                  [] cl = "mixed"    -> Hazards
                  [] OTHER           -> Hazards       \* unknown class: assume the worst
Escaped == {"amp", "apos", "quot", "lt", "gt"}        \* xml_escape
Residual(h) == LET r == h \ Escaped IN IF "gt" \in Escaped THEN r \ {"cdataend"} ELSE r

RECURSIVE SumSz(_)
SumSz(s) == IF s = <<>> THEN 0 ELSE ev[Head(s)].sz + SumSz(Tail(s))
DocSize(s) == Envelope + SumSz(s)                     \* TelemetryData::get_size
Oversize(id) == Envelope + ev[id].sz >= Max           \* cannot be in any acceptable document

RECURSIVE SumN(_, _)
SumN(f, n) == IF n = 0 THEN 0 ELSE f[n] + SumN(f, n - 1)

-----------------------------------------------------------------------------
\* Any set of event files (readable or not), any number/size/content of events (within the config's bounds).
Init ==
  \E n \in 0..MaxTotal : \E k \in 0..MaxFiles :
  \E sh \in [1..k -> 0..MaxEv] : \E bad \in [1..k -> BOOLEAN] :
     /\ SumN(sh, k) = n
     /\ \A f \in 1..k : bad[f] => sh[f] = 0
     /\ ev \in [1..n -> [sz : Sizes, cl : Classes]]
     /\ files = [f \in 1..k |-> [bad |-> bad[f], ids |-> [i \in 1..sh[f] |-> SumN(sh, f - 1) + i]]]
     /\ fi = 1 /\ pc = "file" /\ evs = <<>> /\ batch = <<>> /\ more = FALSE /\ tries = 0
     /\ present = 1..k /\ composed = <<>> /\ posts = <<>> /\ dropped = {}

Top  == evs[Len(evs)]
Rest == SubSeq(evs, 1, Len(evs) - 1)

\* --- process_events_and_clean: for file in files ---
ReadFile == /\ pc = "file" /\ fi <= Len(files) /\ ~files[fi].bad
            /\ evs' = files[fi].ids /\ pc' = "outer"
            /\ UNCHANGED <<ev, files, fi, batch, more, tries, present, composed, posts, dropped>>
ReadFail == /\ pc = "file" /\ fi <= Len(files) /\ files[fi].bad        \* json_read_from_file failed: warning only
            /\ pc' = "clean"
            /\ UNCHANGED <<ev, files, fi, evs, batch, more, tries, present, composed, posts, dropped>>
CleanFile == /\ pc = "clean"                                            \* clean_files(file)
             /\ present' = present \ {fi} /\ fi' = fi + 1 /\ pc' = "file"
             /\ UNCHANGED <<ev, files, evs, batch, more, tries, composed, posts, dropped>>
Finish == /\ pc = "file" /\ fi > Len(files) /\ pc' = "done"
          /\ UNCHANGED <<ev, files, fi, evs, batch, more, tries, present, composed, posts, dropped>>

\* --- send_events: while !events.is_empty() ---
NewBatch == /\ pc = "outer" /\ evs # <<>>
            /\ batch' = <<>> /\ more' = TRUE /\ pc' = "fill"
            /\ UNCHANGED <<ev, files, fi, evs, tries, present, composed, posts, dropped>>
FileDone == /\ pc = "outer" /\ evs = <<>> /\ pc' = "clean"
            /\ UNCHANGED <<ev, files, fi, evs, batch, more, tries, present, composed, posts, dropped>>

\* --- inner loop: pop, add, measure ---
AddFits == /\ pc = "fill" /\ more /\ evs # <<>>
           /\ DocSize(Append(batch, Top)) < Max
           /\ batch' = Append(batch, Top) /\ evs' = Rest
           /\ UNCHANGED <<ev, files, fi, pc, more, tries, present, composed, posts, dropped>>
PutBack == /\ pc = "fill" /\ more /\ evs # <<>>                         \* flush what fitted, this one goes next
           /\ DocSize(Append(batch, Top)) >= Max /\ batch # <<>>
           /\ more' = FALSE
           /\ UNCHANGED <<ev, files, fi, pc, evs, batch, tries, present, composed, posts, dropped>>
DropOversize == /\ pc = "fill" /\ more /\ evs # <<>>                    \* alone and still too large: discarded
                /\ DocSize(Append(batch, Top)) >= Max /\ batch = <<>>
                /\ evs' = Rest /\ dropped' = dropped \cup {Top} /\ more' = FALSE
                /\ UNCHANGED <<ev, files, fi, pc, batch, tries, present, composed, posts>>
\* --- send_data_to_wire_server ---
SkipEmpty == /\ pc = "fill" /\ (~more \/ evs = <<>>) /\ batch = <<>>    \* event_count() == 0: return
             /\ pc' = "outer"
             /\ UNCHANGED <<ev, files, fi, evs, batch, more, tries, present, composed, posts, dropped>>
Compose == /\ pc = "fill" /\ (~more \/ evs = <<>>) /\ batch # <<>>
           /\ composed' = Append(composed, [ids |-> batch, size |-> DocSize(batch),
                                            hazard |-> UNION {Residual(HazardOf(ev[i].cl)) : i \in Range(batch)}])
           /\ tries' = 0 /\ pc' = "send"
           /\ UNCHANGED <<ev, files, fi, evs, batch, more, present, posts, dropped>>
UploadOk == /\ pc = "send" /\ tries < MaxTries
            /\ posts' = Append(posts, [b |-> Len(composed), ok |-> TRUE])
            /\ pc' = "outer"
            /\ UNCHANGED <<ev, files, fi, evs, batch, more, tries, present, composed, dropped>>
UploadFail == /\ pc = "send" /\ tries < MaxTries                         \* any failure; then sleep 15 s
              /\ posts' = Append(posts, [b |-> Len(composed), ok |-> FALSE])
              /\ tries' = tries + 1
              /\ UNCHANGED <<ev, files, fi, pc, evs, batch, more, present, composed, dropped>>
GiveUp == /\ pc = "send" /\ tries = MaxTries /\ pc' = "outer"            \* the batch is abandoned
          /\ UNCHANGED <<ev, files, fi, evs, batch, more, tries, present, composed, posts, dropped>>

Next == \/ ReadFile \/ ReadFail \/ CleanFile \/ Finish \/ NewBatch \/ FileDone
        \/ AddFits \/ PutBack \/ DropOversize \/ SkipEmpty \/ Compose
        \/ UploadOk \/ UploadFail \/ GiveUp

Spec == Init /\ [][Next]_vars /\ WF_vars(Next)

-----------------------------------------------------------------------------
\* Properties, from the statement of C18 (ghost variables only).

IdsOf(b) == Range(composed[b].ids)
Readable == {f \in DOMAIN files : ~files[f].bad}
ReadableIds == UNION {Range(files[f].ids) : f \in Readable}

TypeOK == /\ pc \in {"file", "outer", "fill", "send", "clean", "done"}
          /\ tries \in 0..MaxTries /\ fi \in 1..(Len(files) + 1)
          /\ present \subseteq DOMAIN files

\* each event is uploaded in at most one batch: no id in two documents (or twice in one), and a document
\* the host accepted is never posted again
AtMostOneBatch ==
  /\ \A i, j \in DOMAIN composed : i # j => IdsOf(i) \cap IdsOf(j) = {}
  /\ \A i \in DOMAIN composed : Cardinality(IdsOf(i)) = Len(composed[i].ids)
  /\ \A p, q \in DOMAIN posts : (p < q /\ posts[p].b = posts[q].b) => ~posts[p].ok
\* only composed documents are posted, each at most MaxTries times (no unbounded retry)
PostsBounded ==
  /\ \A p \in DOMAIN posts : posts[p].b \in DOMAIN composed
  /\ \A i \in DOMAIN composed : Cardinality({p \in DOMAIN posts : posts[p].b = i}) <= MaxTries
\* every document is smaller than 64 Ki units and not empty
BatchBounded == \A i \in DOMAIN composed : composed[i].size < Max /\ composed[i].ids # <<>>
\* event text occurs only as data: nothing hazardous survives composition
WellFormed == \A i \in DOMAIN composed : composed[i].hazard = {}
KnownIds == \A i \in DOMAIN composed : IdsOf(i) \subseteq DOMAIN ev
\* an event too large for any batch is never sent, and once processing is over it has been dropped ...
OversizeDropped ==
  /\ \A i \in DOMAIN composed : \A id \in IdsOf(i) \cap DOMAIN ev : ~Oversize(id)
  /\ pc = "done" => \A id \in ReadableIds : Oversize(id) => id \in dropped
  /\ \A id \in dropped : Oversize(id)
\* ... rather than blocking the rest: every other event of a readable file was put in a document
NotBlocked == pc = "done" =>
  \A id \in ReadableIds : ~Oversize(id) => \E i \in DOMAIN composed : id \in IdsOf(i)
\* the files consumed are removed (readable or not)
FilesRemoved == pc = "done" => present = {}
\* processing always terminates, whatever the failure pattern
Terminates == <>(pc = "done")

\* model-checking view: the order/number of failed posts of *finished* batches is history the properties only
\* read through "was batch b accepted", so states are identified up to that (bisimulation-preserving quotient)
Accepted == {posts[p].b : p \in {q \in DOMAIN posts : posts[q].ok}}
McView == <<ev, files, fi, pc, evs, batch, more, tries, present, composed, Accepted, dropped>>
=============================================================================
