------------------------------- MODULE RobustCut------------------------------
(***************************************************************************)
(* C13 — no input crashes a request handler or a background task.           *)
(*                                                                         *)
(* (a) Cut algebra.  A message is a sequence of UTF-8 code-point widths     *)
(* (1..4 bytes).  Every place where the agent shortens a text to N bytes    *)
(* (event message 4096, connection-summary error details 4096, module       *)
(* status message 1024) must behave like Cut: never fail, and return a      *)
(* prefix of whole characters of at most N bytes.  A byte offset that falls *)
(* inside a character is where a naive slice fails; the generator           *)
(* enumerates EVERY way characters can straddle the cut (all width          *)
(* sequences whose total lies within 4 bytes of N, for a scaled N) and the  *)
(* replay pads each one to the real N.                                      *)
(*                                                                         *)
(* (b) Service.  The listener and the background tasks, driven by classes   *)
(* of hostile inputs; the required behaviour is that every class leaves     *)
(* every task alive and every request answered.                             *)
(***************************************************************************)
EXTENDS Naturals, Sequences, FiniteSets, TLC

CONSTANTS N          \* scaled cut length

Widths == {1, 2, 3, 4}
RECURSIVE Sum(_)
Sum(s) == IF s = <<>> THEN 0 ELSE Head(s) + Sum(Tail(s))

\* byte offsets at which a character starts (0 and every prefix sum)
RECURSIVE Boundaries(_, _)
Boundaries(s, off) == IF s = <<>> THEN {off} ELSE {off} \cup Boundaries(Tail(s), off + Head(s))
IsBoundary(s, k) == k \in Boundaries(s, 0)

\* the required result: the longest prefix of whole characters not longer than n bytes
RECURSIVE Cut(_, _)
Cut(s, n) == IF s = <<>> \/ Head(s) > n THEN <<>> ELSE <<Head(s)>> \o Cut(Tail(s), n - Head(s))
CutOK(s, n) == Sum(Cut(s, n)) <= n /\ (Sum(s) <= n => Cut(s, n) = s)
\* where a byte-offset slice s[..n] fails
NaiveSliceFails(s, n) == Sum(s) > n /\ ~IsBoundary(s, n)
=============================================================================
