------------------------------ MODULE KeySecret ------------------------------
(***************************************************************************)
(* C12 — the latched key value never leaves the key store.                  *)
(* Taint model of every place where a value obtained from the host's key    *)
(* endpoint can flow.  A text is tainted when it embeds the secret; a MAC    *)
(* computed under the secret and the key's guid are not.  Each action names  *)
(* the sink it writes.  The two embedding sites of the code as found are     *)
(* explicit actions (error texts that quote the key / the key response);     *)
(* Redact = TRUE models the repaired call sites.                             *)
(*                                                                         *)
(* Key replies: "ok" (well-formed, hex), "nonhex" (well-formed, key is not  *)
(* hex: MAC computation fails), "malformed" (not deserialisable, still       *)
(* carries the secret in its body).                                         *)
(***************************************************************************)
EXTENDS Naturals, FiniteSets, TLC

CONSTANTS Redact, MaxSteps,
          StageInKeyDir   \* the temp file of a key being stored lies inside the key directory (TRUE in the code)

Sinks == {"tempDir", "keyfile", "agentLog", "connLog", "event", "statusJson", "statusTag", "ruleDump", "console", "clientResponse",
          "hostRequest"}
VARIABLES dirMode,     \* "none" | "default" | "0700"   the key directory
          onDisk,      \* key file present (kind of key stored) : "none" | "ok" | "nonhex"
          mem,         \* key in the key-keeper actor: "none" | "ok" | "nonhex"
          statusMsg,   \* the key keeper's status message is tainted?
          out,         \* set of sinks that received a tainted text
          steps
vars == <<dirMode, onDisk, mem, statusMsg, out, steps>>

Init == dirMode = "none" /\ onDisk = "none" /\ mem = "none" /\ statusMsg = FALSE /\ out = {} /\ steps = 0
Step == steps < MaxSteps /\ steps' = steps + 1

MkKeyDir == /\ Step /\ dirMode = "none" /\ dirMode' = "default" /\ UNCHANGED <<onDisk, mem, statusMsg, out>>
AclKeyDir == /\ Step /\ dirMode = "default" /\ dirMode' = "0700" /\ UNCHANGED <<onDisk, mem, statusMsg, out>>

\* acquire + store + read back + attest, per kind of reply
AcquireOk == /\ Step /\ dirMode = "0700"
             /\ onDisk' = "ok" /\ mem' = "ok" /\ out' = out \cup {"keyfile"}
             /\ UNCHANGED <<dirMode, statusMsg>>
AcquireNonHex ==   \* stored, read back, then the attestation MAC cannot be computed: the error text quotes the key
             /\ Step /\ dirMode = "0700"
             /\ onDisk' = "nonhex" /\ out' = out \cup {"keyfile"}
             /\ statusMsg' = IF Redact THEN statusMsg ELSE TRUE
             /\ UNCHANGED <<dirMode, mem>>
AcquireMalformed ==   \* the reply cannot be deserialised: the error text quotes the body
             /\ Step /\ dirMode = "0700"
             /\ statusMsg' = IF Redact THEN statusMsg ELSE TRUE
             /\ UNCHANGED <<dirMode, onDisk, mem, out>>
AcquireNon200 ==      \* a status other than 200 whose body is a key document: a failure; the error names the status only
             /\ Step /\ dirMode = "0700"
             /\ statusMsg' = IF Redact THEN statusMsg ELSE TRUE
             /\ UNCHANGED <<dirMode, onDisk, mem, out>>
\* the process dies between writing the temp file of a key and renaming it: the temp file stays where it was staged
CrashDuringStore == /\ Step /\ dirMode = "0700"
                    /\ out' = out \cup {IF StageInKeyDir THEN "keyfile" ELSE "tempDir"}
                    /\ UNCHANGED <<dirMode, onDisk, mem, statusMsg>>
FetchLocal == /\ Step /\ onDisk # "none" /\ mem' = onDisk /\ UNCHANGED <<dirMode, onDisk, statusMsg, out>>
ClearKey == /\ Step /\ mem' = "none" /\ UNCHANGED <<dirMode, onDisk, statusMsg, out>>

\* where the key keeper's status message goes
PublishStatus == /\ Step /\ out' = IF statusMsg THEN out \cup {"agentLog", "event", "statusJson", "console"} ELSE out
                 /\ UNCHANGED <<dirMode, onDisk, mem, statusMsg>>
ProvisionQuery == /\ Step /\ out' = IF statusMsg THEN out \cup {"clientResponse", "statusTag"} ELSE out
                  /\ UNCHANGED <<dirMode, onDisk, mem, statusMsg>>
\* signing a proxied request: a MAC with a good key; an error text quoting the key with a non-hex one
ProxySign == /\ Step /\ mem # "none"
             /\ out' = IF mem = "nonhex" /\ ~Redact THEN out \cup {"connLog"} ELSE out
             /\ UNCHANGED <<dirMode, onDisk, mem, statusMsg>>

\* a reader or writer of the key (request handler whose client went away, task raced against cancellation) is dropped
\* while its message is queued: the key-keeper actor cannot deliver its reply and logs what it could not deliver --
\* the key's guid in the code; a text embedding the whole key record in a design that formats the value itself
UndeliveredReply == /\ Step /\ mem # "none"
                    /\ out' = IF Redact THEN out ELSE out \cup {"agentLog", "console"}
                    /\ UNCHANGED <<dirMode, onDisk, mem, statusMsg>>

Next == UndeliveredReply \/ MkKeyDir \/ AclKeyDir \/ AcquireOk \/ AcquireNonHex \/ AcquireMalformed \/ AcquireNon200 \/ CrashDuringStore \/ FetchLocal \/ ClearKey
        \/ PublishStatus \/ ProvisionQuery \/ ProxySign
Spec == Init /\ [][Next]_vars

NoLeak == out \subseteq {"keyfile"}
AclBeforeFirstKeyFile == onDisk # "none" => dirMode = "0700"
=============================================================================
