---------------------------- MODULE AttachProof ----------------------------
(***************************************************************************)
(* TLAPS proof that Attach.tla's start-up, with the two attaches in the    *)
(* order of the code as found (publish first), never has the diverting     *)
(* hook in force without the publishing hook -- for EVERY number of        *)
(* retries, not only the MaxRetries TLC runs with (mc/Attach.cfg).         *)
(* Checked by `tlapm` (checks/c06.py, thorough tier).                      *)
(***************************************************************************)
EXTENDS Attach, TLAPS

ASSUME OrderIsHead == Order = HeadOrder
ASSUME RetriesNat == MaxRetries \in Nat

IndInv == /\ pc \in {"attempt", "first", "second", "drop", "started", "failed", "closed"}
          /\ divert \in BOOLEAN /\ publish \in BOOLEAN
          /\ (pc \in {"attempt", "first"} => (~divert /\ ~publish))
          /\ (pc = "second" => (publish /\ ~divert))
          /\ (divert => publish)

LEMMA InitInd == AInit => IndInv
  BY DEF AInit, IndInv

LEMMA StepInd == IndInv /\ [ANext]_avars => IndInv'
<1> SUFFICES ASSUME IndInv, [ANext]_avars PROVE IndInv'
  OBVIOUS
<1> USE OrderIsHead DEF HeadOrder
<1>1. CASE Attempt
  BY <1>1 DEF Attempt, IndInv
<1>2. CASE \E ok \in BOOLEAN : AttachPublish(ok)
  BY <1>2 DEF AttachPublish, Turn, After, IndInv
<1>3. CASE \E ok \in BOOLEAN : AttachDivert(ok)
  BY <1>3 DEF AttachDivert, Turn, After, IndInv
<1>4. CASE DetachAll
  BY <1>4 DEF DetachAll, IndInv
<1>5. CASE Close
  BY <1>5 DEF Close, IndInv
<1>6. CASE ClientConnect
  BY <1>6 DEF ClientConnect, IndInv
<1>7. CASE UNCHANGED avars
  BY <1>7 DEF avars, IndInv
<1> QED
  BY <1>1, <1>2, <1>3, <1>4, <1>5, <1>6, <1>7 DEF ANext

THEOREM Safety == ASpec => []NeverDivertUnpublished
<1>1. IndInv => NeverDivertUnpublished
  BY DEF IndInv, NeverDivertUnpublished
<1> QED
  BY InitInd, StepInd, <1>1, PTL DEF ASpec
=============================================================================
