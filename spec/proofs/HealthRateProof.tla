-------------------------- MODULE HealthRateProof --------------------------
(***************************************************************************)
(* TLAPS proofs of HealthRate.tla's three action properties for EVERY set   *)
(* of keys and values and EVERY RateMax (TLC checks them at Key = 2 keys,   *)
(* RateMax = 120 in mc/HealthRate.cfg).  Checked by `tlapm` from            *)
(* checks/c20.py.                                                           *)
(***************************************************************************)
EXTENDS HealthRate, TLAPS

ASSUME NoneIsNoValue == "none" \notin Val
ASSUME RateNat == RateMax \in Nat

Slot == [v : Val \cup {"none"}, n : Nat]
Inv == /\ entry \in [Key -> Slot]
       /\ gSince \in [Key -> Nat]
       /\ gVal \in [Key -> Val \cup {"none"}]
       /\ \A k \in Key : gVal[k] = entry[k].v
       /\ \A k \in Key : entry[k].v # "none" => gSince[k] = entry[k].n

LEMMA InitInv == Init => Inv
  BY DEF Init, Inv, Slot

LEMMA NotifyInv == ASSUME Inv, NEW k \in Key, NEW v \in Val, Notify(k, v) PROVE Inv'
<1> USE NoneIsNoValue, RateNat DEF Inv, Slot, Notify, GhostNotify
<1>1. entry' \in [Key -> Slot]
  OBVIOUS
<1>2. gSince' \in [Key -> Nat]
  OBVIOUS
<1>3. gVal' \in [Key -> Val \cup {"none"}]
  OBVIOUS
<1>4. \A j \in Key : gVal'[j] = entry'[j].v
  OBVIOUS
<1>5. \A j \in Key : entry'[j].v # "none" => gSince'[j] = entry'[j].n
  OBVIOUS
<1> QED
  BY <1>1, <1>2, <1>3, <1>4, <1>5

LEMMA StepInv == Inv /\ [Next]_vars => Inv'
<1> SUFFICES ASSUME Inv, [Next]_vars PROVE Inv'
  OBVIOUS
<1>1. CASE Next
  BY <1>1, NotifyInv DEF Next
<1>2. CASE UNCHANGED vars
  BY <1>2 DEF vars, Inv
<1> QED
  BY <1>1, <1>2

THEOREM Invariance == Spec => []Inv
  BY InitInv, StepInv, PTL DEF Spec

\* the bodies of the three action properties follow from Inv in the state before the step
LEMMA OncePerMaxStep ==
  ASSUME Inv, NEW k \in Key, NEW v \in Val, Notify(k, v), gVal[k] = v, emitted'
  PROVE  gSince[k] >= RateMax
  BY NoneIsNoValue, RateNat DEF Inv, Slot, Notify, GhostNotify

LEMMA EmitOnChangeStep ==
  ASSUME Inv, NEW k \in Key, NEW v \in Val, Notify(k, v), gVal[k] # v
  PROVE  emitted'
  BY NoneIsNoValue DEF Inv, Slot, Notify, GhostNotify

LEMMA KeysIndependentStep ==
  ASSUME Inv, NEW k \in Key, NEW v \in Val, Notify(k, v)
  PROVE  \A j \in Key \ {k} : entry'[j] = entry[j]
  BY DEF Inv, Slot, Notify

THEOREM RateLimit == Spec => AtMostOncePerMax
<1>1. Inv /\ [Next]_vars => [\A k \in Key, v \in Val : Notify(k, v) /\ gVal[k] = v /\ emitted' => gSince[k] >= RateMax]_vars
  BY OncePerMaxStep
<1> QED
  BY <1>1, Invariance, PTL DEF Spec, AtMostOncePerMax

THEOREM Change == Spec => EmitOnChange
<1>1. Inv /\ [Next]_vars => [\A k \in Key, v \in Val : Notify(k, v) /\ gVal[k] # v => emitted']_vars
  BY EmitOnChangeStep
<1> QED
  BY <1>1, Invariance, PTL DEF Spec, EmitOnChange

THEOREM Independent == Spec => KeysIndependent
<1>1. Inv /\ [Next]_vars => [\A k \in Key, v \in Val : Notify(k, v) => \A j \in Key \ {k} : entry'[j] = entry[j]]_vars
  BY KeysIndependentStep
<1> QED
  BY <1>1, Invariance, PTL DEF Spec, KeysIndependent
=============================================================================
