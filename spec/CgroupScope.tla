----------------------------- MODULE CgroupScope -----------------------------
(***************************************************************************)
(* C06, scope of the diverting hook: "for EVERY outbound TCP connect by a   *)
(* process other than the agent to a listed address ... the connection is   *)
(* diverted to the proxy listener and a record ... states the caller".      *)
(*                                                                          *)
(* A cgroup/connect4 program sees exactly the connects of the processes of  *)
(* the cgroup it is attached to and of that cgroup's descendants.  Which    *)
(* cgroup that is, is decided in user space:                                *)
(*   Resolve   proxy_agent_shared::linux::get_cgroup2_mount_path() reads    *)
(*             the table of cgroup2 mounts of the agent's mount namespace   *)
(*             (findmnt -t cgroup2 --json, mount order) and takes ONE       *)
(*             entry (Pick); on failure the configured cgroupRoot is used   *)
(*   Attach    Redirector::attach_bpf_prog -> attach_cgroup_program(path)   *)
(*   Connect   a client process in some cgroup connects to a listed         *)
(*             address: diverted iff the hook is attached and the client's  *)
(*             cgroup lies at or below the attach target (ghost `seen`)     *)
(* A cgroup is a path below the top of the hierarchy (a sequence of names); *)
(* a mount of the cgroup2 file system shows the sub-tree below its root     *)
(* (`mount --bind` of a cgroup directory, container and sandbox tooling     *)
(* leave such mounts behind; /proc/self/mountinfo field 4 is the root).     *)
(*                                                                          *)
(* Environment assumption (EnvOK): the FIRST cgroup2 mount of the table is  *)
(* the system mount made at boot and shows everything any later mount shows *)
(* (its root is a prefix of every other root).  Under it, Pick = "first"    *)
(* (what the code does) covers every process visible through any mount;     *)
(* Pick = "last" (mc/CgroupScope_last.cfg) does not -- a later bind mount   *)
(* of a sub-tree silently narrows the hook to that sub-tree while the       *)
(* redirector reports RUNNING.                                              *)
(***************************************************************************)
EXTENDS Naturals, Sequences, SequencesExt, FiniteSets

CONSTANTS Names,      \* names of cgroup directories
          Depth,      \* depth of the hierarchy considered
          MaxMounts,  \* length of the mount table considered
          Pick        \* "first" | "last"

Cgroups == UNION {[1..n -> Names] : n \in 0..Depth}
Covers(a, b) == IsPrefix(a, b)            \* cgroup a is b or an ancestor of b
EnvOK(t) == Len(t) >= 1 /\ \A i \in 1..Len(t) : Covers(t[1], t[i])
Tables == {t \in UNION {[1..n -> Cgroups] : n \in 1..MaxMounts} : EnvOK(t)}
Visible(t) == {g \in Cgroups : \E i \in 1..Len(t) : Covers(t[i], g)}   \* cgroups some mount shows

VARIABLES mounts,     \* the cgroup2 mount table of the namespace (roots, mount order)
          target,     \* <<"none">> or <<"cg", cgroup>>: what Resolve chose
          attached,   \* the connect4 program is attached to target
          seen        \* ghost: [cg, diverted] of connects made while attached
cvars == <<mounts, target, attached, seen>>

CInit == mounts \in Tables /\ target = <<"none">> /\ attached = FALSE /\ seen = {}

Chosen(t) == IF Pick = "first" THEN t[1] ELSE t[Len(t)]
Resolve == /\ target = <<"none">>
           /\ target' = <<"cg", Chosen(mounts)>>
           /\ UNCHANGED <<mounts, attached, seen>>
AttachProg == /\ target # <<"none">> /\ ~attached
              /\ attached' = TRUE
              /\ UNCHANGED <<mounts, target, seen>>
Connect(g) == /\ attached /\ g \in Visible(mounts)
              /\ seen' = seen \cup {[cg |-> g, diverted |-> Covers(target[2], g)]}
              /\ UNCHANGED <<mounts, target, attached>>
CNext == Resolve \/ AttachProg \/ \E g \in Cgroups : Connect(g)
CSpec == CInit /\ [][CNext]_cvars

TypeOK == /\ mounts \in Tables
          /\ target = <<"none">> \/ (target[1] = "cg" /\ target[2] \in Cgroups)
          /\ attached \in BOOLEAN
(* the property: once the hook is attached no connect of a visible process goes undiverted *)
EveryVisibleConnectDiverted == \A r \in seen : r.diverted
(* the same, as a statement about the attach target alone (what a trace can show) *)
ScopeCoversMounts == attached => \A i \in 1..Len(mounts) : Covers(target[2], mounts[i])
=============================================================================
