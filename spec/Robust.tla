------------------------------- MODULE Robust -------------------------------
(***************************************************************************)
(* C13 -- see RobustCut.tla for the cut algebra (a); this module is the    *)
(* service model (b): the listener, one request handler per request, the   *)
(* shared-state actor the handlers talk to by message + one-shot reply,    *)
(* the bounded telemetry event queue every handler and task writes to, and *)
(* the background tasks.  One action per step of the code:                 *)
(*                                                                         *)
(*   Input(cl)     accept + spawn handler; the handler SENDS its first     *)
(*                 action to the status actor (increase_connection_count)  *)
(*                 and awaits the one-shot reply                           *)
(*   Abandon(r)    the client closes its connection: hyper drops the       *)
(*                 handler future -- at ANY await point, in particular     *)
(*                 while its action still sits in the actor's mailbox      *)
(*   ActorReply(r) the actor processes the action and sends the reply; the *)
(*                 requester may be gone (send fails): the code logs a     *)
(*                 warning and goes on.  A design that treats the failed   *)
(*                 send as impossible (StrictReply) kills the actor task.  *)
(*   LogEvent(r)   write_event: push into the bounded queue; when full the *)
(*                 event is dropped.  A design that makes room by popping  *)
(*                 the oldest and pushing again (EvictOldest) has two      *)
(*                 steps, between which another writer can take the slot;  *)
(*                 treating the second failure as unreachable kills the    *)
(*                 writer (a handler: its request is never answered).      *)
(*   Answer(r)     the response is written                                 *)
(*   Drain         the event logger task empties the queue (once a minute) *)
(*   TaskTick(t)   a background task makes a step (publishes status):     *)
(*                 possible only while it is alive                         *)
(*                                                                         *)
(* The constants StrictReply and EvictOldest are FALSE for the code as it  *)
(* is (mc/Robust.cfg); mc/Robust_strict.cfg and mc/Robust_evict.cfg set    *)
(* one each and TLC exhibits the dead actor / the unanswered request, i.e. *)
(* the two designs are told apart by the invariants below.                 *)
(***************************************************************************)
EXTENDS RobustCut

CONSTANTS MaxSeq,      \* number of requests
          QCap,        \* capacity of the event queue (1000 in the code)
          StrictReply, \* design switch, see above
          EvictOldest, \* design switch, see above
          Classes      \* input classes explored (handling is uniform in the class: any subset of AllClasses will do)

AllClasses == {"obsTextHeader", "repeatedHeaders", "longUrl", "utf16OddReply", "longNonAsciiErrorReply", "wrongContentType", "overstatedLength",
            "multibyteCmdline", "multibyteUserName", "clientAbandons", "requesterCancelled", "eventQueueSaturated",
            "keyKeeperNotified", "hostOutage", "silentHost", "malformedEscape", "descriptorExhaustion", "targetForms", "connectRefusedByHost", "connectAcceptedByHost", "danglingRuleNames", "plain"}

VARIABLES listener, tasks, req, evq, answered, hist
svars == <<listener, tasks, req, evq, answered, hist>>
Tasks == {"keyKeeper", "status", "eventLogger", "provision", "statusActor"}
Reqs == 1..MaxSeq
\* request phases: none -> atActor -> (abandonedAtActor -> gone) | handling -> (popped ->) logged -> done | dead
Phases == {"none", "atActor", "abandonedAtActor", "gone", "handling", "popped", "logged", "done", "dead"}

ASSUME Classes \subseteq AllClasses

SInit == /\ listener = "serving" /\ tasks = [t \in Tasks |-> "alive"]
         /\ req = [r \in Reqs |-> "none"] /\ evq \in {0, QCap} /\ answered = 0 /\ hist = <<>>

Input(cl) == /\ listener = "serving" /\ Len(hist) < MaxSeq
             /\ LET r == Len(hist) + 1 IN req' = [req EXCEPT ![r] = "atActor"]
             /\ hist' = Append(hist, cl)
             /\ UNCHANGED <<listener, tasks, evq, answered>>

Abandon(r) == /\ req[r] \in {"atActor", "handling", "logged"}
              /\ req' = [req EXCEPT ![r] = IF req[r] = "atActor" THEN "abandonedAtActor" ELSE "gone"]
              /\ UNCHANGED <<listener, tasks, evq, answered, hist>>

ActorReply(r) ==
  /\ tasks["statusActor"] = "alive"
  /\ \/ /\ req[r] = "atActor" /\ req' = [req EXCEPT ![r] = "handling"] /\ UNCHANGED tasks
     \/ /\ req[r] = "abandonedAtActor" /\ req' = [req EXCEPT ![r] = "gone"]
        /\ tasks' = IF StrictReply THEN [tasks EXCEPT !["statusActor"] = "dead"] ELSE tasks
  /\ UNCHANGED <<listener, evq, answered, hist>>

LogEvent(r) ==
  /\ \/ /\ req[r] = "handling"
        /\ IF evq < QCap THEN evq' = evq + 1 /\ req' = [req EXCEPT ![r] = "logged"]
           ELSE IF EvictOldest THEN evq' = evq - 1 /\ req' = [req EXCEPT ![r] = "popped"]     \* pop the oldest ...
           ELSE evq' = evq /\ req' = [req EXCEPT ![r] = "logged"]                            \* dropped, logged locally
     \/ /\ req[r] = "popped"                                                                 \* ... and push again
        /\ IF evq < QCap THEN evq' = evq + 1 /\ req' = [req EXCEPT ![r] = "logged"]
           ELSE evq' = evq /\ req' = [req EXCEPT ![r] = "dead"]                              \* "unreachable": the handler dies
  /\ UNCHANGED <<listener, tasks, answered, hist>>

Answer(r) == /\ req[r] = "logged" /\ req' = [req EXCEPT ![r] = "done"] /\ answered' = answered + 1
             /\ UNCHANGED <<listener, tasks, evq, hist>>

Drain == /\ tasks["eventLogger"] = "alive" /\ evq > 0 /\ evq' = 0
         /\ UNCHANGED <<listener, tasks, req, answered, hist>>

SNext == \/ \E cl \in Classes : Input(cl)
         \/ \E r \in Reqs : Abandon(r) \/ ActorReply(r) \/ LogEvent(r) \/ Answer(r)
         \/ Drain
SSpec == SInit /\ [][SNext]_svars
               /\ \A r \in Reqs : WF_svars(ActorReply(r)) /\ WF_svars(LogEvent(r)) /\ WF_svars(Answer(r))

TypeOK == req \in [Reqs -> Phases] /\ evq \in 0..QCap
Serving == listener = "serving"
TasksAlive == \A t \in Tasks : tasks[t] = "alive"
NoHandlerDies == \A r \in Reqs : req[r] # "dead"
\* every request whose client stays is answered (an abandoned one needs no answer)
EveryRequestAnswered == \A r \in Reqs : (req[r] \in {"atActor", "handling", "popped", "logged"}) ~> (req[r] \in {"done", "gone", "abandonedAtActor"})
=============================================================================
