------------------------------- MODULE Robust -------------------------------
(* C13 -- see RobustCut.tla for the cut algebra (a); this module is the service model (b). *)
EXTENDS RobustCut

CONSTANTS MaxSeq      \* length of input-class sequences

Classes == {"obsTextHeader", "repeatedHeaders", "longUrl", "utf16OddReply", "longNonAsciiErrorReply", "wrongContentType",
            "multibyteCmdline", "multibyteUserName", "plain"}

VARIABLES listener, tasks, answered, pending, hist
svars == <<listener, tasks, answered, pending, hist>>
Tasks == {"keyKeeper", "status", "eventLogger", "provision"}

SInit == listener = "serving" /\ tasks = [t \in Tasks |-> "alive"] /\ answered = 0 /\ pending = 0 /\ hist = <<>>
\* the design-level claim: handling any class is total
Input(cl) == /\ Len(hist) < MaxSeq /\ listener = "serving"
             /\ hist' = Append(hist, cl)
             /\ pending' = pending + 1 /\ UNCHANGED <<listener, tasks, answered>>
Answer == /\ pending > 0 /\ pending' = pending - 1 /\ answered' = answered + 1
          /\ UNCHANGED <<listener, tasks, hist>>
SNext == (\E cl \in Classes : Input(cl)) \/ Answer
SSpec == SInit /\ [][SNext]_svars /\ WF_svars(Answer)

Serving == listener = "serving"
TasksAlive == \A t \in Tasks : tasks[t] = "alive"
EveryRequestAnswered == (pending > 0) ~> (pending = 0)
=============================================================================
