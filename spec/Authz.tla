------------------------------- MODULE Authz -------------------------------
(***************************************************************************)
(* C03 / C11 — the per-endpoint authorizer (proxy_authorizer.rs), in the   *)
(* shape of the code: the endpoint is chosen from the recorded original    *)
(* destination; WireServer and HostGAPlugin refuse non-elevated callers    *)
(* BEFORE any rule is looked at; rules absent => Ok; RBAC allow => Ok;     *)
(* RBAC deny => OkWithAudit in audit mode, Forbidden otherwise; the        *)
(* proxy's own listener address => Forbidden; anything else => Ok.         *)
(*                                                                         *)
(* rules : "none" | "disabled" | "audit" | "enforce"   (mode of the rule   *)
(*         set in force for the endpoint, "none" = no rule set)            *)
(* rbac  : BOOLEAN — Rbac!Decision(doc, caller, url) for this request; by  *)
(*         Rbac!DisabledAllows it is TRUE whenever rules = "disabled".     *)
(***************************************************************************)
EXTENDS Naturals

Dests == {"ws", "ga", "imds", "self", "other"}
RuleModes == {"none", "disabled", "audit", "enforce"}
Results == {"Ok", "OkWithAudit", "Forbidden"}

RuleVerdict(rules, rbac) ==
  IF rules = "none" THEN "Ok"
  ELSE IF rbac THEN "Ok"
  ELSE IF rules = "audit" THEN "OkWithAudit"
  ELSE "Forbidden"

Result(dest, elevated, rules, rbac) ==
  CASE dest \in {"ws", "ga"} -> IF ~elevated THEN "Forbidden" ELSE RuleVerdict(rules, rbac)
    [] dest = "imds"         -> RuleVerdict(rules, rbac)
    [] dest = "self"         -> "Forbidden"
    [] OTHER                 -> "Ok"

\* rules are only consulted for the three metadata endpoints
RulesApply(dest) == dest \in {"ws", "ga", "imds"}

-----------------------------------------------------------------------------
\* Properties (statement level), checked over the whole domain by mc/Authz.cfg
Relayed(r) == r \in {"Ok", "OkWithAudit"}

\* C03: a non-elevated caller is never relayed to WireServer / HostGAPlugin, whatever the rules, mode, default
RootOnly == \A d \in {"ws", "ga"}, ru \in RuleModes, rb \in BOOLEAN : ~Relayed(Result(d, FALSE, ru, rb))
\* C03: the proxy's own listener address is always refused
NoSelfProxy == \A e \in BOOLEAN, ru \in RuleModes, rb \in BOOLEAN : Result("self", e, ru, rb) = "Forbidden"
\* C11: enforce + deny blocks; audit + deny forwards (and is distinguishable so that it is recorded); disabled
\* never consults the decision
EnforceBlocks == \A d \in {"ws", "ga", "imds"}, e \in BOOLEAN : Result(d, e, "enforce", FALSE) = "Forbidden"
AuditForwards == \A d \in {"ws", "ga", "imds"} : Result(d, TRUE, "audit", FALSE) = "OkWithAudit"
DisabledIgnoresRules == \A d \in Dests, e \in BOOLEAN : Result(d, e, "disabled", TRUE) = Result(d, e, "none", TRUE)
=============================================================================
