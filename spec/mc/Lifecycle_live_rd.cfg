\* X03 liveness (redirector + close + key keeper): fairness of every task and of the actor, no state constraint.
SPECIFICATION FairSpec
CONSTANTS
  RetryCount = 1
  MaxRetries = 2
  BusyChoices = {0}
  ErrAtChoices = {0}
  RdFailChoices = {0, 1, 2}
  MaxConn = 0
  StartPs = FALSE
  StartRd = TRUE
  StartKk = TRUE
  StopAllowed = TRUE
INVARIANTS TypeOK
PROPERTIES StopStopsListenerAndKeyKeeper RedirectorStartTerminates
CHECK_DEADLOCK FALSE
