\* design variant "backup by hard link (copy on EXDEV) + in-place overwrite" where every link fails: indistinguishable from the design
SPECIFICATION Spec
CONSTANTS
  SameFs = FALSE
  LinkBackup = TRUE
  ClockSteps = TRUE
  StaleCheck = FALSE
INVARIANTS
  TypeOK
  RoundTrip
  StopBeforeReplaceObs
  StartedAfter
  InstallExact
  RestoreNoBackupIsNoop
  RestoreDeletion
  UninstallPackageRemoves
  PurgeOnlyBackup
  FrameObs
  RestoreExact
  BackupExact
  RtMeansBackupHeld
  FailOnlyFromPartialBackup
  LnkSound
  BackupIsSeparate
PROPERTIES
  StopBeforeReplace
  Frame
  BackupTouchedOnlyBy
CHECK_DEADLOCK TRUE
