SPECIFICATION Spec
CONSTANTS
  MaxClock = 3
  MaxKK = 3
  MaxRd = 1
  NQ = 1
  MaxPolls = 2
  MaxLatch = 1
  FileSteps = FALSE
  QKinds = {"zero", "past", "exact", "future"}
  Fix = {"stale", "zero", "tmp"}
  KKOps = {"U", "R", "T"}
VIEW view
INVARIANTS TypeOK FinishedOnlyAfter Answer ErrorTextExact NoLostUpdate QueryTruth QueryComplete TagAtomic
CHECK_DEADLOCK FALSE
