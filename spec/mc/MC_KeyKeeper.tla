---------------------------- MODULE MC_KeyKeeper ----------------------------
EXTENDS KeyKeeper

\* the mode is part of the content a rule id stands for
MCModeOf(r) == CASE r = "r0" -> "disabled" [] r = "r1" -> "audit" [] r = "r2" -> "enforce" [] OTHER -> "audit"

\* g1 carries a higher incarnation number than g2; g3 carries none
MCIncOf(g) == CASE g = "g1" -> 2 [] g = "g2" -> 1 [] OTHER -> 0

Doc(v, c, h, w, i, g) == [ver |-> v, chan |-> c, hasRules |-> h, rules |-> [ws |-> w, imds |-> i, ga |-> g]]
It(r) == [id |-> r, mode |-> MCModeOf(r), c |-> "c1"]

\* starting documents: channel off in either protocol version, and on with some rules
DocsSmall == {Doc("1.0", "disabled", FALSE, NoItem, NoItem, NoItem),
              Doc("2.0", "enabled", TRUE, It("r1"), NoItem, NoItem)}
DocsOne == {Doc("2.0", "enabled", TRUE, It("r1"), It("r1"), NoItem)}
DocsV1 == {Doc("1.0", "wireserver", FALSE, NoItem, NoItem, NoItem)}
DocsRules == {Doc("2.0", "enabled", TRUE, NoItem, NoItem, NoItem), Doc("2.0", "enabled", TRUE, It("r1"), NoItem, NoItem)}
DocsEmptyId == {Doc("2.0", "enabled", TRUE, NoItem, NoItem, NoItem)}
=============================================================================
