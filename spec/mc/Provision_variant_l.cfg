SPECIFICATION Spec
CONSTANTS
  MaxClock = 3
  MaxKK = 3
  MaxRd = 1
  NQ = 1
  MaxPolls = 2
  MaxLatch = 1
  FileSteps = FALSE
  QKinds = {"zero", "past", "exact", "future"}
  Fix = {"stale", "zero", "tmp", "v-refused-finishes"}
  KKOps = {"U", "R", "T"}
VIEW view
INVARIANTS QueryTruth
CHECK_DEADLOCK FALSE
