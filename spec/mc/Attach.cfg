SPECIFICATION ASpec
CONSTANTS
  MaxRetries = 5
  Order <- HeadOrder
INVARIANTS TypeOK NoUnrecordedDiversion NeverDivertUnpublished
CHECK_DEADLOCK FALSE
