\* X03 WITNESS: N2_NoAcceptAfterCancel is a stated NON-property; TLC must find a counterexample.
SPECIFICATION Spec
CONSTANTS
  RetryCount = 5
  MaxRetries = 5
  BusyChoices = {1}
  ErrAtChoices = {0}
  RdFailChoices = {1}
  MaxConn = 1
  StartPs = TRUE
  StartRd = TRUE
  StartKk = FALSE
  StopAllowed = TRUE
INVARIANTS N2_NoAcceptAfterCancel
CHECK_DEADLOCK FALSE
