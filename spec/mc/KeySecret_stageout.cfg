SPECIFICATION Spec
CONSTANTS
  Redact = TRUE
  MaxSteps = 7
  StageInKeyDir = FALSE
INVARIANTS NoLeak AclBeforeFirstKeyFile
CHECK_DEADLOCK FALSE
