\* design variant "restore refuses a backup whose time stamp is not within the last 7 days" with a steady clock and commands
\* seconds apart: indistinguishable from the design
SPECIFICATION Spec
CONSTANTS
  SameFs = FALSE
  LinkBackup = FALSE
  ClockSteps = FALSE
  StaleCheck = TRUE
INVARIANTS
  TypeOK
  RoundTrip
  StopBeforeReplaceObs
  StartedAfter
  InstallExact
  RestoreNoBackupIsNoop
  RestoreDeletion
  UninstallPackageRemoves
  PurgeOnlyBackup
  FrameObs
  RestoreExact
  BackupExact
  RtMeansBackupHeld
  FailOnlyFromPartialBackup
  LnkSound
  BackupIsSeparate
PROPERTIES
  StopBeforeReplace
  Frame
  BackupTouchedOnlyBy
CHECK_DEADLOCK TRUE
