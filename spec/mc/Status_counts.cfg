\* X01 exhaustive: counts of one key up to 3 (insert 1 / increment), both connection counters, event and clear
SPECIFICATION Spec
CONSTANTS
  ConnKeys = {"k1"}
  FailKeys = {}
  Msgs <- McNoMsgs
  MaxMsg = 4
  EventAfter = 1
  ClearAfter = 2
  MaxCount = 3
  MaxHttp = 2
  MaxTcp = 1
  Ticks = TRUE
  EnvStateModules <- McNone
  EnvMsgModules <- McNone
  IoFaults = FALSE
  MaxCrash = 0
  TrackInstants = FALSE
  TopN = 1
INVARIANTS TypeOK FileNeverHalfWritten OverallStatusFunction CountsAreAdds MessageBounded ExtensionTopN
PROPERTIES FileStaysPresent QuiescentSnapshot CountsMonotoneBetweenClears ClearEmptiesBoth PublishedCountsMonotone
  EventCarriesPublishedStatus MonitorTruthful PublishesEveryIteration EventOnlyWhenDue EventWhenDue ClearOnlyWhenDue ClearWhenDue
CHECK_DEADLOCK TRUE
