\* X02 finding stray-status: TLC is EXPECTED to report a violation of StatusOnlyInFolder (the counterexample is
\* enable; reset while the service runs; the next iteration writes `<statusFolder>.status`).
SPECIFICATION Spec
CONSTANTS
  Handlers = {"h1"}
  Seqs = {"1", "2"}
  Allowed <- AllCmds
  Good = {"x0"}
  OsSupported = TRUE
  SpawnMayFail = FALSE
  ExternalChange = FALSE
  ResetDecisionOnInstall = FALSE
  Threshold = 2
  MaxCount = 2
  GhostCap = 3
INVARIANTS
  TypeOK
  StatusOnlyInFolder
CHECK_DEADLOCK FALSE
