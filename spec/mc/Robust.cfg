SPECIFICATION SSpec
CONSTANTS
  N = 8
  MaxSeq = 3
INVARIANTS Serving TasksAlive
PROPERTIES EveryRequestAnswered
CHECK_DEADLOCK FALSE
