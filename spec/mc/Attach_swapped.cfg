SPECIFICATION ASpec
CONSTANTS
  MaxRetries = 5
  Order <- SwappedOrder
INVARIANTS TypeOK NeverDivertUnpublished NoUnrecordedDiversion
CHECK_DEADLOCK FALSE
