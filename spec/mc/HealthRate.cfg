SPECIFICATION Spec
CONSTANTS
  Key = {"k1", "k2"}
  Val = {"a", "b"}
  RateMax = 120
PROPERTIES EmitOnChange AtMostOncePerMax KeysIndependent
CHECK_DEADLOCK TRUE
