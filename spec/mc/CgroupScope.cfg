SPECIFICATION CSpec
CONSTANTS
  Names = {"a", "b"}
  Depth = 2
  MaxMounts = 3
  Pick = "first"
INVARIANTS TypeOK EveryVisibleConnectDiverted ScopeCoversMounts
CHECK_DEADLOCK FALSE
