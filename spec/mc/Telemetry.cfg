\* C18 exhaustive: every set of <= 2 files with <= 4 events in total, five size classes around the limit
\* (Max = 6 units: 5 fits alone, 6 and above never fits), every failure pattern with the real 5 tries.
\* Safety and liveness; no state constraint.
SPECIFICATION Spec
CONSTANTS
  Max = 6
  Envelope = 0
  MaxTries = 5
  Sizes = {1, 2, 3, 5, 6}
  Classes = {"mixed"}
  MaxFiles = 2
  MaxEv = 4
  MaxTotal = 4
INVARIANTS TypeOK AtMostOneBatch PostsBounded BatchBounded WellFormed KnownIds OversizeDropped NotBlocked FilesRemoved
PROPERTIES Terminates
VIEW McView
CHECK_DEADLOCK FALSE
