SPECIFICATION LSpec
CONSTANTS
  Threshold = 3
  MaxCount = 5
  GhostCap = 7
  SeqNo = {"0", "1", "2"}
  Tags = {"t1", "t2"}
  Fails = {"m", "v"}
  Codes = {0, 1}
  CodeOverride = TRUE
  SameFs = FALSE
  TempRename = FALSE
  Memo = "off"
INVARIANTS LTypeOK CurrentSeqFileIsThisPollsReport NoStaleHandlerText ReportedIsComputed TypeOK ErrorOnlyAfterSustainedFailure NeverErrorAfterSuccess TwoSuccessesGiveSuccess NoWedge
CHECK_DEADLOCK TRUE
