\* X03 liveness (listener + key keeper): fairness of every task and of the actor, no state constraint.
SPECIFICATION FairSpec
CONSTANTS
  RetryCount = 2
  MaxRetries = 1
  BusyChoices = {0, 1, 3}
  ErrAtChoices = {0, 2}
  RdFailChoices = {0}
  MaxConn = 1
  StartPs = TRUE
  StartRd = FALSE
  StartKk = TRUE
  StopAllowed = TRUE
INVARIANTS TypeOK
PROPERTIES StopStopsListenerAndKeyKeeper AllBindsFailLeadsToReport BindSucceedsLeadsToRunning
CHECK_DEADLOCK FALSE
