SPECIFICATION Spec
CONSTANTS
  Threads <- MC_Threads
  AgentPids <- MC_AgentPids
  Ips = {"A", "B"}
  Ports = {"p", "q"}
  Protos = {"tcp", "udp"}
  TCP = "tcp"
  Listable <- MC_Listable
  SPorts = {1, 2, 3}
  Proxy <- MC_Proxy
  K = 2
  Bounded = TRUE
  AllowDirect = FALSE
  AllowAbort = TRUE
  MaxLeft = 0
INVARIANTS NoRecordOtherwise
CHECK_DEADLOCK FALSE
