\* X01 exhaustive: status messages and their truncation (MaxMsg=4)
SPECIFICATION Spec
CONSTANTS
  ConnKeys = {}
  FailKeys = {}
  Msgs <- McMsgs
  MaxMsg = 4
  EventAfter = 1
  ClearAfter = 2
  MaxCount = 1
  MaxHttp = 0
  MaxTcp = 0
  Ticks = FALSE
  EnvStateModules <- McNone
  EnvMsgModules <- McMsgMods
  IoFaults = FALSE
  MaxCrash = 0
  TrackInstants = FALSE
  TopN = 1
INVARIANTS TypeOK FileNeverHalfWritten OverallStatusFunction CountsAreAdds MessageBounded ExtensionTopN MsgsWellFormed
PROPERTIES FileStaysPresent QuiescentSnapshot CountsMonotoneBetweenClears ClearEmptiesBoth PublishedCountsMonotone
  EventCarriesPublishedStatus MonitorTruthful PublishesEveryIteration EventOnlyWhenDue EventWhenDue ClearOnlyWhenDue ClearWhenDue
CHECK_DEADLOCK TRUE
