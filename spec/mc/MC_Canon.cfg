SPECIFICATION Spec
INVARIANTS Injective Deterministic
CHECK_DEADLOCK FALSE
