SPECIFICATION Spec
CONSTANTS
  Conn = {"c1"}
  Port = {"p1"}
  Ident <- Idents2
  Keys = {"k1"}
  Shapes <- ShapesMid
  MaxReq = 2
  SplitKeyRead = FALSE
  EnvBudget = 2
  DestSet <- DestsAll
  MaxConnects = 2
INVARIANTS TypeOK Mediation StatusMap NothingLeaks RootOnly OwnedHeaders SingleUse KeyPairing Modes BodyLimit
PROPERTIES DenialCountedStep
CHECK_DEADLOCK FALSE
