\* X01 exhaustive (<= 2 writes per iteration window): per-instant aggregates (ghost): FieldwiseSnapshot
SPECIFICATION Spec
CONSTANTS
  ConnKeys = {"k1"}
  FailKeys = {"f1"}
  Msgs <- McNoMsgs
  MaxMsg = 4
  EventAfter = 1
  ClearAfter = 2
  MaxCount = 1
  MaxHttp = 1
  MaxTcp = 0
  Ticks = FALSE
  EnvStateModules <- McOneMod
  EnvMsgModules <- McNone
  IoFaults = FALSE
  MaxCrash = 0
  TrackInstants = TRUE
  TopN = 1
INVARIANTS TypeOK FileNeverHalfWritten OverallStatusFunction CountsAreAdds MessageBounded ExtensionTopN
PROPERTIES FileStaysPresent QuiescentSnapshot CountsMonotoneBetweenClears ClearEmptiesBoth PublishedCountsMonotone
  EventCarriesPublishedStatus MonitorTruthful PublishesEveryIteration EventOnlyWhenDue EventWhenDue ClearOnlyWhenDue ClearWhenDue FieldwiseSnapshot
CONSTRAINT McFewInstants
CHECK_DEADLOCK TRUE
