\* X01 exhaustive: per-instant aggregates of the iteration window (ghost): FieldwiseSnapshot
SPECIFICATION Spec
CONSTANTS
  ConnKeys = {"k1"}
  FailKeys = {"f1"}
  Msgs <- McNoMsgs
  MaxMsg = 4
  EventAfter = 1
  ClearAfter = 2
  MaxCount = 1
  MaxHttp = 1
  MaxTcp = 0
  Ticks = FALSE
  EnvStateModules <- McTwo
  EnvMsgModules <- McNone
  IoFaults = FALSE
  MaxCrash = 0
  TrackInstants = TRUE
  TopN = 1
INVARIANTS TypeOK FileNeverHalfWritten OverallStatusFunction CountsAreAdds MessageBounded ExtensionTopN
PROPERTIES FileStaysPresent QuiescentSnapshot CountsMonotoneBetweenClears ClearEmptiesBoth PublishedCountsMonotone
  EventCarriesPublishedStatus EventOnlyWhenDue EventWhenDue ClearOnlyWhenDue ClearWhenDue FieldwiseSnapshot
CHECK_DEADLOCK TRUE
