\* X01 exhaustive: IO faults at create/write/rename and one crash; the files survive
SPECIFICATION Spec
CONSTANTS
  ConnKeys = {"k1"}
  FailKeys = {}
  Msgs <- McNoMsgs
  MaxMsg = 4
  EventAfter = 1
  ClearAfter = 2
  MaxCount = 1
  MaxHttp = 0
  MaxTcp = 0
  Ticks = FALSE
  EnvStateModules <- McOneMod
  EnvMsgModules <- McNone
  IoFaults = TRUE
  MaxCrash = 1
  TrackInstants = FALSE
  TopN = 1
INVARIANTS TypeOK FileNeverHalfWritten OverallStatusFunction CountsAreAdds MessageBounded ExtensionTopN
PROPERTIES FileStaysPresent QuiescentSnapshot CountsMonotoneBetweenClears ClearEmptiesBoth PublishedCountsMonotone
  EventCarriesPublishedStatus MonitorTruthful PublishesEveryIteration EventOnlyWhenDue EventWhenDue ClearOnlyWhenDue ClearWhenDue
CHECK_DEADLOCK TRUE
