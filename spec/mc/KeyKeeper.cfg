SPECIFICATION Spec
CONSTANTS
  Guids = {"g1", "g2"}
  RuleIds = {"r1", "r2"}
  Contents = {"c1"}
  Versions = {"1.0", "2.0"}
  ModeOf <- MCModeOf
  RulesKey = "item"
  IdsIdentifyContent = TRUE
  IncOf <- MCIncOf
  StatusInc = 0
  SearchOnlyWhenEmpty = FALSE
  HostSpellsOddly = FALSE
  FetchCanonicalises = FALSE
  PrunesOnStart = FALSE
  MaxKept = 1
  LocalNeedsIncarnationMatch = FALSE
  KeepHigherIncarnation = FALSE
  ReuseUnattested = FALSE
  ReadBackFailOpen = FALSE
  StateEarly = FALSE
  InitScenarios = {"fresh", "haskey"}
  InitDocs <- DocsSmall
  MaxReconf = 2
  MaxFaults = 2
  MaxCrash = 1
  MaxDamage = 1
  MaxNotify = 1
  FsFaults = FALSE
  AcquireMayRepeat = TRUE
INVARIANTS TypeOK LatchedIsRecoverable NoCorruptFinalName AttestOnlyAfterStoreAndReadBack RestartUsesLocal
           Converged NoKeyWhenDisabled
PROPERTIES AttestStep RenameOnlyComplete FailedPollChangesNothing
CHECK_DEADLOCK FALSE
