\* X02: the proposed minimal fix for the decision latch (clear restored_in_error when the loop issues a new
\* install): every property of ExtHandler.cfg plus RollbackCoversEveryInstall.
SPECIFICATION Spec
CONSTANTS
  Handlers = {"h1"}
  Seqs = {"1", "2"}
  Allowed <- AllCmds
  Good = {"x0"}
  OsSupported = TRUE
  SpawnMayFail = TRUE
  ExternalChange = TRUE
  ResetDecisionOnInstall = TRUE
  Threshold = 2
  MaxCount = 2
  GhostCap = 3
INVARIANTS
  TypeOK
  UpdateTagLifecycle
  UnsupportedOsOnlyReports
  RollbackCoversEveryInstall
PROPERTIES
  StatusForCurrentSeq
  EnableReportsItsSeq
  EnableIdempotent
  EnableKeepsRunningService
  UninstallGuard
  AgentUnregisteredOnlyByUninstall
  RollbackOnError
  LoopTouchesAgentOnlyBy
  RestoreBringsBackPrevious
  NoUpgradeLoop
  InstallOnlyOnMismatch
  HeartbeatOnlyByService
  ServiceReportsHealth
CHECK_DEADLOCK TRUE
