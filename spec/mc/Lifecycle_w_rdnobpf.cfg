\* X03 WITNESS: N4_RedirectorRunningHasBpfAlways is a stated NON-property; TLC must find a counterexample.
SPECIFICATION Spec
CONSTANTS
  RetryCount = 5
  MaxRetries = 5
  BusyChoices = {1}
  ErrAtChoices = {0}
  RdFailChoices = {1}
  MaxConn = 1
  StartPs = TRUE
  StartRd = TRUE
  StartKk = FALSE
  StopAllowed = TRUE
INVARIANTS N4_RedirectorRunningHasBpfAlways
CHECK_DEADLOCK FALSE
