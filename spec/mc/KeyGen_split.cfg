SPECIFICATION Spec
CONSTANTS
  Split = TRUE
  MaxKeeper = 3
INVARIANTS KeyPairing
CHECK_DEADLOCK FALSE
