\* design variant "backup by hard link (copy on EXDEV) + in-place overwrite" on one file system: TLC must reject it
\* (RoundTrip: install writes through the link into the backup, restore copies the file onto itself) -- anti-vacuity of
\* the SameFs dimension
SPECIFICATION Spec
CONSTANTS
  SameFs = TRUE
  LinkBackup = TRUE
  ClockSteps = TRUE
  StaleCheck = FALSE
INVARIANTS
  TypeOK
  LnkSound
  RoundTrip
CHECK_DEADLOCK TRUE
