SPECIFICATION Spec
CONSTANTS
  Conn = {"c1"}
  Port = {"p1"}
  Ident <- IdentsRoot
  Keys = {"k1", "k2"}
  Shapes <- ShapesOne
  MaxReq = 2
  SplitKeyRead = TRUE
  EnvBudget = 3
  DestSet <- DestsWs
  MaxConnects = 1
INVARIANTS TypeOK KeyPairing SingleUse Mediation
CHECK_DEADLOCK FALSE
