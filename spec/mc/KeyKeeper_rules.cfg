SPECIFICATION Spec
CONSTANTS
  Guids = {"g1"}
  RuleIds = {"", "r1"}
  Versions = {"1.0", "2.0"}
  ModeOf <- MCModeOf
  RulesKeyedOnIdOnly = FALSE
  IdsIdentifyContent = FALSE
  InitScenarios = {"fresh"}
  InitDocs <- DocsEmptyId
  MaxReconf = 3
  MaxFaults = 1
  MaxCrash = 0
  MaxDamage = 0
  MaxNotify = 0
  FsFaults = FALSE
  AcquireMayRepeat = TRUE
INVARIANTS TypeOK Converged NoKeyWhenDisabled
PROPERTIES FailedPollChangesNothing
CHECK_DEADLOCK FALSE
