SPECIFICATION Spec
CONSTANTS
  Guids = {"g1"}
  RuleIds = {"", "r1"}
  Contents = {"c1", "c2"}
  Versions = {"2.0"}
  ModeOf <- MCModeOf
  RulesKey = "item"
  IdsIdentifyContent = FALSE
  IncOf <- MCIncOf
  StatusInc = 0
  SearchOnlyWhenEmpty = FALSE
  HostSpellsOddly = FALSE
  FetchCanonicalises = FALSE
  PrunesOnStart = FALSE
  MaxKept = 1
  LocalNeedsIncarnationMatch = FALSE
  KeepHigherIncarnation = FALSE
  ReuseUnattested = FALSE
  ReadBackFailOpen = FALSE
  StateEarly = FALSE
  InitScenarios = {"fresh"}
  InitDocs <- DocsRules
  MaxReconf = 2
  MaxFaults = 1
  MaxCrash = 0
  MaxDamage = 0
  MaxNotify = 0
  FsFaults = FALSE
  AcquireMayRepeat = TRUE
INVARIANTS TypeOK Converged NoKeyWhenDisabled
PROPERTIES FailedPollChangesNothing
CHECK_DEADLOCK FALSE
