\* X01 WITNESS (expected to be violated): SUCCESS is published although the gates were never RUNNING together
SPECIFICATION Spec
CONSTANTS
  ConnKeys = {}
  FailKeys = {}
  Msgs <- McNoMsgs
  MaxMsg = 4
  EventAfter = 1
  ClearAfter = 2
  MaxCount = 1
  MaxHttp = 0
  MaxTcp = 0
  Ticks = FALSE
  EnvStateModules <- McGate
  EnvMsgModules <- McNone
  IoFaults = FALSE
  MaxCrash = 0
  TrackInstants = TRUE
  TopN = 1
PROPERTIES NoPhantomSuccess
CONSTRAINT McFewInstants
CHECK_DEADLOCK TRUE
