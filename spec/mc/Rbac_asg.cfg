SPECIFICATION Spec
CONSTANTS
  Slice = "asg"
  Full = FALSE
  Emit = FALSE
INVARIANTS PermInvariant CaseInvariant DisabledAllows MatchedNotGrantedDenies NoMatchGivesDefault
CHECK_DEADLOCK FALSE
