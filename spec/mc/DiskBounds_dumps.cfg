SPECIFICATION Spec
CONSTANTS
  Machine = "dumps"
  CrashPoints = FALSE
  RollFaults = FALSE
  RollKills = FALSE
  LogListFaults = FALSE
  ListingDesign = "skip"
  RoomFaults = FALSE
  RollDesign = "rename"
  MaxCount = 3
  Limit = 4
  MaxWrite = 6
  PreArch = 5
  PreSizes = {4, 9}
  PreCur = {0, 1, 3, 4, 5, 9}
  Cap = 3
  MaxPush = 2
  QueueBound = 4
  PreEv = 5
  FlushFaults = FALSE
  PreTmp = 0
  MaxDumps = 3
  ListFaults = TRUE
  DumpDesign = "cleanup-first"
  PreDumps = 5
  MaxIds = 12
CONSTRAINT Bounded
INVARIANTS TypeOK DumpCountBound
PROPERTIES DumpNoGrowthAtMax DumpOldestFirst DumpNewestKept
CHECK_DEADLOCK FALSE
