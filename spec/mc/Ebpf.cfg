SPECIFICATION Spec
CONSTANTS
  Threads <- MC_Threads
  AgentPids <- MC_AgentPids
  Ips = {"A", "B"}
  Ports = {"p", "q"}
  Protos = {"tcp", "udp"}
  TCP = "tcp"
  Listable <- MC_Listable
  SPorts = {1, 2, 3}
  Proxy <- MC_Proxy
  K = 2
  Bounded = TRUE
  AllowDirect = TRUE
  AllowAbort = FALSE
  MaxLeft = 1
INVARIANTS RedirectExactly RecordTruth NoRecordOtherwise AgentUntouched NoStaleLocal WithinCapacity
CHECK_DEADLOCK TRUE
