\* design variant "restore refuses a backup whose time stamp is not within the last 7 days" where the wall clock can be
\* stepped between two commands: TLC must reject it (RoundTrip: backup, clock step, install, restore does nothing) --
\* anti-vacuity of the ClockSteps dimension
SPECIFICATION Spec
CONSTANTS
  SameFs = FALSE
  LinkBackup = FALSE
  ClockSteps = TRUE
  StaleCheck = TRUE
INVARIANTS
  TypeOK
  LnkSound
  RoundTrip
CHECK_DEADLOCK TRUE
