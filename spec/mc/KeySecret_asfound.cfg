SPECIFICATION Spec
CONSTANTS
  Redact = FALSE
  MaxSteps = 7
  StageInKeyDir = TRUE
INVARIANTS NoLeak AclBeforeFirstKeyFile
CHECK_DEADLOCK FALSE
