SPECIFICATION Spec
CONSTANTS
  Redact = FALSE
  MaxSteps = 7
INVARIANTS NoLeak AclBeforeFirstKeyFile
CHECK_DEADLOCK FALSE
