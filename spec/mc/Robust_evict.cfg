SPECIFICATION SSpec
CONSTANTS
  N = 8
  MaxSeq = 3
  QCap = 2
  StrictReply = FALSE
  Classes = {"plain", "clientAbandons"}
  EvictOldest = TRUE
INVARIANTS TypeOK Serving TasksAlive NoHandlerDies
CHECK_DEADLOCK FALSE
