SPECIFICATION Spec
INVARIANTS
  TypeOK
  RoundTrip
  StopBeforeReplaceObs
  StartedAfter
  InstallExact
  RestoreNoBackupIsNoop
  RestoreDeletion
  UninstallPackageRemoves
  PurgeOnlyBackup
  FrameObs
  RestoreExact
  BackupExact
  RtMeansBackupHeld
  FailOnlyFromPartialBackup
PROPERTIES
  StopBeforeReplace
  Frame
  BackupTouchedOnlyBy
CHECK_DEADLOCK TRUE
