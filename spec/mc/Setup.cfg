\* the design, tool folder on another file system than the system locations (link(2) -> EXDEV)
SPECIFICATION Spec
CONSTANTS
  SameFs = FALSE
  LinkBackup = FALSE
INVARIANTS
  TypeOK
  RoundTrip
  StopBeforeReplaceObs
  StartedAfter
  InstallExact
  RestoreNoBackupIsNoop
  RestoreDeletion
  UninstallPackageRemoves
  PurgeOnlyBackup
  FrameObs
  RestoreExact
  BackupExact
  RtMeansBackupHeld
  FailOnlyFromPartialBackup
  LnkSound
  BackupIsSeparate
PROPERTIES
  StopBeforeReplace
  Frame
  BackupTouchedOnlyBy
CHECK_DEADLOCK TRUE
