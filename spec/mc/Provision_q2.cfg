SPECIFICATION Spec
CONSTANTS
  MaxClock = 2
  MaxKK = 3
  MaxRd = 1
  NQ = 2
  MaxPolls = 1
  MaxLatch = 1
  FileSteps = FALSE
  QKinds = {"past", "exact", "future"}
  Fix = {"stale", "zero", "tmp"}
  KKOps = {"U", "R", "T"}
VIEW view
INVARIANTS TypeOK FinishedOnlyAfter Answer ErrorTextExact NoLostUpdate QueryTruth QueryComplete TagAtomic
CHECK_DEADLOCK FALSE
