SPECIFICATION Spec
CONSTANTS
  Guids = {"g1", "g2"}
  RuleIds = {"r1"}
  Contents = {"c1"}
  Versions = {"1.0"}
  ModeOf <- MCModeOf
  RulesKey = "item"
  IdsIdentifyContent = TRUE
  IncOf <- MCIncOf
  StatusInc = 0
  SearchOnlyWhenEmpty = FALSE
  HostSpellsOddly = FALSE
  FetchCanonicalises = FALSE
  PrunesOnStart = FALSE
  MaxKept = 1
  LocalNeedsIncarnationMatch = FALSE
  KeepHigherIncarnation = FALSE
  ReuseUnattested = FALSE
  ReadBackFailOpen = TRUE
  StateEarly = FALSE
  InitScenarios = {"fresh"}
  InitDocs <- DocsV1
  MaxReconf = 0
  MaxFaults = 2
  MaxCrash = 0
  MaxDamage = 1
  MaxNotify = 0
  FsFaults = TRUE
  AcquireMayRepeat = TRUE
INVARIANTS TypeOK LatchedIsRecoverable NoCorruptFinalName AttestOnlyAfterStoreAndReadBack RestartUsesLocal
PROPERTIES AttestStep RenameOnlyComplete
CHECK_DEADLOCK FALSE
