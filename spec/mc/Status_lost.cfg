\* X01 WITNESS (expected to be violated): an add between the last read and the clear is never published
SPECIFICATION Spec
CONSTANTS
  ConnKeys = {"k1"}
  FailKeys = {}
  Msgs <- McNoMsgs
  MaxMsg = 4
  EventAfter = 1
  ClearAfter = 2
  MaxCount = 1
  MaxHttp = 0
  MaxTcp = 0
  Ticks = TRUE
  EnvStateModules <- McNone
  EnvMsgModules <- McNone
  IoFaults = FALSE
  MaxCrash = 0
  TrackInstants = FALSE
  TopN = 1
PROPERTIES NoAddLostAtClear
CHECK_DEADLOCK TRUE
