\* X01 exhaustive: the extension's top-N over every order of three keys (N=2)
SPECIFICATION Spec
CONSTANTS
  ConnKeys = {"k1", "k2", "k3"}
  FailKeys = {}
  Msgs <- McNoMsgs
  MaxMsg = 4
  EventAfter = 1
  ClearAfter = 2
  MaxCount = 2
  MaxHttp = 0
  MaxTcp = 0
  Ticks = FALSE
  EnvStateModules <- McNone
  EnvMsgModules <- McNone
  IoFaults = FALSE
  MaxCrash = 0
  TrackInstants = FALSE
  TopN = 2
INVARIANTS TypeOK ExtensionTopN CountsAreAdds
CHECK_DEADLOCK TRUE
