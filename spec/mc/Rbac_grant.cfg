SPECIFICATION Spec
CONSTANTS
  Slice = "grant"
  Full = FALSE
  Emit = FALSE
INVARIANTS PermInvariant CaseInvariant DisabledAllows MatchedNotGrantedDenies NoMatchGivesDefault
CHECK_DEADLOCK FALSE
