\* X03 exhaustive: the three tasks + close on the one mailbox (interleavings of four clients), fewer environment choices (thorough tier).
SPECIFICATION Spec
CONSTANTS
  RetryCount = 5
  MaxRetries = 5
  BusyChoices = {0, 1, 7}
  ErrAtChoices = {0, 1}
  RdFailChoices = {0, 1, 5}
  MaxConn = 1
  StartPs = TRUE
  StartRd = TRUE
  StartKk = TRUE
  StopAllowed = TRUE
INVARIANTS TypeOK ListenerRunningOnlyAfterBind ListenerFailureIsReported BindAttemptsBounded GivesUpOnlyAfterAllRetries
  ProvisionFlagOnlyAfterRunning NoAcceptAfterCancelProcessed ClosedSocketRefuses NoRunningAfterStopped
  RedirectorRetriesBounded RedirectorMessageNamesLastError RedirectorFailureIsReported RedirectorFailureLeavesUnknown
  RedirectorRunningHasBpf RedirectorStopSticksIfStartFinished NullBpfAfterFailedStartAndClose
PROPERTIES BindFollowsSleep OtherErrorFailsAtOnce
CHECK_DEADLOCK FALSE
