\* X02: two handler directories sharing update.tag, the service slot and the machine: the update choreography
\* h1 -> h2 as the guest agent drives it (disable/uninstall/enable on the old version, update/install/enable/disable
\* on the new one, in any order and number), the new agent version h2 being unhealthy (rollback to h1).
SPECIFICATION Spec
CONSTANTS
  Handlers = {"h1", "h2"}
  Seqs = {"1"}
  Allowed <- UpdateCmds
  Good = {"x0", "h1"}
  OsSupported = TRUE
  SpawnMayFail = FALSE
  ExternalChange = FALSE
  ResetDecisionOnInstall = FALSE
  Threshold = 2
  MaxCount = 2
  GhostCap = 3
INVARIANTS
  TypeOK
  UpdateTagLifecycle
  UnsupportedOsOnlyReports
PROPERTIES
  StatusForCurrentSeq
  EnableReportsItsSeq
  EnableIdempotent
  EnableKeepsRunningService
  UninstallGuard
  AgentUnregisteredOnlyByUninstall
  RollbackOnError
  LoopTouchesAgentOnlyBy
  RestoreBringsBackPrevious
  NoUpgradeLoop
  InstallOnlyOnMismatch
  HeartbeatOnlyByService
  ServiceReportsHealth
CHECK_DEADLOCK TRUE
