SPECIFICATION Spec
CONSTANTS
  Threads <- MC_ThreadsLeft
  AgentPids <- MC_AgentPids
  Ips = {"A", "B"}
  Ports = {"p"}
  Protos = {"tcp"}
  TCP = "tcp"
  Listable <- MC_Listable
  SPorts = {s1, s2, s3}
  Proxy <- MC_Proxy
  K = 2
  Bounded = TRUE
  AllowDirect = TRUE
  AllowAbort = FALSE
  MaxLeft = 1
SYMMETRY SymSPorts
INVARIANTS RedirectExactly RecordTruth NoRecordOtherwise AgentUntouched NoStaleLocal WithinCapacity
CHECK_DEADLOCK TRUE
