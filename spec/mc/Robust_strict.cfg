SPECIFICATION SSpec
CONSTANTS
  N = 8
  MaxSeq = 3
  QCap = 2
  StrictReply = TRUE
  Classes = {"plain", "clientAbandons"}
  EvictOldest = FALSE
INVARIANTS TypeOK Serving TasksAlive NoHandlerDies
CHECK_DEADLOCK FALSE
