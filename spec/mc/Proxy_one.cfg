SPECIFICATION Spec
CONSTANTS
  Conn = {"c1"}
  Port = {"p1"}
  Ident <- Idents2
  Keys = {"k1"}
  Shapes <- ShapesAll
  MaxReq = 1
  SplitKeyRead = FALSE
  EnvBudget = 2
  DestSet <- DestsAll
  MaxConnects = 1
INVARIANTS TypeOK Mediation StatusMap NothingLeaks RootOnly OwnedHeaders SingleUse KeyPairing Modes BodyLimit
PROPERTIES DenialCountedStep
CHECK_DEADLOCK FALSE
