\* X03 exhaustive: the redirector (every rdFailJ) against stop_service / close at any point, with the key keeper.
SPECIFICATION Spec
CONSTANTS
  RetryCount = 5
  MaxRetries = 5
  BusyChoices = {0}
  ErrAtChoices = {0}
  RdFailChoices = {0, 1, 2, 3, 4, 5, 6}
  MaxConn = 0
  StartPs = FALSE
  StartRd = TRUE
  StartKk = TRUE
  StopAllowed = TRUE
INVARIANTS TypeOK RedirectorRetriesBounded RedirectorMessageNamesLastError RedirectorFailureIsReported
  RedirectorFailureLeavesUnknown RedirectorRunningHasBpf ProvisionFlagOnlyAfterRunning NoRunningAfterStopped
  RedirectorStopSticksIfStartFinished NullBpfAfterFailedStartAndClose
CHECK_DEADLOCK FALSE
