SPECIFICATION Spec
CONSTANTS
  Split = FALSE
  MaxKeeper = 3
INVARIANTS KeyPairing
CHECK_DEADLOCK FALSE
