\* X02 finding decision-latch: TLC is EXPECTED to report a violation of RollbackCoversEveryInstall for the code as
\* built (restored_in_error is set by the first restore/purge of a service run and never cleared).
SPECIFICATION Spec
CONSTANTS
  Handlers = {"h1"}
  Seqs = {"1", "2"}
  Allowed <- AllCmds
  Good = {"x0"}
  OsSupported = TRUE
  SpawnMayFail = FALSE
  ExternalChange = TRUE
  ResetDecisionOnInstall = FALSE
  Threshold = 2
  MaxCount = 2
  GhostCap = 3
INVARIANTS
  TypeOK
  RollbackCoversEveryInstall
CHECK_DEADLOCK FALSE
