SPECIFICATION Spec
CONSTANTS
  Guids = {"g1"}
  RuleIds = {"r1"}
  Contents = {"c1"}
  Versions = {"2.0"}
  ModeOf <- MCModeOf
  RulesKey = "item"
  IdsIdentifyContent = TRUE
  IncOf <- MCIncOf
  StatusInc = 0
  SearchOnlyWhenEmpty = FALSE
  HostSpellsOddly = FALSE
  FetchCanonicalises = FALSE
  PrunesOnStart = FALSE
  MaxKept = 1
  LocalNeedsIncarnationMatch = FALSE
  KeepHigherIncarnation = FALSE
  ReuseUnattested = FALSE
  ReadBackFailOpen = FALSE
  StateEarly = TRUE
  InitScenarios = {"fresh"}
  InitDocs <- DocsSmall
  MaxReconf = 2
  MaxFaults = 1
  MaxCrash = 0
  MaxDamage = 0
  MaxNotify = 0
  FsFaults = FALSE
  AcquireMayRepeat = TRUE
INVARIANTS Converged
CHECK_DEADLOCK FALSE
