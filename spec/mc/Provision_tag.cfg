SPECIFICATION Spec
CONSTANTS
  MaxClock = 2
  MaxKK = 3
  MaxRd = 1
  NQ = 0
  MaxLatch = 0
  FileSteps = TRUE
  QKinds = {}
  Fix = {}
  KKOps = {"U", "T"}
VIEW view
INVARIANTS TypeOK FinishedOnlyAfter NoLostUpdate TagAtomic
CHECK_DEADLOCK FALSE
