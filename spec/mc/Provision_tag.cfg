SPECIFICATION Spec
CONSTANTS
  MaxClock = 2
  MaxKK = 3
  MaxRd = 1
  NQ = 0
  MaxPolls = 1
  MaxLatch = 0
  FileSteps = TRUE
  QKinds = {}
  Fix = {"stale", "zero", "tmp"}
  KKOps = {"U", "R", "T"}
VIEW view
INVARIANTS TypeOK FinishedOnlyAfter NoLostUpdate TagAtomic
PROPERTIES TagReplacedByRenameOnly
CHECK_DEADLOCK FALSE
