\* X01 exhaustive: module states of the three gates, overall-status function, quiescent snapshot.
SPECIFICATION Spec
CONSTANTS
  ConnKeys = {}
  FailKeys = {}
  Msgs <- McNoMsgs
  MaxMsg = 4
  EventAfter = 1
  ClearAfter = 2
  MaxCount = 1
  MaxHttp = 0
  MaxTcp = 0
  Ticks = FALSE
  EnvStateModules <- McGate
  EnvMsgModules <- McNone
  IoFaults = FALSE
  MaxCrash = 0
  TrackInstants = FALSE
  TopN = 1
INVARIANTS TypeOK FileNeverHalfWritten OverallStatusFunction CountsAreAdds MessageBounded ExtensionTopN
PROPERTIES FileStaysPresent QuiescentSnapshot CountsMonotoneBetweenClears ClearEmptiesBoth PublishedCountsMonotone
  EventCarriesPublishedStatus MonitorTruthful PublishesEveryIteration EventOnlyWhenDue EventWhenDue ClearOnlyWhenDue ClearWhenDue
CHECK_DEADLOCK TRUE
