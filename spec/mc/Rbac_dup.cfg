SPECIFICATION Spec
CONSTANTS
  Slice = "dup"
  Full = FALSE
  Emit = FALSE
INVARIANTS PermInvariant CaseInvariant DisabledAllows MatchedNotGrantedDenies NoMatchGivesDefault
CHECK_DEADLOCK FALSE
