\* C18 exhaustive over content: every content class for every event of <= 3 events in one file, sizes small /
\* oversize, envelope of one unit.
SPECIFICATION Spec
CONSTANTS
  Max = 4
  Envelope = 1
  MaxTries = 2
  Sizes = {1, 3}
  Classes = {"plain", "nonascii", "markup", "cdata", "mixed"}
  MaxFiles = 1
  MaxEv = 3
  MaxTotal = 3
INVARIANTS TypeOK AtMostOneBatch PostsBounded BatchBounded WellFormed KnownIds OversizeDropped NotBlocked FilesRemoved
PROPERTIES Terminates
VIEW McView
CHECK_DEADLOCK FALSE
