------------------------------ MODULE MC_Proxy ------------------------------
EXTENDS Proxy

Root == [id |-> "root", elevated |-> TRUE]
User == [id |-> "user", elevated |-> FALSE]
Idents2 == {Root, User}

ShapesAll == [trav : BOOLEAN, prov : BOOLEAN, rbac : BOOLEAN, exempt : BOOLEAN, over : BOOLEAN,
              framing : {"cl", "chunked"}, spoof : {0, 2}]
Plain(rb) == [trav |-> FALSE, prov |-> FALSE, rbac |-> rb, exempt |-> FALSE, over |-> FALSE, framing |-> "cl", spoof |-> 0]
\* a mid-size shape set for the deeper configurations: every early-exit class once, plus plain allow/deny
ShapesMid == {Plain(TRUE), Plain(FALSE),
              [Plain(TRUE) EXCEPT !.trav = TRUE], [Plain(TRUE) EXCEPT !.prov = TRUE],
              [Plain(TRUE) EXCEPT !.over = TRUE], [Plain(FALSE) EXCEPT !.over = TRUE, !.framing = "chunked"],
              [Plain(TRUE) EXCEPT !.exempt = TRUE, !.spoof = 2], [Plain(FALSE) EXCEPT !.exempt = TRUE, !.framing = "chunked"]}
ShapesPlain == {Plain(TRUE), Plain(FALSE)}
ShapesOne == {Plain(TRUE)}

DestsAll == A!Dests
DestsTwo == {"ws", "imds"}
DestsWs == {"ws"}
IdentsRoot == {Root}

\* bound the failed counter for exhaustive runs
FailedBound == failed <= 4
=============================================================================
