\* the design, tool folder on the file system of the system locations (one root file system: link(2) succeeds)
SPECIFICATION Spec
CONSTANTS
  SameFs = TRUE
  LinkBackup = FALSE
  ClockSteps = TRUE
  StaleCheck = FALSE
INVARIANTS
  TypeOK
  RoundTrip
  StopBeforeReplaceObs
  StartedAfter
  InstallExact
  RestoreNoBackupIsNoop
  RestoreDeletion
  UninstallPackageRemoves
  PurgeOnlyBackup
  FrameObs
  RestoreExact
  BackupExact
  RtMeansBackupHeld
  FailOnlyFromPartialBackup
  LnkSound
  BackupIsSeparate
PROPERTIES
  StopBeforeReplace
  Frame
  BackupTouchedOnlyBy
CHECK_DEADLOCK TRUE
