SPECIFICATION Spec
CONSTANTS
  Threshold = 20
  MaxCount = 10000
  GhostCap = 10010
INVARIANTS TypeOK ErrorOnlyAfterSustainedFailure NeverErrorAfterSuccess TwoSuccessesGiveSuccess NoWedge CountersTrackGhosts
PROPERTIES SuccessLeavesError
CHECK_DEADLOCK TRUE
