SPECIFICATION Spec
CONSTANTS
  Slice = "match"
  Full = FALSE
  Emit = FALSE
INVARIANTS PermInvariant CaseInvariant DisabledAllows MatchedNotGrantedDenies NoMatchGivesDefault
CHECK_DEADLOCK FALSE
