\* X01 exhaustive: both bags, the 15 min event and the 24 h clear (time unit: EventAfter=1, ClearAfter=2)
SPECIFICATION Spec
CONSTANTS
  ConnKeys = {"k1", "k2"}
  FailKeys = {"f1"}
  Msgs <- McNoMsgs
  MaxMsg = 4
  EventAfter = 1
  ClearAfter = 2
  MaxCount = 1
  MaxHttp = 0
  MaxTcp = 0
  Ticks = TRUE
  EnvStateModules <- McNone
  EnvMsgModules <- McNone
  IoFaults = FALSE
  MaxCrash = 0
  TrackInstants = FALSE
  TopN = 1
INVARIANTS TypeOK FileNeverHalfWritten OverallStatusFunction CountsAreAdds MessageBounded ExtensionTopN
PROPERTIES FileStaysPresent QuiescentSnapshot CountsMonotoneBetweenClears ClearEmptiesBoth PublishedCountsMonotone
  EventCarriesPublishedStatus MonitorTruthful PublishesEveryIteration EventOnlyWhenDue EventWhenDue ClearOnlyWhenDue ClearWhenDue
CHECK_DEADLOCK TRUE
