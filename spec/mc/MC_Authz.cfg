SPECIFICATION Spec
INVARIANTS Props Emit
CHECK_DEADLOCK FALSE
