------------------------------ MODULE MC_Authz ------------------------------
EXTENDS Authz, TLC, Json
VARIABLE x
Init == x \in Dests \X BOOLEAN \X RuleModes \X BOOLEAN
Next == UNCHANGED x
Spec == Init /\ [][Next]_x
Props == RootOnly /\ NoSelfProxy /\ EnforceBlocks /\ AuditForwards /\ DisabledIgnoresRules
Emit == PrintT(<<"CASE", ToJson([dest |-> x[1], elevated |-> x[2], rules |-> x[3], rbac |-> x[4],
                                 result |-> Result(x[1], x[2], x[3], x[4])])>>)
=============================================================================
