\* X02: unsupported OS version: every command only reports Error for its own sequence number (exit 6).
SPECIFICATION Spec
CONSTANTS
  Handlers = {"h1", "h2"}
  Seqs = {"1", "2"}
  Allowed <- AllCmds
  Good = {"x0"}
  OsSupported = FALSE
  SpawnMayFail = TRUE
  ExternalChange = TRUE
  ResetDecisionOnInstall = FALSE
  Threshold = 2
  MaxCount = 2
  GhostCap = 3
INVARIANTS
  TypeOK
  UpdateTagLifecycle
  UnsupportedOsOnlyReports
PROPERTIES
  StatusForCurrentSeq
  EnableReportsItsSeq
  EnableIdempotent
  EnableKeepsRunningService
  UninstallGuard
  AgentUnregisteredOnlyByUninstall
  RollbackOnError
  LoopTouchesAgentOnlyBy
  RestoreBringsBackPrevious
  NoUpgradeLoop
  InstallOnlyOnMismatch
  HeartbeatOnlyByService
  ServiceReportsHealth
CHECK_DEADLOCK TRUE
