SPECIFICATION Spec
CONSTANTS
  Conn = {"c1", "c2"}
  MaxReq = 3
INVARIANTS Order HostSeesInOrder
PROPERTIES AllAnswered
CHECK_DEADLOCK FALSE
