SPECIFICATION Spec
CONSTANTS
  Redact = TRUE
  MaxSteps = 7
INVARIANTS NoLeak AclBeforeFirstKeyFile
CHECK_DEADLOCK FALSE
