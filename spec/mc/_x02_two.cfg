SPECIFICATION Spec
CONSTANTS
  Handlers = {"h1", "h2"}
  Seqs = {"1"}
  Good = {"x0", "h1"}
  OsSupported = TRUE
  SpawnMayFail = FALSE
  ExternalChange = FALSE
  ResetDecisionOnInstall = FALSE
  Threshold = 2
  MaxCount = 2
  GhostCap = 3
INVARIANTS
  TypeOK
  UpdateTagLifecycle
  UnsupportedOsOnlyReports
PROPERTIES
  StatusForCurrentSeq
  EnableReportsItsSeq
  EnableIdempotent
  EnableKeepsRunningService
  UninstallGuard
  AgentUnregisteredOnlyByUninstall
  RollbackOnError
  LoopTouchesAgentOnlyBy
  RestoreBringsBackPrevious
  NoUpgradeLoop
  InstallOnlyOnMismatch
  HeartbeatOnlyByService
  ServiceReportsHealth
CHECK_DEADLOCK TRUE
