SPECIFICATION FairSpec
CONSTANTS
  Guids = {"g1", "g2"}
  RuleIds = {"r1"}
  Contents = {"c1"}
  Versions = {"2.0"}
  ModeOf <- MCModeOf
  RulesKey = "item"
  IdsIdentifyContent = TRUE
  IncOf <- MCIncOf
  StatusInc = 0
  SearchOnlyWhenEmpty = FALSE
  HostSpellsOddly = FALSE
  FetchCanonicalises = FALSE
  PrunesOnStart = FALSE
  MaxKept = 1
  LocalNeedsIncarnationMatch = FALSE
  KeepHigherIncarnation = FALSE
  ReuseUnattested = FALSE
  ReadBackFailOpen = FALSE
  StateEarly = FALSE
  InitScenarios = {"fresh", "haskey", "unreadable", "rotated"}
  InitDocs <- DocsOne
  MaxReconf = 1
  MaxFaults = 1
  MaxCrash = 1
  MaxDamage = 1
  MaxNotify = 0
  FsFaults = TRUE
  AcquireMayRepeat = TRUE
PROPERTIES EventuallySettled EventuallyPolls
CHECK_DEADLOCK FALSE
