\* X03 exhaustive: the listener (every busyK, every errAt), the key keeper, stop_service at any point, two clients.
SPECIFICATION Spec
CONSTANTS
  RetryCount = 5
  MaxRetries = 5
  BusyChoices = {0, 1, 2, 3, 4, 5, 6, 7}
  ErrAtChoices = {0, 1, 2, 3, 4, 5, 6}
  RdFailChoices = {5}
  MaxConn = 2
  StartPs = TRUE
  StartRd = FALSE
  StartKk = TRUE
  StopAllowed = TRUE
INVARIANTS TypeOK ListenerRunningOnlyAfterBind ListenerFailureIsReported BindAttemptsBounded GivesUpOnlyAfterAllRetries
  ProvisionFlagOnlyAfterRunning NoAcceptAfterCancelProcessed ClosedSocketRefuses NoRunningAfterStopped
PROPERTIES BindFollowsSleep OtherErrorFailsAtOnce
CHECK_DEADLOCK FALSE
