\* X02: exhaustive configuration, the code as built on a supported OS.  Two handler directories (an update
\* choreography needs an old and a new version), two sequence numbers, Health with Threshold 2 (real: 20).
\* The two findings' invariants are NOT listed here (see ExtHandler_stray.cfg / ExtHandler_latch.cfg).
SPECIFICATION Spec
CONSTANTS
  Handlers = {"h1"}
  Seqs = {"1", "2"}
  Good = {"x0", "h1"}
  OsSupported = TRUE
  SpawnMayFail = TRUE
  ExternalChange = TRUE
  ResetDecisionOnInstall = FALSE
  Threshold = 2
  MaxCount = 3
  GhostCap = 4
INVARIANTS
  TypeOK
  UpdateTagLifecycle
  UnsupportedOsOnlyReports
PROPERTIES
  StatusForCurrentSeq
  EnableReportsItsSeq
  EnableIdempotent
  EnableKeepsRunningService
  UninstallGuard
  AgentUnregisteredOnlyByUninstall
  RollbackOnError
  LoopTouchesAgentOnlyBy
  RestoreBringsBackPrevious
  NoUpgradeLoop
  InstallOnlyOnMismatch
  HeartbeatOnlyByService
CHECK_DEADLOCK TRUE
