SPECIFICATION Spec
CONSTANTS
  Machine = "log"
  CrashPoints = FALSE
  RollFaults = FALSE
  RollKills = FALSE
  LogListFaults = TRUE
  ListingDesign = "skip"
  RoomFaults = FALSE
  RollDesign = "rename"
  MaxCount = 3
  Limit = 4
  MaxWrite = 6
  PreArch = 5
  PreSizes = {4, 9}
  PreCur = {0, 1, 3, 4, 5, 9}
  Cap = 3
  MaxPush = 2
  QueueBound = 4
  PreEv = 5
  FlushFaults = FALSE
  PreTmp = 0
  MaxDumps = 3
  ListFaults = FALSE
  DumpDesign = "cleanup-first"
  PreDumps = 5
  MaxIds = 12
CONSTRAINT Bounded
INVARIANTS TypeOK LogCountBound LogCountRecovered LogCountBoundCrash LogSizeBound LogSizeStrict
PROPERTIES LogNoGrowthWithoutRoll LogNoGrowthWhileRollFails
CHECK_DEADLOCK FALSE
