SPECIFICATION Spec
CONSTANTS
  Guids = {"g1", "g2"}
  RuleIds = {"r1"}
  Contents = {"c1"}
  Versions = {"1.0"}
  ModeOf <- MCModeOf
  RulesKey = "item"
  IdsIdentifyContent = TRUE
  IncOf <- MCIncOf
  StatusInc = 0
  SearchOnlyWhenEmpty = FALSE
  HostSpellsOddly = FALSE
  FetchCanonicalises = FALSE
  PrunesOnStart = FALSE
  MaxKept = 1
  LocalNeedsIncarnationMatch = FALSE
  KeepHigherIncarnation = FALSE
  ReuseUnattested = FALSE
  ReadBackFailOpen = FALSE
  StateEarly = FALSE
  InitScenarios = {"fresh", "haskey", "unreadable", "rotated"}
  InitDocs <- DocsV1
  MaxReconf = 1
  MaxFaults = 3
  MaxCrash = 2
  MaxDamage = 1
  MaxNotify = 0
  FsFaults = TRUE
  AcquireMayRepeat = TRUE
INVARIANTS TypeOK LatchedIsRecoverable NoCorruptFinalName AttestOnlyAfterStoreAndReadBack RestartUsesLocal
PROPERTIES AttestStep RenameOnlyComplete
CHECK_DEADLOCK FALSE
