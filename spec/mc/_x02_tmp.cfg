\* X02: exhaustive configuration, the code as built on a supported OS: one handler directory, two sequence
\* numbers, every command in every order and interleaving with the service loop, the agent, out-of-band
\* replacement of the agent, service crashes, a service that cannot be started; Health with Threshold 2 (real: 20;
\* Health.cfg checks the automaton at the real constants).  The two findings' invariants are NOT listed here
\* (ExtHandler_stray.cfg / ExtHandler_latch.cfg expect their violation, ExtHandler_fixed.cfg checks the proposed fix).
SPECIFICATION Spec
CONSTANTS
  Handlers = {"h1"}
  Seqs = {"1", "2"}
  Allowed <- AllCmds
  Good = {"x0"}
  OsSupported = TRUE
  SpawnMayFail = FALSE
  ExternalChange = TRUE
  ResetDecisionOnInstall = FALSE
  Threshold = 2
  MaxCount = 2
  GhostCap = 3
INVARIANTS
  TypeOK
  UpdateTagLifecycle
  UnsupportedOsOnlyReports
PROPERTIES
  StatusForCurrentSeq
  EnableReportsItsSeq
  EnableIdempotent
  EnableKeepsRunningService
  UninstallGuard
  AgentUnregisteredOnlyByUninstall
  RollbackOnError
  LoopTouchesAgentOnlyBy
  RestoreBringsBackPrevious
  NoUpgradeLoop
  InstallOnlyOnMismatch
  HeartbeatOnlyByService
  ServiceReportsHealth
CHECK_DEADLOCK TRUE
