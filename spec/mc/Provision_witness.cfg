SPECIFICATION Spec
CONSTANTS
  MaxClock = 2
  MaxKK = 1
  MaxRd = 1
  NQ = 1
  MaxPolls = 2
  MaxLatch = 0
  FileSteps = FALSE
  QKinds = {"past"}
  Fix = {"stale", "zero", "tmp"}
  KKOps = {"U"}
VIEW view
INVARIANTS NoQueryFinishedByTick
CHECK_DEADLOCK FALSE
