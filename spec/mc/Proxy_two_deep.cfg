SPECIFICATION Spec
CONSTANTS
  Conn = {"c1", "c2"}
  Port = {"p1", "p2"}
  Ident <- Idents2
  Keys = {"k1"}
  Shapes <- ShapesOne
  MaxReq = 2
  SplitKeyRead = FALSE
  EnvBudget = 0
  DestSet <- DestsTwo
  MaxConnects = 4
INVARIANTS TypeOK Mediation StatusMap NothingLeaks RootOnly OwnedHeaders SingleUse KeyPairing Modes BodyLimit
PROPERTIES DenialCountedStep
CHECK_DEADLOCK FALSE
