------------------------------ MODULE MC_Canon ------------------------------
(* Small complete universe for Canon.tla: the canonical string covers every query parameter and every header
   (two requests that differ in a signed component never share a canonical string), for both accepted orders. *)
EXTENDS Canon

a == <<97>>  A == <<65>>  ab == <<97, 98>>  b == <<98>>  bc == <<98, 99>>  c == <<99>>  e == <<>>
Pairs == {[k |-> a, v |-> bc], [k |-> ab, v |-> c], [k |-> a, v |-> b], [k |-> A, v |-> b], [k |-> a, v |-> e], [k |-> ab, v |-> e]}
Queries == {<<>>} \cup {<<p>> : p \in Pairs} \cup {<<p, q>> : p, q \in Pairs}
H1 == [n |-> <<120, 45, 97>>, v |-> <<49>>]          \* x-a: 1
H2 == [n |-> <<88, 45, 65>>, v |-> <<32, 50, 32>>]   \* X-A:  2  (same name, other case, blanks)
H3 == [n |-> <<120, 45, 98>>, v |-> <<49>>]          \* x-b: 1
HAuth == [n |-> AuthName, v |-> <<49>>]
HeaderLists == {<<>>, <<H1>>, <<H2>>, <<H1, H2>>, <<H2, H1>>, <<H1, H3>>, <<H3, H1>>, <<H1, HAuth>>}
Req(q, hs) == [method |-> <<71>>, path |-> <<47>>, query |-> q, headers |-> hs, body |-> <<>>]

VARIABLE x
Init == x \in (Queries \X HeaderLists) \X (Queries \X HeaderLists)
Next == UNCHANGED x
Spec == Init /\ [][Next]_x

\* what a request "is" for the purpose of signing: the multiset of (lower key, value) pairs with a non-empty key and the
\* sequence of non-authorization headers per lower-cased name with trimmed values
RECURSIVE CountIn(_, _)
CountIn(s, y) == IF s = <<>> THEN 0 ELSE (IF Head(s) = y THEN 1 ELSE 0) + CountIn(Tail(s), y)
NormQ(q) == [i \in 1..Len(q) |-> [k |-> LowerS(q[i].k), v |-> q[i].v]]
SameBag(s, t) == Len(s) = Len(t) /\ \A i \in 1..Len(s) : CountIn(s, s[i]) = CountIn(t, s[i])
NormH(hs) == LET kept == SelectSeq(hs, LAMBDA h : LowerS(h.n) # AuthName)
             IN [i \in 1..Len(kept) |-> [n |-> LowerS(kept[i].n), v |-> Trim(kept[i].v)]]
PerName(hs, n) == SelectSeq(NormH(hs), LAMBDA h : h.n = n)
SameHeaders(h1, h2) == Len(NormH(h1)) = Len(NormH(h2)) /\
                       \A i \in 1..Len(NormH(h1)) : PerName(h1, NormH(h1)[i].n) = PerName(h2, NormH(h1)[i].n)
SameSigned(r1, r2) == SameBag(NormQ(r1.query), NormQ(r2.query)) /\ SameHeaders(r1.headers, r2.headers)

R1 == Req(x[1][1], x[1][2])
R2 == Req(x[2][1], x[2][2])
Injective == \A o \in {"kv", "concat"} :
               (StringToSign(R1, o) = StringToSign(R2, o)) => SameSigned(R1, R2)
Deterministic == \A o \in {"kv", "concat"} : SameSigned(R1, R2) => StringToSign(R1, o) = StringToSign(R2, o)
=============================================================================
