------------------------------- MODULE Attach -------------------------------
(***************************************************************************)
(* C06, start-up: "... the connection is diverted to the proxy listener AND *)
(* a record keyed by the connection's local source port states ..." holds   *)
(* for every connect, also for the ones made while the redirector starts,   *)
(* fails to start, retries, or closes.                                      *)
(*                                                                          *)
(* Two kernel hooks do the work of Ebpf.tla: cgroup/connect4 DIVERTS        *)
(* (Ebpf!Connect4) and the tcp_connect kprobe PUBLISHES the record          *)
(* (Ebpf!TcpConnect).  They are attached one after the other by             *)
(* Redirector::attach_bpf_prog; each attach may fail.  This module is the   *)
(* start-up around them, one action per step of Redirector::start_impl /    *)
(* start_internal:                                                          *)
(*   Attempt          a fresh object is loaded, its maps filled (at most    *)
(*                    MaxRetries attempts)                                  *)
(*   AttachPublish(ok), AttachDivert(ok)   in the order Order               *)
(*   DetachAll        the object of a failed attempt is dropped: every link *)
(*                    it holds goes away (then retry, or give up)           *)
(*   Close            redirector::close on a started redirector             *)
(*   ClientConnect    a client connect, between ANY two steps: diverted iff *)
(*                    the diverting hook is attached, recorded iff the      *)
(*                    publishing hook is (ghost `seen`)                     *)
(* A failed attach leaves what the attempt attached so far in force until   *)
(* the object is dropped (DetachAll is a step of its own).                  *)
(*                                                                          *)
(* Environment assumption: a connect is not in flight across an attach or   *)
(* detach step (the two hook points of one connect are microseconds apart;  *)
(* the clause concerns the window between the two ATTACHES, which is        *)
(* milliseconds -- or for ever when the second attach fails).               *)
(***************************************************************************)
EXTENDS Naturals, Sequences

CONSTANTS MaxRetries,   \* Redirector::MAX_RETRIES
          Order         \* the order of the two attaches in attach_bpf_prog: a permutation of <<"publish", "divert">>

VARIABLES pc,        \* "attempt" | "first" | "second" | "drop" | "started" | "failed" | "closed"
          tries,     \* attempts begun
          divert,    \* the diverting hook (cgroup/connect4) is attached
          publish,   \* the publishing hook (kprobe tcp_connect) is attached
          seen       \* ghost: outcomes of client connects so far
avars == <<pc, tries, divert, publish, seen>>

HeadOrder == <<"publish", "divert">>       \* attach_kprobe_program()?; then attach_cgroup_program(..)
SwappedOrder == <<"divert", "publish">>    \* the design variant that opens the window

AInit == pc = "attempt" /\ tries = 0 /\ divert = FALSE /\ publish = FALSE /\ seen = {}

Attempt == /\ pc = "attempt" /\ tries < MaxRetries
           /\ tries' = tries + 1 /\ pc' = "first"
           /\ UNCHANGED <<divert, publish, seen>>

Turn(hook) == (pc = "first" /\ Order[1] = hook) \/ (pc = "second" /\ Order[2] = hook)
After(ok) == IF ~ok THEN "drop" ELSE IF pc = "first" THEN "second" ELSE "started"

AttachPublish(ok) == /\ Turn("publish")
                     /\ publish' = (publish \/ ok) /\ pc' = After(ok)
                     /\ UNCHANGED <<tries, divert, seen>>

AttachDivert(ok) == /\ Turn("divert")
                    /\ divert' = (divert \/ ok) /\ pc' = After(ok)
                    /\ UNCHANGED <<tries, publish, seen>>

DetachAll == /\ pc = "drop"
             /\ divert' = FALSE /\ publish' = FALSE
             /\ pc' = IF tries < MaxRetries THEN "attempt" ELSE "failed"
             /\ UNCHANGED <<tries, seen>>

Close == /\ pc = "started"
         /\ divert' = FALSE /\ publish' = FALSE /\ pc' = "closed"
         /\ UNCHANGED <<tries, seen>>

\* a client (not the agent) connects to a listed address
ClientConnect == /\ seen' = seen \cup {[diverted |-> divert, recorded |-> publish]}
                 /\ UNCHANGED <<pc, tries, divert, publish>>

ANext == Attempt \/ (\E ok \in BOOLEAN : AttachPublish(ok) \/ AttachDivert(ok)) \/ DetachAll \/ Close \/ ClientConnect
ASpec == AInit /\ [][ANext]_avars

\* C06 at start-up: a diverted connect always gets its record ...
NoUnrecordedDiversion == \A o \in seen : o.diverted => o.recorded
\* ... which, connects being possible between any two steps, is this state invariant
NeverDivertUnpublished == divert => publish

TypeOK == /\ pc \in {"attempt", "first", "second", "drop", "started", "failed", "closed"}
          /\ tries \in 0..MaxRetries /\ divert \in BOOLEAN /\ publish \in BOOLEAN
=============================================================================
