------------------------------ MODULE Lifecycle ------------------------------
(***************************************************************************)
(* X03_LIFECYCLE -- start-up and shut-down of the agent's modules.         *)
(*                                                                         *)
(* Growth of the specification beyond the 20 listed properties (DESIGN §5, *)
(* Appendix B.7).  Code: proxy_agent/src/service.rs (start_service: three  *)
(* tokio::spawn; stop_service: cancel the token, spawn redirector::close), *)
(* proxy/proxy_server.rs (ProxyServer::start, start_listener_with_retry),  *)
(* redirector.rs (Redirector::start / start_impl / start_internal, close,  *)
(* lookup_audit), key_keeper.rs (module state only: RUNNING at the start   *)
(* of loop_poll, STOPPED in the cancellation arm of the select!),          *)
(* shared_state/agent_status_wrapper.rs (the status actor: ONE mailbox,    *)
(* first in first out, one message handled at a time), provision.rs        *)
(* (listener_started / redirector_ready -> update_one_state).              *)
(*                                                                         *)
(* Shape: ONE ACTION PER bind attempt / retry sleep / message SENT to the  *)
(* status actor / message HANDLED by it / provision report / cancellation  *)
(* / step of close.  Four clients of the status actor run concurrently:    *)
(*   ps  ProxyServer::start        rd  Redirector::start                   *)
(*   kk  KeyKeeper::poll_secure_channel_status      cl  redirector::close  *)
(* A client call is two steps: the send (the message enters the mailbox,   *)
(* mpsc capacity 100: never blocks here) and the wait for the oneshot      *)
(* reply, which is given when the actor handles the message.  When the     *)
(* select! of the key keeper drops loop_poll, a message already sent stays *)
(* in the mailbox (its reply goes nowhere).                                *)
(* The environment chooses: the port answers AddrInUse to the first busyK  *)
(* bind attempts (busyK >= RetryCount + 1: to all of them); attempt errAt  *)
(* gets another error (0: none); the first rdFailJ calls of start_internal *)
(* fail (>= MaxRetries: all); when (if ever) stop_service is called; when  *)
(* clients connect.  Tasks are spawned: each may take its first step at    *)
(* any time, also after stop_service ("a start after the stop").           *)
(*                                                                         *)
(* PROPERTIES (new; what the code really guarantees, stated conservatively)*)
(*  L1 ListenerRunningOnlyAfterBind   ProxyServer state RUNNING => a bind  *)
(*       succeeded and the socket is still listening (the STOPPED of the   *)
(*       cancellation arm has not been handled).                           *)
(*  L2 ListenerFailureIsReported      start returned without a listener => *)
(*       state STOPPED, message = the bind error, the warning event was    *)
(*       written, LISTENER_READY never reported; and under fairness: every *)
(*       attempt failing leads to that (AllBindsFailLeadsToReport).        *)
(*  L3 BindAttemptsBounded            at most RetryCount + 1 (= 6) binds;  *)
(*       BindFollowsSleep: every attempt but the first directly follows    *)
(*       the end of one retry sleep (1 s) that followed an AddrInUse;      *)
(*       OtherErrorFailsAtOnce: no attempt after a non-AddrInUse error or  *)
(*       after a success; GivesUpOnlyAfterAllRetries: a failure whose      *)
(*       errors were all AddrInUse was reported after exactly 6 attempts.  *)
(*  L4 ProvisionFlagOnlyAfterRunning  LISTENER_READY (REDIRECTOR_READY) in *)
(*       the provision flags => the status actor has handled that module's *)
(*       SetState(RUNNING) before; LISTENER_READY => a bind succeeded.     *)
(*  L5 RedirectorRetriesBounded       at most MaxRetries (= 5) calls of    *)
(*       start_internal; RedirectorMessageNamesLastError: between the      *)
(*       reply to the error message of call n and the next message of the  *)
(*       redirector the module message is the error of call n; after five  *)
(*       failures the state was never set RUNNING by the redirector, the   *)
(*       flag is not reported, the message is the fifth error.             *)
(*     (The failure path sets NO state: the module stays UNKNOWN with an   *)
(*      error message -- unlike the listener, which reports STOPPED.)      *)
(*  L6 RedirectorRunningHasBpf        while stop_service has not been      *)
(*       called: Redirector RUNNING => the bpf object is in the shared     *)
(*       state (update_bpf_object precedes SetState).                      *)
(*  L7 StopStopsListenerAndKeyKeeper  (liveness, weak fairness of every    *)
(*       task and of the actor) after stop_service the ProxyServer and the *)
(*       KeyKeeper states are eventually STOPPED for ever; NoAcceptAfter-  *)
(*       CancelProcessed: no connection is accepted once the listener took *)
(*       the cancellation arm, and once start returned the socket is       *)
(*       closed (connections are refused).                                 *)
(*  L8 NoRunningAfterStopped          ProxyServer, KeyKeeper: once the     *)
(*       actor handled the module's STOPPED the state is never RUNNING     *)
(*       again (first-in-first-out mailbox: a RUNNING orphaned by the      *)
(*       select! is handled before the STOPPED sent after it).             *)
(*  L9 RedirectorStopSticksIfStartFinished   Redirector::start returned    *)
(*       before stop_service was called => once close is done the state is *)
(*       STOPPED and the bpf object is cleared for ever (lookup_audit /    *)
(*       remove_audit answer NullBpfObject).                               *)
(*                                                                         *)
(* Stated NON-properties (each has a witness configuration mc/Lifecycle_w_**)
(* and, where the sandbox allows, is shown on the real code by             *)
(* checks/x03_lifecycle.py -- reported as finding candidates, never as     *)
(* verdicts):                                                              *)
(*  N1 NoListenerUpAfterCancel   start_listener_with_retry never looks at  *)
(*       the token: a stop during the retries (or before the task's first  *)
(*       step) is followed by bind, RUNNING, LISTENER_READY and only then  *)
(*       STOPPED.                                                          *)
(*  N2 NoAcceptAfterCancel       the accept loop's select! is unbiased: a  *)
(*       connection that is pending when the token is cancelled may still  *)
(*       be accepted and served.                                           *)
(*  N3 RedirectorStopSticks      Redirector::start never looks at the      *)
(*       token and close does not wait for it: a start_internal that       *)
(*       succeeds after close leaves state RUNNING, REDIRECTOR_READY set   *)
(*       and the bpf object (the attached programs) in place after the     *)
(*       stop -- while the listener it redirects to is gone.               *)
(*  N4 RedirectorRunningHasBpfAlways   with the same race RUNNING may be   *)
(*       published although close already cleared the bpf object.          *)
(***************************************************************************)
EXTENDS Naturals, Sequences, FiniteSets, TLC

CONSTANTS RetryCount,      \* 5     START_LISTENER_RETRY_COUNT
          MaxRetries,      \* 5     Redirector::MAX_RETRIES
          BusyChoices,     \* values of busyK explored (subset of 0..RetryCount+2)
          ErrAtChoices,    \* values of errAt explored (0 = no other error)
          RdFailChoices,   \* values of rdFailJ explored (subset of 0..MaxRetries+1)
          MaxConn,         \* clients that try to connect
          StartPs, StartRd, StartKk,   \* BOOLEAN: which tasks start_service spawned in this configuration
          StopAllowed      \* BOOLEAN: stop_service may be called

Modules == {"ProxyServer", "Redirector", "KeyKeeper"}
States  == {"UNKNOWN", "RUNNING", "STOPPED"}
Clients == {"ps", "rd", "kk", "cl"}

M(k, n) == [k |-> k, n |-> n]          \* a status message: kind + the number of the error it names
Unknown == M("unknown", 0)             \* "Status unknown."

VARIABLES
  busyK, errAt, rdFailJ,   \* the environment's choices (fixed by Init)
  cancelled,               \* the CancellationToken
  mq,                      \* the status actor's mailbox: Seq of [c, op, m, v]
  mstate, mmsg,            \* the status actor's locals
  replied,                 \* [Clients -> BOOLEAN]: the oneshot reply of the client's pending call has arrived
  prov,                    \* provision flags reported: subset of {"listener", "redirector"}
  bpf,                     \* "none" | "loaded": RedirectorSharedState's bpf object
  psPc, nbind, lastRes, sock, backlog, accepted, conns, refused,
  rdPc, rdCalls,
  kkPc,
  clPc,
  \* history (ghost) variables -- they never guard an action
  g

vars == <<busyK, errAt, rdFailJ, cancelled, mq, mstate, mmsg, replied, prov, bpf,
          psPc, nbind, lastRes, sock, backlog, accepted, conns, refused, rdPc, rdCalls, kkPc, clPc, g>>

G0 == [everBound |-> FALSE,                       \* a bind succeeded
       everRunning |-> [m \in Modules |-> FALSE],  \* the actor handled SetState(RUNNING, m)
       stoppedHandled |-> [m \in Modules |-> FALSE],\* the actor handled SetState(STOPPED, m)
       runAfterCancel |-> [m \in Modules |-> FALSE],\* ... RUNNING handled while the token was cancelled
       runAfterClose |-> FALSE,                    \* Redirector RUNNING handled after close's STOPPED
       psPrev |-> "none",                          \* the listener task's previous step
       psEvent |-> FALSE,                          \* the warning event of the failure path was written
       cancelSeen |-> FALSE,                       \* the accept loop took the cancellation arm
       accAfterSeen |-> FALSE,                     \* a connection was accepted after that
       accAfterCancel |-> FALSE,                   \* a connection was accepted after the token was cancelled
       onlyInUse |-> TRUE,                         \* every failed bind so far was AddrInUse
       rdDoneAtStop |-> FALSE]                     \* Redirector::start had returned when stop_service was called

Init ==
  /\ busyK \in BusyChoices /\ errAt \in ErrAtChoices /\ rdFailJ \in RdFailChoices
  /\ cancelled = FALSE /\ mq = <<>>
  /\ mstate = [m \in Modules |-> "UNKNOWN"] /\ mmsg = [m \in Modules |-> Unknown]
  /\ replied = [c \in Clients |-> FALSE]
  /\ prov = {} /\ bpf = "none"
  /\ psPc = (IF StartPs THEN "init" ELSE "off") /\ nbind = 0 /\ lastRes = "none" /\ sock = "none"
  /\ backlog = 0 /\ accepted = 0 /\ conns = 0 /\ refused = 0
  /\ rdPc = (IF StartRd THEN "init" ELSE "off") /\ rdCalls = 0
  /\ kkPc = (IF StartKk THEN "init" ELSE "off")
  /\ clPc = "idle"
  /\ g = G0

-----------------------------------------------------------------------------
\* the status actor
Msg(c, op, m, v) == [c |-> c, op |-> op, m |-> m, v |-> v]
Send(c, op, m, v) == /\ mq' = Append(mq, Msg(c, op, m, v))
                     /\ replied' = [replied EXCEPT ![c] = FALSE]

ActorHandle ==
  /\ mq # <<>>
  /\ LET h == Head(mq) IN
     /\ mq' = Tail(mq)
     /\ replied' = IF h.c \in Clients THEN [replied EXCEPT ![h.c] = TRUE] ELSE replied
     /\ CASE h.op = "state" ->
               /\ mstate' = [mstate EXCEPT ![h.m] = h.v] /\ UNCHANGED mmsg
               /\ g' = [g EXCEPT
                    !.everRunning[h.m] = @ \/ h.v = "RUNNING",
                    !.stoppedHandled[h.m] = @ \/ h.v = "STOPPED",
                    !.runAfterCancel[h.m] = @ \/ (h.v = "RUNNING" /\ cancelled),
                    !.runAfterClose = @ \/ (h.m = "Redirector" /\ h.v = "RUNNING" /\ g.stoppedHandled["Redirector"])]
          [] h.op = "msg" -> mmsg' = [mmsg EXCEPT ![h.m] = h.v] /\ UNCHANGED <<mstate, g>>
          [] OTHER -> UNCHANGED <<mstate, mmsg, g>>         \* "getmsg": a read
  /\ UNCHANGED <<busyK, errAt, rdFailJ, cancelled, prov, bpf, psPc, nbind, lastRes, sock, backlog, accepted, conns,
                 refused, rdPc, rdCalls, kkPc, clPc>>

-----------------------------------------------------------------------------
\* ProxyServer::start
BindResult(n) == IF n = errAt THEN "other" ELSE IF n <= busyK THEN "inuse" ELSE "ok"
PsFrame == UNCHANGED <<busyK, errAt, rdFailJ, cancelled, mstate, mmsg, bpf, rdPc, rdCalls, kkPc, clPc, conns, refused>>
PsStep(l) == g' = [g EXCEPT !.psPrev = l]

PsBegin ==      \* the spawned task runs: "Start proxy listener at ..."
  /\ psPc = "init" /\ psPc' = "bind" /\ PsStep("begin")
  /\ PsFrame /\ UNCHANGED <<mq, replied, prov, nbind, lastRes, sock, backlog, accepted>>

PsBind ==       \* TcpListener::bind(addr): attempts 1..RetryCount inside the loop, attempt RetryCount+1 after it
  /\ psPc = "bind"
  /\ LET n == nbind + 1
         r == BindResult(n) IN
     /\ nbind' = n /\ lastRes' = r
     /\ sock' = IF r = "ok" THEN "bound" ELSE sock
     /\ psPc' = CASE r = "ok" -> "s_msg"
                  [] r = "inuse" /\ n <= RetryCount -> "sleep"
                  [] OTHER -> "f_msg"
     /\ g' = [g EXCEPT !.psPrev = "bind", !.everBound = @ \/ r = "ok", !.onlyInUse = @ /\ r # "other"]
  /\ PsFrame /\ UNCHANGED <<mq, replied, prov, backlog, accepted>>

PsWake ==       \* tokio::time::sleep(START_LISTENER_RETRY_SLEEP_DURATION) is over
  /\ psPc = "sleep" /\ psPc' = "bind" /\ PsStep("wake")
  /\ PsFrame /\ UNCHANGED <<mq, replied, prov, nbind, lastRes, sock, backlog, accepted>>

\* failure path: message, STOPPED, warning event, return
PsFailMsg ==
  /\ psPc = "f_msg" /\ Send("ps", "msg", "ProxyServer", M("ps_bindfail", nbind)) /\ psPc' = "f_msg_w" /\ PsStep("f_msg")
  /\ PsFrame /\ UNCHANGED <<prov, nbind, lastRes, sock, backlog, accepted>>
PsFailState ==
  /\ psPc = "f_msg_w" /\ replied["ps"]
  /\ Send("ps", "state", "ProxyServer", "STOPPED") /\ psPc' = "f_state_w" /\ PsStep("f_state")
  /\ PsFrame /\ UNCHANGED <<prov, nbind, lastRes, sock, backlog, accepted>>
PsFailEvent ==
  /\ psPc = "f_state_w" /\ replied["ps"]
  /\ psPc' = "failed" /\ g' = [g EXCEPT !.psPrev = "f_event", !.psEvent = TRUE]
  /\ PsFrame /\ UNCHANGED <<mq, replied, prov, nbind, lastRes, sock, backlog, accepted>>

\* success path: startup event + message, RUNNING, provision::listener_started, accept loop
PsOkMsg ==
  /\ psPc = "s_msg" /\ Send("ps", "msg", "ProxyServer", M("ps_started", 0)) /\ psPc' = "s_msg_w" /\ PsStep("s_msg")
  /\ PsFrame /\ UNCHANGED <<prov, nbind, lastRes, sock, backlog, accepted>>
PsOkState ==
  /\ psPc = "s_msg_w" /\ replied["ps"]
  /\ Send("ps", "state", "ProxyServer", "RUNNING") /\ psPc' = "s_state_w" /\ PsStep("s_state")
  /\ PsFrame /\ UNCHANGED <<prov, nbind, lastRes, sock, backlog, accepted>>
PsReport ==     \* the provision actor handles UpdateOneState(LISTENER_READY)
  /\ psPc = "s_state_w" /\ replied["ps"]
  /\ prov' = prov \cup {"listener"} /\ psPc' = "loop" /\ PsStep("report")
  /\ PsFrame /\ UNCHANGED <<mq, replied, nbind, lastRes, sock, backlog, accepted>>
PsAccept ==     \* select!: listener.accept() arm (handle_new_tcp_connection, abstracted to one step)
  /\ psPc = "loop" /\ backlog > 0
  /\ backlog' = backlog - 1 /\ accepted' = accepted + 1
  /\ g' = [g EXCEPT !.psPrev = "accept", !.accAfterSeen = @ \/ g.cancelSeen, !.accAfterCancel = @ \/ cancelled]
  /\ PsFrame /\ UNCHANGED <<mq, replied, prov, psPc, nbind, lastRes, sock>>
PsSeeCancel ==  \* select!: cancellation_token.cancelled() arm
  /\ psPc = "loop" /\ cancelled
  /\ Send("ps", "state", "ProxyServer", "STOPPED") /\ psPc' = "x_state_w"
  /\ g' = [g EXCEPT !.psPrev = "seecancel", !.cancelSeen = TRUE]
  /\ PsFrame /\ UNCHANGED <<prov, nbind, lastRes, sock, backlog, accepted>>
PsReturn ==     \* start returns: the TcpListener is dropped
  /\ psPc = "x_state_w" /\ replied["ps"]
  /\ psPc' = "returned" /\ sock' = "closed" /\ backlog' = 0 /\ PsStep("return")
  /\ PsFrame /\ UNCHANGED <<mq, replied, prov, nbind, lastRes, accepted>>

PsNext == PsBegin \/ PsBind \/ PsWake \/ PsFailMsg \/ PsFailState \/ PsFailEvent \/ PsOkMsg \/ PsOkState \/ PsReport
          \/ PsAccept \/ PsSeeCancel \/ PsReturn

\* a client of the proxy: the kernel completes the handshake while the socket listens, refuses otherwise
Connect ==
  /\ conns < MaxConn /\ conns' = conns + 1
  /\ IF sock = "bound" THEN backlog' = backlog + 1 /\ UNCHANGED refused
                       ELSE refused' = refused + 1 /\ UNCHANGED backlog
  /\ UNCHANGED <<busyK, errAt, rdFailJ, cancelled, mq, mstate, mmsg, replied, prov, bpf, psPc, nbind, lastRes, sock,
                 accepted, rdPc, rdCalls, kkPc, clPc, g>>

-----------------------------------------------------------------------------
\* Redirector::start
RdFrame == UNCHANGED <<busyK, errAt, rdFailJ, cancelled, mstate, mmsg, psPc, nbind, lastRes, sock, backlog, accepted,
                       conns, refused, kkPc, clPc, g>>
RdBegin ==      \* "eBPF redirector is starting"
  /\ rdPc = "init" /\ Send("rd", "msg", "Redirector", M("rd_starting", 0)) /\ rdPc' = "m0_w"
  /\ RdFrame /\ UNCHANGED <<prov, bpf, rdCalls>>
RdCall ==       \* start_impl's loop calls start_internal (load, maps, attach): it fails or gets as far as the shared state
  /\ rdPc \in {"m0_w", "try"} /\ (rdPc = "m0_w" => replied["rd"])
  /\ rdCalls' = rdCalls + 1
  /\ IF rdCalls + 1 <= rdFailJ
       THEN /\ Send("rd", "msg", "Redirector", M("rd_err", rdCalls + 1)) /\ rdPc' = "e_w"     \* set_error_status
       ELSE /\ rdPc' = "ok_bpf" /\ UNCHANGED <<mq, replied>>
  /\ RdFrame /\ UNCHANGED <<prov, bpf>>
RdSleep ==      \* the reply to the error message arrived: sleep RETRY_INTERVAL_MS
  /\ rdPc = "e_w" /\ replied["rd"] /\ rdPc' = "rsleep"
  /\ RdFrame /\ UNCHANGED <<mq, replied, prov, bpf, rdCalls>>
RdWake ==       \* next iteration, or start_impl gives up: Err(FailedToStartRedirector)
  /\ rdPc = "rsleep" /\ rdPc' = (IF rdCalls < MaxRetries THEN "try" ELSE "ev_get")
  /\ RdFrame /\ UNCHANGED <<mq, replied, prov, bpf, rdCalls>>
RdUpdateBpf ==  \* redirector_shared_state.update_bpf_object (+ set_local_port)
  /\ rdPc = "ok_bpf" /\ bpf' = "loaded" /\ rdPc' = "ok_msg"
  /\ RdFrame /\ UNCHANGED <<mq, replied, prov, rdCalls>>
RdOkMsg ==
  /\ rdPc = "ok_msg" /\ Send("rd", "msg", "Redirector", M("rd_started", 0)) /\ rdPc' = "ok_msg_w"
  /\ RdFrame /\ UNCHANGED <<prov, bpf, rdCalls>>
RdOkState ==
  /\ rdPc = "ok_msg_w" /\ replied["rd"]
  /\ Send("rd", "state", "Redirector", "RUNNING") /\ rdPc' = "ok_state_w"
  /\ RdFrame /\ UNCHANGED <<prov, bpf, rdCalls>>
RdReport ==     \* provision::redirector_ready
  /\ rdPc = "ok_state_w" /\ replied["rd"]
  /\ prov' = prov \cup {"redirector"} /\ rdPc' = "ev_get"
  /\ RdFrame /\ UNCHANGED <<mq, replied, bpf, rdCalls>>
RdGetMsg ==     \* get_status_message for the start event
  /\ rdPc = "ev_get" /\ Send("rd", "getmsg", "Redirector", Unknown) /\ rdPc' = "ev_w"
  /\ RdFrame /\ UNCHANGED <<prov, bpf, rdCalls>>
RdEvent ==      \* event written: start returns
  /\ rdPc = "ev_w" /\ replied["rd"] /\ rdPc' = "done"
  /\ RdFrame /\ UNCHANGED <<mq, replied, prov, bpf, rdCalls>>

RdNext == RdBegin \/ RdCall \/ RdSleep \/ RdWake \/ RdUpdateBpf \/ RdOkMsg \/ RdOkState \/ RdReport \/ RdGetMsg \/ RdEvent

-----------------------------------------------------------------------------
\* KeyKeeper::poll_secure_channel_status, as far as the module state goes
KkFrame == UNCHANGED <<busyK, errAt, rdFailJ, cancelled, mstate, mmsg, prov, bpf, psPc, nbind, lastRes, sock, backlog,
                       accepted, conns, refused, rdPc, rdCalls, clPc, g>>
KkInSelect == kkPc \in {"select", "run_w", "poll", "p_w", "psleep"}
KkBegin ==      \* "poll secure channel status task started."
  /\ kkPc = "init" /\ Send("kk", "msg", "KeyKeeper", M("kk_started", 0)) /\ kkPc' = "k0_w" /\ KkFrame
KkSelect ==     \* key folder, acl; enters the select!
  /\ kkPc = "k0_w" /\ replied["kk"] /\ kkPc' = "select" /\ KkFrame /\ UNCHANGED <<mq, replied>>
KkRun ==        \* loop_poll: set_module_state(RUNNING)
  /\ kkPc = "select" /\ Send("kk", "state", "KeyKeeper", "RUNNING") /\ kkPc' = "run_w" /\ KkFrame
KkPoll ==       \* one iteration: the status request (fails here: no host) -> status message
  /\ kkPc \in {"run_w", "poll"} /\ (kkPc = "run_w" => replied["kk"])
  /\ Send("kk", "msg", "KeyKeeper", M("kk_poll", 0)) /\ kkPc' = "p_w" /\ KkFrame
KkPollSleep == /\ kkPc = "p_w" /\ replied["kk"] /\ kkPc' = "psleep" /\ KkFrame /\ UNCHANGED <<mq, replied>>
KkPollWake ==  /\ kkPc = "psleep" /\ kkPc' = "poll" /\ KkFrame /\ UNCHANGED <<mq, replied>>
KkCancel ==     \* select!: the cancellation arm wins; loop_poll is dropped where it stands -- a message it has sent
                \* stays in the mailbox, its reply goes nowhere.  "... task cancelled." then stop()
  /\ KkInSelect /\ cancelled
  /\ mq' = Append([i \in DOMAIN mq |-> IF mq[i].c = "kk" THEN [mq[i] EXCEPT !.c = "orphan"] ELSE mq[i]],
                  Msg("kk", "msg", "KeyKeeper", M("kk_cancelled", 0)))
  /\ replied' = [replied EXCEPT !["kk"] = FALSE]
  /\ kkPc' = "c_msg_w" /\ KkFrame
KkStop ==       \* stop(): set_module_state(STOPPED)
  /\ kkPc = "c_msg_w" /\ replied["kk"]
  /\ Send("kk", "state", "KeyKeeper", "STOPPED") /\ kkPc' = "c_state_w" /\ KkFrame
KkReturn ==    /\ kkPc = "c_state_w" /\ replied["kk"] /\ kkPc' = "done" /\ KkFrame /\ UNCHANGED <<mq, replied>>

KkNext == KkBegin \/ KkSelect \/ KkRun \/ KkPoll \/ KkPollSleep \/ KkPollWake \/ KkCancel \/ KkStop \/ KkReturn

-----------------------------------------------------------------------------
\* service::stop_service and the close task it spawns
ClFrame == UNCHANGED <<busyK, errAt, rdFailJ, mstate, mmsg, prov, psPc, nbind, lastRes, sock, backlog, accepted, conns,
                       refused, rdPc, rdCalls, kkPc>>
StopService ==  \* cancel_cancellation_token(); tokio::spawn(redirector::close(..)); event_logger::stop()
  /\ StopAllowed /\ clPc = "idle"
  /\ cancelled' = TRUE /\ clPc' = "c_state"
  /\ g' = [g EXCEPT !.rdDoneAtStop = rdPc \in {"done", "off"}]
  /\ ClFrame /\ UNCHANGED <<mq, replied, bpf>>
ClState ==      \* close: set_module_state(STOPPED, Redirector)
  /\ clPc = "c_state" /\ Send("cl", "state", "Redirector", "STOPPED") /\ clPc' = "c_state_w"
  /\ ClFrame /\ UNCHANGED <<cancelled, bpf, g>>
ClClear ==      \* close: clear_bpf_object
  /\ clPc = "c_state_w" /\ replied["cl"] /\ bpf' = "none" /\ clPc' = "done"
  /\ ClFrame /\ UNCHANGED <<cancelled, mq, replied, g>>

ClNext == StopService \/ ClState \/ ClClear

-----------------------------------------------------------------------------
Next == ActorHandle \/ PsNext \/ Connect \/ RdNext \/ KkNext \/ ClNext
Spec == Init /\ [][Next]_vars
\* every task and the actor keep running; the environment (StopService, Connect) owes nothing
FairSpec == Spec /\ WF_vars(ActorHandle) /\ WF_vars(PsBegin \/ PsBind \/ PsWake \/ PsFailMsg \/ PsFailState \/ PsFailEvent
                                                    \/ PsOkMsg \/ PsOkState \/ PsReport \/ PsReturn)
                 /\ WF_vars(PsSeeCancel) /\ WF_vars(RdNext)
                 /\ WF_vars(KkBegin \/ KkSelect \/ KkStop \/ KkReturn) /\ WF_vars(KkCancel)
                 /\ WF_vars(ClState \/ ClClear)

-----------------------------------------------------------------------------
\* properties
PsPcs == {"off", "init", "bind", "sleep", "f_msg", "f_msg_w", "f_state_w", "failed", "s_msg", "s_msg_w", "s_state_w", "loop",
          "x_state_w", "returned"}
RdPcs == {"off", "init", "m0_w", "try", "e_w", "rsleep", "ok_bpf", "ok_msg", "ok_msg_w", "ok_state_w", "ev_get", "ev_w", "done"}
KkPcs == {"off", "init", "k0_w", "select", "run_w", "poll", "p_w", "psleep", "c_msg_w", "c_state_w", "done"}
TypeOK ==
  /\ busyK \in Nat /\ errAt \in Nat /\ rdFailJ \in Nat /\ cancelled \in BOOLEAN
  /\ mstate \in [Modules -> States] /\ replied \in [Clients -> BOOLEAN]
  /\ \A i \in DOMAIN mq : mq[i].c \in Clients \cup {"orphan"} /\ mq[i].op \in {"state", "msg", "getmsg"} /\ mq[i].m \in Modules
  /\ Len(mq) <= 6
  /\ prov \subseteq {"listener", "redirector"} /\ bpf \in {"none", "loaded"}
  /\ psPc \in PsPcs /\ rdPc \in RdPcs /\ kkPc \in KkPcs /\ clPc \in {"idle", "c_state", "c_state_w", "done"}
  /\ sock \in {"none", "bound", "closed"} /\ lastRes \in {"none", "ok", "inuse", "other"}
  /\ nbind \in 0..(RetryCount + 1) /\ rdCalls \in 0..MaxRetries
  /\ backlog + accepted + refused <= conns /\ conns <= MaxConn

\* L1
ListenerRunningOnlyAfterBind ==
  mstate["ProxyServer"] = "RUNNING" => g.everBound /\ sock = "bound" /\ ~g.stoppedHandled["ProxyServer"]
\* L2
ListenerFailureIsReported ==
  psPc = "failed" => /\ mstate["ProxyServer"] = "STOPPED" /\ mmsg["ProxyServer"] = M("ps_bindfail", nbind)
                     /\ g.psEvent /\ "listener" \notin prov /\ ~g.everBound /\ ~g.everRunning["ProxyServer"]
AllBindsFail == errAt \in 1..(busyK + 1) \/ busyK >= RetryCount + 1
AllBindsFailLeadsToReport == (StartPs /\ AllBindsFail) => <>[](psPc = "failed")
BindSucceedsLeadsToRunning == (StartPs /\ ~AllBindsFail) => <>(g.everRunning["ProxyServer"] /\ "listener" \in prov)
\* L3
BindAttemptsBounded == nbind <= RetryCount + 1
BindFollowsSleep == [][(nbind' > nbind /\ nbind > 0) => g.psPrev = "wake" /\ lastRes = "inuse"]_vars
OtherErrorFailsAtOnce == [][(lastRes \in {"other", "ok"}) => nbind' = nbind]_vars
GivesUpOnlyAfterAllRetries == (psPc \in {"f_msg", "f_msg_w", "f_state_w", "failed"} /\ g.onlyInUse) => nbind = RetryCount + 1
\* L4
ProvisionFlagOnlyAfterRunning ==
  /\ "listener" \in prov => g.everRunning["ProxyServer"] /\ g.everBound
  /\ "redirector" \in prov => g.everRunning["Redirector"]
\* L5
RedirectorRetriesBounded == rdCalls <= MaxRetries
RedirectorMessageNamesLastError == rdPc = "rsleep" => mmsg["Redirector"] = M("rd_err", rdCalls)
RedirectorFailureIsReported ==
  (rdPc \in {"ev_get", "ev_w", "done"} /\ rdFailJ >= MaxRetries) =>
     /\ rdCalls = MaxRetries /\ mmsg["Redirector"] = M("rd_err", MaxRetries)
     /\ ~g.everRunning["Redirector"] /\ "redirector" \notin prov /\ bpf = "none"
     /\ mstate["Redirector"] \in {"UNKNOWN", "STOPPED"}        \* STOPPED only through close
RedirectorFailureLeavesUnknown == (rdFailJ >= MaxRetries /\ clPc = "idle") => mstate["Redirector"] = "UNKNOWN"
RedirectorStartTerminates == StartRd => <>[](rdPc = "done")
\* L6
RedirectorRunningHasBpf == (mstate["Redirector"] = "RUNNING" /\ ~cancelled) => bpf = "loaded"
\* L7
NoAcceptAfterCancelProcessed == ~g.accAfterSeen
ClosedSocketRefuses == sock = "closed" => backlog = 0 /\ psPc = "returned"
StopStopsListenerAndKeyKeeper ==
  [](cancelled => <>[](/\ StartPs => mstate["ProxyServer"] = "STOPPED" /\ psPc \in {"failed", "returned"}
                       /\ StartKk => mstate["KeyKeeper"] = "STOPPED" /\ kkPc = "done"
                       /\ clPc = "done"))
\* L8
NoRunningAfterStopped == \A m \in {"ProxyServer", "KeyKeeper"} : g.stoppedHandled[m] => mstate[m] = "STOPPED"
\* L9
RedirectorStopSticksIfStartFinished ==
  (g.rdDoneAtStop /\ clPc = "done") => mstate["Redirector"] = "STOPPED" /\ bpf = "none"
NullBpfAfterFailedStartAndClose == (rdFailJ >= MaxRetries) => bpf = "none"

\* the stated non-properties (witness configurations: TLC must find a counterexample to each)
N1_NoListenerUpAfterCancel == ~g.runAfterCancel["ProxyServer"]
N1b_NoLateProvisionReport == [][(cancelled) => prov' = prov]_vars
N2_NoAcceptAfterCancel == ~g.accAfterCancel
N3_RedirectorStopSticks == (clPc = "done" /\ rdPc = "done") => (mstate["Redirector"] = "STOPPED" /\ bpf = "none")
N4_RedirectorRunningHasBpfAlways == mstate["Redirector"] = "RUNNING" => bpf = "loaded"
=============================================================================
