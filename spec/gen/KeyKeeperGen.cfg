SPECIFICATION GSpec
CONSTANTS
  Guids = {"g1", "g2", "g3", "g4", "g5", "g6", "g7", "g8"}
  RuleIds = {"", "r0", "r1", "r2", "r3"}
  Contents = {"c1", "c2", "c3"}
  Versions = {"1.0", "2.0"}
  ModeOf <- GModeOf
  RulesKey = "item"
  IdsIdentifyContent = FALSE
  IncOf <- ZeroInc
  StatusInc = 0
  SearchOnlyWhenEmpty = FALSE
  HostSpellsOddly = FALSE
  FetchCanonicalises = FALSE
  PrunesOnStart = FALSE
  MaxKept = 1
  LocalNeedsIncarnationMatch = FALSE
  KeepHigherIncarnation = FALSE
  ReuseUnattested = FALSE
  ReadBackFailOpen = FALSE
  StateEarly = FALSE
  InitScenarios = {"fresh"}
  InitDocs = {}
  MaxReconf = 1000000
  MaxFaults = 1000000
  MaxCrash = 1000000
  MaxDamage = 0
  MaxNotify = 1000000
  FsFaults = FALSE
  AcquireMayRepeat = TRUE
CHECK_DEADLOCK FALSE
