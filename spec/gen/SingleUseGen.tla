---------------------------- MODULE SingleUseGen ----------------------------
(***************************************************************************)
(* C07 history generator: the accept path of Proxy.tla (ClientConnect,      *)
(* AcceptLookup + AcceptRemove, requests, Close) for two connection slots   *)
(* over two source ports, with a history variable; every history of up to   *)
(* MaxOps operations is printed with the attribution each request must be   *)
(* evaluated with (the record the kernel wrote for that very connection, or *)
(* none => 421).  Accept is atomic here because the replay waits for the    *)
(* accept to finish before the next operation; concurrent accepts are       *)
(* explored by mc/Proxy_two.cfg and by the stress run.                      *)
(***************************************************************************)
EXTENDS Naturals, Sequences, TLC, Json

CONSTANTS MaxOps
Slots == {"a", "b"}
Ports == {"p", "q"}
Idents == {"rootws", "userimds", "rootdead"}   \* root -> WireServer, user -> IMDS, root -> a destination nobody listens on

VARIABLES audit, conn, hist
vars == <<audit, conn, hist>>

Init == audit = [p \in Ports |-> "none"] /\ conn = [s \in Slots |-> [open |-> FALSE, port |-> "p", attr |-> "none"]]
        /\ hist = <<>>

PortFree(p) == \A s \in Slots : ~conn[s].open \/ conn[s].port # p

\* connect + accept: the kernel record (if any) is published, looked up and consumed
Connect(s, p, id) ==
  /\ ~conn[s].open /\ PortFree(p) /\ Len(hist) < MaxOps
  /\ LET a1 == IF id # "none" THEN [audit EXCEPT ![p] = id] ELSE audit IN
     /\ conn' = [conn EXCEPT ![s] = [open |-> TRUE, port |-> p, attr |-> a1[p]]]
     /\ audit' = [a1 EXCEPT ![p] = "none"]
  /\ hist' = Append(hist, [op |-> "conn", slot |-> s, port |-> p, id |-> id, expect |-> "none"])

Request(s) ==
  /\ conn[s].open /\ Len(hist) < MaxOps
  /\ hist' = Append(hist, [op |-> "req", slot |-> s, port |-> conn[s].port, id |-> "none", expect |-> conn[s].attr])
  /\ UNCHANGED <<audit, conn>>

Close(s) ==
  /\ conn[s].open /\ Len(hist) < MaxOps
  /\ conn' = [conn EXCEPT ![s].open = FALSE]
  /\ hist' = Append(hist, [op |-> "close", slot |-> s, port |-> conn[s].port, id |-> "none", expect |-> "none"])
  /\ UNCHANGED audit

Next == \E s \in Slots : (\E p \in Ports, id \in Idents \cup {"none"} : Connect(s, p, id)) \/ Request(s) \/ Close(s)
Spec == Init /\ [][Next]_vars

\* single use: the record is consumed by the accept; nothing is left for a later connection on the same port
Consumed == \A p \in Ports : audit[p] = "none"
Emit == (Len(hist) = MaxOps /\ \E i \in 1..Len(hist) : hist[i].op = "req") => PrintT(<<"HIST", ToJson(hist)>>)
=============================================================================
