SPECIFICATION GSpec
CONSTANTS
  Names = {"a", "b"}
  Depth = 2
  MaxMounts = 3
  Pick = "first"
CHECK_DEADLOCK FALSE
