------------------------------ MODULE ProxyGen ------------------------------
(***************************************************************************)
(* Scenario generator for the single-connection configuration of Proxy.tla: *)
(* the environment (rules, key, fault) moves only before the connection is  *)
(* made, then one request runs through the pipeline.  Every terminal state  *)
(* is printed as one case: what the environment looked like, what the       *)
(* kernel recorded, the request shape and the outcome the spec prescribes.  *)
(***************************************************************************)
EXTENDS MC_Proxy, Json

\* every scenario is an initial state: the environment is set, the connect has happened (record published or not)
GenInit ==
  \E own \in {NoAttr} \cup {Attr(i, d) : i \in Ident, d \in DestSet}, rm \in A!RuleModes, fl \in BOOLEAN,
     k \in {"nokey"} \cup Keys :
    /\ audit = [p \in Port |-> own]
    /\ conn = [c \in Conn |-> [st |-> "syn", port |-> "p1", attr |-> NoAttr, own |-> own]]
    /\ rules = [e \in Eps |-> IF own.has /\ own.dest = e THEN rm ELSE "none"]
    /\ (~(own.has /\ A!RulesApply(own.dest)) => (rm = "none" /\ ~fl))   \* irrelevant dimensions collapsed
    /\ fault = fl
    /\ key = k
    /\ req = [c \in Conn |-> NoReq]
    /\ nreq = [c \in Conn |-> 0]
    /\ upstream = {} /\ out = [c \in Conn |-> <<>>] /\ failed = 0 /\ env = 0 /\ nconn = 1
GenSpec == GenInit /\ [][Next]_vars

Terminal == Len(out["c1"]) = 1 /\ conn["c1"].st = "accepted"
Up == IF upstream = {} THEN [signed |-> FALSE, rulesRead |-> "none", az |-> "none"]
      ELSE LET u == CHOOSE x \in upstream : TRUE IN [signed |-> u.signed, rulesRead |-> u.rulesRead, az |-> u.az]
EmitCase ==
  Terminal => PrintT(<<"CASE", ToJson([own |-> conn["c1"].own, shape |-> out["c1"][1].shape,
                                        rules |-> rules, fault |-> fault, key |-> key,
                                        status |-> out["c1"][1].status, forwarded |-> out["c1"][1].forwarded,
                                        failed |-> failed, up |-> Up])>>)
=============================================================================
