SPECIFICATION GSpec
CONSTANTS
  MaxClock = 1
  MaxKK = 2
  MaxRd = 1
  NQ = 0
  MaxPolls = 1
  MaxLatch = 0
  FileSteps = TRUE
  QKinds = {}
  Fix = {}
  KKOps = {"U", "T"}
VIEW gview
INVARIANTS PrintCexI
CONSTRAINT StopI
CHECK_DEADLOCK FALSE
