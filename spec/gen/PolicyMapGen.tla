---------------------------- MODULE PolicyMapGen ----------------------------
(***************************************************************************)
(* Generator of redirect-policy histories (C06/C09, replayed on the REAL    *)
(* policy_map by checks/realmaps.py).  Two shapes:                          *)
(*  "free"   every sequence of MaxOps single instructions (endpoint, on/off)*)
(*  "keeper" every sequence of MaxOps secure-channel state changes the way  *)
(*           KeyKeeper.tla's Policy_ws -> Policy_imds -> Policy_ga applies  *)
(*           them: wireserver, imds, hostga in that order, hostga follows   *)
(*           the wireserver mode (KeyKeeper!Mode)                           *)
(* from each start set (what start_internal listed).  Every step carries the*)
(* set of endpoints the specification lists afterwards; MapAsInstructed is  *)
(* checked in every state.  Printed once per maximal history:               *)
(* <<"POLHIST", [start |-> S, steps |-> <<[ep, on, after], ..>>]>>          *)
(***************************************************************************)
EXTENDS PolicyMap, Json

CONSTANTS MaxOps, Shape, StartSets
VARIABLES hist, todo, nch
gvars == <<vars, want, hist, todo, nch>>

PM_StartsAll == {EpNames}
PM_StartsFree == {EpNames, {}}
\* start_internal: WireServer / IMDS unless their rules are disabled at start; HostGAPlugin whenever it is supported
PM_StartsKeeper == {{"ga"} \cup S : S \in SUBSET {"ws", "imds"}}

GInit == /\ \E S \in StartSets : Started(S) /\ hist = << [ep |-> "start", on |-> TRUE, after |-> S] >>
         /\ todo = <<>> /\ nch = 0

Do(e, on) == /\ Instruct(e, on)
             /\ hist' = Append(hist, [ep |-> e, on |-> on, after |-> {x \in EpNames : EpKey(x) \in DOMAIN policy'}])

GFree == /\ Shape = "free" /\ nch < MaxOps
         /\ \E e \in EpNames, on \in BOOLEAN : Do(e, on)
         /\ nch' = nch + 1 /\ UNCHANGED todo

GChange == /\ Shape = "keeper" /\ todo = <<>> /\ nch < MaxOps
           /\ \E w \in BOOLEAN, i \in BOOLEAN :
                /\ Do("ws", w)
                /\ todo' = << [ep |-> "imds", on |-> i], [ep |-> "ga", on |-> w] >>
           /\ nch' = nch + 1

GCont == /\ todo # <<>>
         /\ Do(Head(todo).ep, Head(todo).on)
         /\ todo' = Tail(todo) /\ UNCHANGED nch

GNext == GFree \/ GChange \/ GCont
GSpec == GInit /\ [][GNext]_gvars

Emit == (nch = MaxOps /\ todo = <<>>) =>
          PrintT(<<"POLHIST", ToJson([start |-> hist[1].after, steps |-> SubSeq(hist, 2, Len(hist))])>>)
=============================================================================
