SPECIFICATION Spec
CONSTANTS
  Key = {"k1", "k2"}
  Val = {"a", "b"}
  RateMax = 120
ACTION_CONSTRAINT EdgeOut
CHECK_DEADLOCK FALSE
