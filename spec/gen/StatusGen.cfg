SPECIFICATION GSpec
CONSTANTS
  ConnKeys = {"k1", "k2", "k3", "k4", "k5", "k6"}
  FailKeys = {"k1", "k2", "k3", "k4", "k5", "k6"}
  Msgs <- McNoMsgs
  MaxMsg = 1024
  EventAfter = 900
  ClearAfter = 86400
  MaxCount = 1000000
  MaxHttp = 1000000
  MaxTcp = 1000000
  Ticks = FALSE
  EnvStateModules <- McNone
  EnvMsgModules <- McNone
  IoFaults = TRUE
  MaxCrash = 1000000
  TrackInstants = FALSE
  TopN = 10
CHECK_DEADLOCK FALSE
