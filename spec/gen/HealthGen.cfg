SPECIFICATION Spec
CONSTANTS
  Threshold = 20
  MaxCount = 10000
  GhostCap = 10010
ACTION_CONSTRAINT EdgeOut
CHECK_DEADLOCK FALSE
