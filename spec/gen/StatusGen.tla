----------------------------- MODULE StatusGen -----------------------------
(***************************************************************************)
(* S->I generator for Status.tla.  The environment's choices come from a   *)
(* script (ndjson, IOEnv.SCRIPT, written by checks/x01_status.py: seeded   *)
(* random and enumerated lock-step histories); the actor's and the status  *)
(* task's steps are the actions of Status.tla UNCHANGED.  In a lock-step   *)
(* history the environment acts only while the task sleeps, and "tick"     *)
(* lets exactly one iteration run (Wake ... ClearCheck).  At the end of    *)
(* every iteration the state the specification prescribes is printed       *)
(* (<<"EXPECT", json>>): the published document (or that none was          *)
(* published), the status event, whether the bags were cleared.  The check *)
(* replays the same script on the real actor + ProxyAgentStatusTask and    *)
(* compares observation by observation.                                    *)
(* Rows: {"e":"run"} {"e":"restart"} {"e":"tick"} {"e":"adv","secs":n}     *)
(*  {"e":"block","on":b} {"e":"set_state","m","s"} {"e":"set_msg","m",     *)
(*  "msg":{id,len,cut}} {"e":"add","bag","k"} {"e":"inc_http"}             *)
(*  {"e":"inc_tcp"} {"e":"end"}                                            *)
(***************************************************************************)
EXTENDS Status, Json, IOUtils

Script == ndJsonDeserialize(IOEnv.SCRIPT)
VARIABLES i,        \* next row
          blocked,  \* status.tmp cannot be created
          pubd,     \* this iteration renamed a new document into place
          running   \* an iteration is in progress (between "tick"/"run" and its ClearCheck)
gvars == <<vars, i, blocked, pubd, running>>

Row == Script[i]
Next_ == i' = i + 1
Keep == UNCHANGED <<i, blocked, pubd, running>>

GInit == Init /\ i = 1 /\ blocked = FALSE /\ pubd = FALSE /\ running = FALSE

\* a new process in an empty directory
GRun ==
  /\ Row.e = "run" /\ ~running
  /\ mstate' = [m \in Modules |-> "UNKNOWN"] /\ mmsg' = [m \in Modules |-> UnkMsg]
  /\ conn' = EmptyC /\ fail' = EmptyF /\ http' = 0 /\ tcp' = 0 /\ addsC' = EmptyC /\ addsF' = EmptyF
  /\ pc' = "st_state" /\ acc' = Blank /\ wrOk' = TRUE /\ sinceEvent' = 0 /\ sinceClear' = 0
  /\ file' = None /\ tmp' = None /\ lastEv' = NoEvent /\ evIter' = FALSE
  /\ dirty' = FALSE /\ clearedSincePub' = FALSE /\ crashes' = 0 /\ winAggs' = {} /\ prevWrite' = "first"
  /\ blocked' = FALSE /\ pubd' = FALSE /\ running' = TRUE /\ UNCHANGED i

\* the process is replaced; the files stay
GRestart ==
  /\ Row.e = "restart" /\ ~running /\ pc = "sleep"
  /\ Crash /\ pubd' = FALSE /\ running' = TRUE /\ UNCHANGED <<i, blocked>>

GTick ==
  /\ Row.e = "tick" /\ ~running /\ pc = "sleep"
  /\ Wake /\ pubd' = FALSE /\ running' = TRUE /\ UNCHANGED <<i, blocked>>

Quiescent == ~running /\ pc = "sleep"
GEnv ==
  /\ Quiescent
  /\ \/ Row.e = "set_state" /\ SetState(Row.m, Row.s)
     \/ /\ Row.e = "set_msg"
        /\ PrintT(<<"EXPECT", ToJson([i |-> i, updated |-> (mmsg[Row.m] # Row.msg)])>>)
        /\ SetMessage(Row.m, Row.msg)
     \/ Row.e = "add" /\ Row.bag = "conn" /\ AddConnection(Row.k)
     \/ Row.e = "add" /\ Row.bag = "fail" /\ AddFailed(Row.k)
     \/ /\ Row.e = "inc_http" /\ PrintT(<<"EXPECT", ToJson([i |-> i, r |-> http + 1])>>) /\ IncreaseConnectionCount
     \/ /\ Row.e = "inc_tcp" /\ PrintT(<<"EXPECT", ToJson([i |-> i, r |-> tcp + 1])>>) /\ IncreaseTcpConnectionCount
     \/ Row.e = "adv" /\ Advance(Row.secs)
  /\ Next_ /\ UNCHANGED <<blocked, pubd, running>>

GBlock ==
  /\ Quiescent /\ Row.e = "block" /\ blocked' = Row.on
  /\ Next_ /\ UNCHANGED <<vars, pubd, running>>

\* what the iteration that ends with this ClearCheck step leaves behind
Expect == [i |-> i, file |-> file, fresh |-> pubd, tmp |-> tmp.v,
           event |-> IF evIter THEN lastEv ELSE NoEvent,
           cleared |-> (sinceClear >= ClearAfter)]

GTask ==
  /\ running
  /\ \/ /\ pc \notin {"create", "write", "rename", "clear"} /\ Task /\ Keep
     \* the file system: status.tmp blocked => File::create fails; otherwise nothing fails
     \/ /\ pc = "create" /\ CreateTmp /\ (pc' = "setmsg") = blocked /\ Keep
     \/ /\ pc = "write" /\ WriteTmp /\ pc' = "rename" /\ Keep
     \/ /\ pc = "rename" /\ RenameTmp /\ wrOk' /\ pubd' = TRUE /\ UNCHANGED <<i, blocked, running>>
     \/ /\ pc = "clear" /\ PrintT(<<"EXPECT", ToJson(Expect)>>) /\ ClearCheck
        /\ running' = FALSE /\ Next_ /\ UNCHANGED <<blocked, pubd>>

GEnd == /\ Row.e = "end" /\ Quiescent /\ PrintT(<<"GENDONE", i>>)
        /\ Next_ /\ UNCHANGED <<vars, blocked, pubd, running>>

GNext == i <= Len(Script) /\ (GRun \/ GRestart \/ GTick \/ GEnv \/ GBlock \/ GTask \/ GEnd)
GSpec == GInit /\ [][GNext]_gvars
=============================================================================
