SPECIFICATION GSpec
CONSTANTS
  MaxClock = 2
  MaxKK = 2
  MaxRd = 1
  NQ = 1
  MaxPolls = 1
  MaxLatch = 0
  FileSteps = FALSE
  QKinds = {"past", "exact", "future"}
  Fix = {}
  KKOps = {"U", "R", "T"}
VIEW gview
INVARIANTS PrintCexQ
CONSTRAINT StopQ
CHECK_DEADLOCK FALSE
