SPECIFICATION GenSpec
CONSTANTS
  Conn = {"c1"}
  Port = {"p1"}
  Ident <- Idents2
  Keys = {"k1"}
  Shapes <- ShapesAll
  MaxReq = 1
  SplitKeyRead = FALSE
  EnvBudget = 0
  DestSet <- DestsAll
  MaxConnects = 1
INVARIANTS Mediation StatusMap RootOnly OwnedHeaders Modes BodyLimit EmitCase
CHECK_DEADLOCK FALSE
