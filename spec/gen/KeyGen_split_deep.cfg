SPECIFICATION Spec
CONSTANTS
  Split = TRUE
  MaxKeeper = 4
INVARIANTS Emit
CHECK_DEADLOCK FALSE
