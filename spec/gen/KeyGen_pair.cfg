SPECIFICATION Spec
CONSTANTS
  Split = FALSE
  MaxKeeper = 2
INVARIANTS Emit
CHECK_DEADLOCK FALSE
