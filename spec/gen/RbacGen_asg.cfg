SPECIFICATION Spec
CONSTANTS
  Slice = "asg"
  Full = FALSE
  Emit = TRUE
INVARIANTS PermInvariant CaseInvariant DisabledAllows MatchedNotGrantedDenies NoMatchGivesDefault EmitCase
CHECK_DEADLOCK FALSE
