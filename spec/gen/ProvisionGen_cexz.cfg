SPECIFICATION GSpec
CONSTANTS
  MaxClock = 1
  MaxKK = 1
  MaxRd = 1
  NQ = 1
  MaxPolls = 1
  MaxLatch = 0
  FileSteps = FALSE
  QKinds = {"zero"}
  Fix = {}
  KKOps = {"U"}
VIEW gview
INVARIANTS PrintCexZ
CONSTRAINT StopZ
CHECK_DEADLOCK FALSE
