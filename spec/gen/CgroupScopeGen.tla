--------------------------- MODULE CgroupScopeGen ---------------------------
(* prints the mount tables of the exhaustive configuration (EnvOK holds in each) for replay on the real resolver *)
EXTENDS CgroupScope, Json, TLC
VARIABLE done
GInit == done = FALSE /\ mounts = <<>> /\ target = <<"none">> /\ attached = FALSE /\ seen = {}
GNext == ~done /\ done' = TRUE /\ PrintT(<<"TABLES", ToJson(Tables)>>) /\ UNCHANGED cvars
GSpec == GInit /\ [][GNext]_<<done, cvars>>
=============================================================================
