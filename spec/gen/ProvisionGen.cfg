SPECIFICATION GSpec
CONSTANTS
  MaxClock = 4
  MaxKK = 4
  MaxRd = 1
  NQ = 3
  MaxPolls = 2
  MaxLatch = 2
  FileSteps = FALSE
  QKinds = {"past", "exact", "future"}
  Fix = {"stale", "zero", "tmp"}
  KKOps = {"U", "R", "T"}
VIEW gview
INVARIANTS PrintReplay
CONSTRAINT NotPastTerminal
CHECK_DEADLOCK FALSE
