\* X02 generator (see ExtHandlerGen.tla): Health at the real constants; version h2 is the unhealthy one.
SPECIFICATION GSpec
CONSTANTS
  Handlers = {"h1", "h2"}
  Seqs = {"1", "2"}
  Allowed <- AllCmds
  Good = {"x0", "h1"}
  OsSupported = TRUE
  SpawnMayFail = TRUE
  ExternalChange = TRUE
  ResetDecisionOnInstall = FALSE
  Threshold = 20
  MaxCount = 10000
  GhostCap = 10001
INVARIANTS
  Emit
  TypeOK
  UpdateTagLifecycle
PROPERTIES
  StatusForCurrentSeq
  EnableReportsItsSeq
  EnableIdempotent
  EnableKeepsRunningService
  UninstallGuard
  AgentUnregisteredOnlyByUninstall
  RollbackOnError
  RestoreBringsBackPrevious
  NoUpgradeLoop
  InstallOnlyOnMismatch
  ServiceReportsHealth
CHECK_DEADLOCK FALSE
