------------------------------ MODULE SetupGen ------------------------------
(* Generator for C17: every behaviour of Setup.tla made of exactly N commands (N = env VERIF_N), from every    *)
(* initial state, printed as one JSON line: the initial state, and after each command the command, how it      *)
(* ended, and the abstract state the real binary must be in (system locations, backup, systemctl calls with    *)
(* their snapshots).  Prefixes cover the shorter sequences.  The invariants of Setup.tla are checked along     *)
(* the way, so this run is also the literal "all command sequences up to length N" model check.                *)
EXTENDS Setup, Json, IOUtils

VARIABLES hist, init
gvars == <<vars, hist, init>>

N == atoi(IOEnv.VERIF_N)

GInit == Init /\ hist = << >> /\ init = Snapshot

GNext ==
  /\ (pc = 0 => Len(hist) < N)
  /\ Next
  /\ init' = init
  /\ hist' = IF pc' = 0 /\ pc # 0      \* a command has just completed (an environment step between commands is none)
             THEN Append(hist, [c |-> cmd', res |-> res', sys |-> sys', bak |-> bak', bdir |-> bdir', svc |-> svc',
                                calls |-> calls', wrote |-> wrote', chk |-> chk'])
             ELSE hist

GSpec == GInit /\ [][GNext]_gvars

Emit == (pc = 0 /\ Len(hist) = N) => PrintT(<<"BEH", ToJson([init |-> init, steps |-> hist])>>)
=============================================================================
