------------------------------- MODULE RbacGen -------------------------------
(***************************************************************************)
(* Exhaustive small universes for Rbac.tla, one slice per configuration.   *)
(* Each initial state is one case (document, caller, URL); TLC checks the  *)
(* algebraic properties of the declared semantics on every case and, when  *)
(* Emit = TRUE, prints the case with the spec's decision (the expected     *)
(* value for the real implementation).                                     *)
(***************************************************************************)
EXTENDS Rbac, Json, SequencesExt

CONSTANTS Slice, Emit, Full
VARIABLE case

ch(s) == s   \* sequences of 1-char strings are written literally below

P_a   == <<"/", "a">>
P_A   == <<"/", "A">>
P_ab  == <<"/", "a", "/", "b">>
P_ab2 == <<"/", "a", "b">>
P_c   == <<"/", "c">>
P_Ab  == <<"/", "A", "/", "b">>
P_root == <<"/">>

Q0  == <<>>
Qkv == <<[k |-> <<"k">>, v |-> <<"v">>]>>
QKV == <<[k |-> <<"K">>, v |-> <<"V">>]>>
Qkx == <<[k |-> <<"k">>, v |-> <<"x">>]>>
Qkxkv == <<[k |-> <<"k">>, v |-> <<"x">>], [k |-> <<"k">>, v |-> <<"v">>]>>
Qkvkx == <<[k |-> <<"k">>, v |-> <<"v">>], [k |-> <<"k">>, v |-> <<"x">>]>>   \* first and "any" readings agree here; a "last value" reading does not
Qjkv == <<[k |-> <<"j">>, v |-> <<"1">>], [k |-> <<"k">>, v |-> <<"v">>]>>
Qk_  == <<[k |-> <<"k">>, v |-> <<>>]>>
Qkvj == <<[k |-> <<"k">>, v |-> <<"v">>], [k |-> <<"j">>, v |-> <<"2">>]>>

Callers == { [user |-> "alice", groups |-> {"g1"}, proc |-> "p", exe |-> "/bin/p"],
             [user |-> "bob", groups |-> {"g1", "g2"}, proc |-> "q", exe |-> "/bin/q"],
             [user |-> "carol", groups |-> {}, proc |-> "p", exe |-> "/bin/p"] }
Urls == [path : {P_a, P_Ab, P_ab2, P_c, P_root}, q : {Q0, Qkv, QKV, Qkx, Qkxkv, Qkvkx, Qjkv, Qk_}]

Modes == {"disabled", "audit", "enforce"}

SeqsUpTo2(S) == {<<>>} \cup {<<x>> : x \in S} \cup {<<x, y>> : x \in S, y \in S}

IdAlice == [name |-> "i1", user |-> "alice", group |-> NONE, proc |-> NONE, exe |-> NONE]
RoleR1(ps) == [name |-> "r1", privs |-> ps]
Asg1 == [role |-> "r1", ids |-> <<"i1">>]

Doc(mode, allow, privs, hp, roles, hr, ids, hi, asg, ha) ==
  [mode |-> mode, allow |-> allow, privs |-> privs, hasPrivs |-> hp, roles |-> roles, hasRoles |-> hr,
   ids |-> ids, hasIds |-> hi, asg |-> asg, hasAsg |-> ha]

\* (slice sets take a dummy parameter so that TLC does not precompute all of them as constants)
\* Slice "match": one or two privileges of every path/query shape, canonical grant chain to alice
PrivPool == [name : {"p1", "p2"}, path : {P_a, P_A, P_ab, P_c}, q : {Q0, Qkv, QKV, Qkvj}]
DocsMatch(lazy) == { Doc(m, al, ps, TRUE, <<RoleR1(<<"p1">>)>>, TRUE, <<IdAlice>>, TRUE, <<Asg1>>, TRUE) :
                 m \in Modes, al \in BOOLEAN,
                 ps \in {<<x>> : x \in PrivPool} \cup {<<x, y>> : x \in {z \in PrivPool : z.name = "p1"},
                                                                  y \in {z \in PrivPool : z.name = "p2" /\ z.q = Q0}} }

\* Slice "grant": fixed privileges (p1 = /a, p2 = /c), every shape of roles / identities / assignments,
\* dangling names (p3, r3, i3), duplicate names, sections present or absent
IdPool == [name : {"i1", "i2"}, user : {NONE, "alice", "bob"}, group : {NONE, "g2"}, proc : {NONE, "p"}, exe : {NONE}]
          \cup {[name |-> "i1", user |-> NONE, group |-> NONE, proc |-> NONE, exe |-> "/bin/q"]}
          \* an attribute STATED as the empty string is stated: it equals no caller's (non-empty) attribute
          \cup {[name |-> "i1", user |-> t[1], group |-> t[2], proc |-> t[3], exe |-> t[4]] :
                  t \in {<<"", NONE, NONE, NONE>>, <<NONE, "", NONE, NONE>>, <<NONE, NONE, "", NONE>>, <<NONE, NONE, NONE, "">>,
                         <<"", "", "", "">>, <<"alice", NONE, "", NONE>>}}
IdPlain(n, u) == [name |-> n, user |-> u, group |-> NONE, proc |-> NONE, exe |-> NONE]
RolePool == [name : {"r1", "r2"}, privs : {<<"p1">>, <<"p2">>, <<"p1", "p2">>, <<"p3">>}]
AsgPool == [role : {"r1", "r3"}, ids : {<<"i1">>, <<"i2">>, <<"i1", "i2">>, <<"i3">>}]
FixedPrivs == <<[name |-> "p1", path |-> P_a, q |-> Q0], [name |-> "p2", path |-> P_c, q |-> Q0]>>
Flags == IF Full THEN BOOLEAN \X BOOLEAN \X BOOLEAN
         ELSE {<<TRUE, TRUE, TRUE>>, <<FALSE, TRUE, TRUE>>, <<TRUE, FALSE, TRUE>>, <<TRUE, TRUE, FALSE>>}
DocsGrant(lazy) == { Doc("enforce", al, FixedPrivs, TRUE, rs, fl[1], is, fl[2], as, fl[3]) :
                 al \in BOOLEAN,
                 rs \in {<<x>> : x \in RolePool} \cup {<<x, y>> : x \in {z \in RolePool : z.name = "r1" /\ (Full \/ z.privs = <<"p1">>)},
                                                                y \in {z \in RolePool : z.name = "r1"}},
                 is \in {<<x>> : x \in IdPool} \cup {<<IdPlain("i1", x), IdPlain("i2", y)>> : x, y \in {NONE, "alice", "bob"}},
                 as \in {<<x>> : x \in AsgPool}, fl \in Flags }
UrlsGrant == [path : {P_a, P_root}, q : {Q0}]
CallersGrant == {c \in Callers : c.user \in {"alice", "bob"}}

\* Slice "dup": duplicate privilege / identity names with different bodies, in both orders; missing privilege section
DupPrivs == { <<[name |-> "p1", path |-> x, q |-> Q0], [name |-> "p1", path |-> y, q |-> Q0]>> : x, y \in {P_a, P_c, P_ab} }
DupIds == { <<[name |-> "i1", user |-> x, group |-> NONE, proc |-> NONE, exe |-> NONE],
              [name |-> "i1", user |-> y, group |-> NONE, proc |-> NONE, exe |-> NONE]>> : x, y \in {"alice", "bob"} }
DocsDup(lazy) == { Doc(m, al, ps, hp, <<RoleR1(<<"p1">>)>>, TRUE, is, TRUE, <<Asg1>>, TRUE) :
               m \in {"audit", "enforce"}, al \in BOOLEAN, ps \in DupPrivs, hp \in BOOLEAN, is \in DupIds }

\* Slice "asg": one privilege reachable through two role assignments (same role twice, two roles sharing it,
\* a first assignment naming only undefined identities), in both orders
AsgPool2 == [role : {"r1", "r2", "r3"}, ids : {<<"i1">>, <<"i2">>, <<"i3">>, <<"i1", "i2">>}]
RoleSets == { <<[name |-> "r1", privs |-> <<"p1">>], [name |-> "r2", privs |-> <<"p1">>]>>,
              <<[name |-> "r1", privs |-> <<"p1">>], [name |-> "r2", privs |-> <<"p2">>]>>,
              <<[name |-> "r1", privs |-> <<"p1", "p2">>]>> }
DocsAsg(lazy) == { Doc("enforce", al, FixedPrivs, TRUE, rs, TRUE, <<IdPlain("i1", "alice"), IdPlain("i2", "bob")>>, TRUE, <<x, y>>, TRUE) :
                     al \in BOOLEAN, rs \in RoleSets, x \in AsgPool2, y \in AsgPool2 }

\* Slice "idcase": identity attributes compare EXACTLY (the statement folds letter case for the rule's and the request's
\* path and query only): identities and callers whose user / group / process name / executable path differ in case only
IdCasePool == [name : {"i1"}, user : {NONE, "alice", "Alice"}, group : {NONE, "g2", "G2"}, proc : {NONE, "p", "P"}, exe : {NONE, "/bin/p", "/BIN/P"}]
CallersCase == { [user |-> u, groups |-> g, proc |-> pr, exe |-> ex] :
                   u \in {"alice", "Alice", "ALICE"}, g \in {{"g2"}, {"G2"}, {}}, pr \in {"p", "P"}, ex \in {"/bin/p", "/BIN/P"} }
DocsIdCase(lazy) == { Doc("enforce", al, FixedPrivs, TRUE, <<RoleR1(<<"p1">>)>>, TRUE, <<i>>, TRUE, <<Asg1>>, TRUE) :
                        al \in BOOLEAN, i \in IdCasePool }

Universe ==
  CASE Slice = "idcase" -> DocsIdCase(0) \X CallersCase \X [path : {P_a, P_root}, q : {Q0}]
    [] Slice = "match" -> DocsMatch(0) \X Callers \X Urls
    [] Slice = "grant" -> DocsGrant(0) \X CallersGrant \X UrlsGrant
    [] Slice = "asg"   -> DocsAsg(0) \X CallersGrant \X [path : {P_a, P_c, P_root}, q : {Q0}]
    [] Slice = "dup"   -> DocsDup(0) \X Callers \X [path : {P_a, P_c, P_ab, P_root}, q : {Q0}]

Init == case \in Universe
Next == UNCHANGED case
Spec == Init /\ [][Next]_case

R == case[1]
C == case[2]
U == case[3]

-----------------------------------------------------------------------------
\* algebraic properties of the declared semantics (sanity of the oracle itself)
RevDoc(d) == [d EXCEPT !.privs = Reverse(d.privs), !.roles = Reverse(d.roles), !.ids = Reverse(d.ids),
                       !.asg = Reverse(d.asg)]
PermInvariant == Decision(RevDoc(R), C, U) = Decision(R, C, U)
UpperTable == [c \in {LowerTable[x] : x \in DOMAIN LowerTable} |-> CHOOSE x \in DOMAIN LowerTable : LowerTable[x] = c]
UpperC(c) == IF c \in DOMAIN UpperTable THEN UpperTable[c] ELSE c
Upper(s) == [i \in 1..Len(s) |-> UpperC(s[i])]
UpDoc(d) == [d EXCEPT !.privs = [i \in 1..Len(d.privs) |->
                [d.privs[i] EXCEPT !.path = Upper(@),
                                   !.q = [j \in 1..Len(d.privs[i].q) |-> [k |-> Upper(d.privs[i].q[j].k), v |-> Upper(d.privs[i].q[j].v)]]]]]
UpUrl(u) == [path |-> Upper(u.path), q |-> [j \in 1..Len(u.q) |-> [k |-> Upper(u.q[j].k), v |-> Upper(u.q[j].v)]]]
CaseInvariant == /\ Decision(UpDoc(R), C, U) = Decision(R, C, U)
                 /\ Decision(R, C, UpUrl(U)) = Decision(R, C, U)
DisabledAllows == R.mode = "disabled" => Decision(R, C, U)
MatchedNotGrantedDenies == (R.mode # "disabled" /\ Features(R, C, U).matched /\ ~Features(R, C, U).granted) => ~Decision(R, C, U)
NoMatchGivesDefault == (R.mode # "disabled" /\ ~Features(R, C, U).matched) => (Decision(R, C, U) = R.allow)

EmitCase ==
  Emit => PrintT(<<"CASE", ToJson([doc |-> R, caller |-> [C EXCEPT !.groups = SetToSeq(C.groups)], url |-> U,
                                   allow |-> Decision(R, C, U), allowAny |-> DecisionAny(R, C, U),
                                   f |-> Features(R, C, U)])>>)
=============================================================================
