SPECIFICATION GSpec
CONSTANTS
  MaxClock = 1
  MaxKK = 3
  MaxRd = 1
  NQ = 0
  MaxPolls = 1
  MaxLatch = 0
  FileSteps = TRUE
  QKinds = {}
  Fix = {}
  KKOps = {"U", "R", "T"}
VIEW gview
INVARIANTS PrintCexT
CONSTRAINT StopT
CHECK_DEADLOCK FALSE
