SPECIFICATION GSpec
CONSTANTS
  Threads <- MC_Threads
  AgentPids <- MC_AgentPids
  Ips <- PM_Ips
  Ports <- PM_Ports
  Protos = {6, 17}
  TCP = 6
  Listable <- PM_Listable
  SPorts = {1}
  Proxy <- PM_Proxy
  K = 2
  Bounded = TRUE
  AllowDirect = FALSE
  AllowAbort = FALSE
  MaxLeft = 0
  MaxOps = 5
  Shape = "keeper"
  StartSets <- PM_StartsKeeper
INVARIANTS MapAsInstructed Emit
CHECK_DEADLOCK FALSE
