SPECIFICATION GSpec
CONSTANTS
  Machine <- GenMachine
  CrashPoints = FALSE
  RollFaults = TRUE
  RollKills = TRUE
  LogListFaults = TRUE
  ListingDesign = "skip"
  RoomFaults = TRUE
  RollDesign = "rename"
  MaxCount = 3
  Limit = 4
  MaxWrite = 6
  PreArch = 5
  PreSizes = {4, 9}
  PreCur = {0, 1, 3, 4, 5, 9}
  Cap = 3
  MaxPush = 2
  QueueBound = 4
  PreEv = 5
  FlushFaults = TRUE
  PreTmp = 3
  MaxDumps = 3
  ListFaults = TRUE
  DumpDesign = "cleanup-first"
  PreDumps = 5
  MaxIds = 1000
INVARIANTS Emit LogCountBound LogSizeBound EvCountBound EvStoppedQueueEmpty DumpCountBound
CHECK_DEADLOCK FALSE
