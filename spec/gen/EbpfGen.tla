------------------------------ MODULE EbpfGen ------------------------------
(***************************************************************************)
(* Generator for C06: random behaviours of Ebpf (TLC -simulate), each      *)
(* printed as one JSON line <<"BEH", [...]>> when it reaches GenDepth      *)
(* steps.  Every step carries the action, its parameters and the state the *)
(* specification expects afterwards (rewritten address, local and audit    *)
(* map), so the replay compares the real program with the spec after every *)
(* single step.                                                            *)
(***************************************************************************)
EXTENDS Ebpf, Json

CONSTANT GenDepth
VARIABLE hist
gvars == <<vars, hist>>

After == [local |-> localMap', audit |-> auditMap']

\* TLC's simulator picks uniformly among successor states; to keep diverted connects frequent the run starts from
\* an arbitrary policy / skip map (first element of hist, replayed as plain agent steps) and the generator takes
\* the smallest free source port instead of every free one.
GInit == /\ \E S \in SUBSET Listable :
              policy = [k \in {Key(d[1], d[2], TCP) : d \in S} |-> Proxy]
         /\ skip \in {{}, AgentPids}
         /\ localMap = <<>> /\ auditMap = <<>>
         /\ pc = [t \in Threads |-> "idle"] /\ cur = [t \in Threads |-> Idle]
         /\ lastOther = [div |-> FALSE, same |-> TRUE]
         /\ truth = [s \in SPorts |-> None] /\ left = [s \in SPorts |-> None]
         /\ hist = << [a |-> "init", listed |-> {[ip |-> k.ip, port |-> k.port] : k \in DOMAIN policy}, skip |-> skip] >>

\* the kernel hands out the smallest port nothing is known about, or a port whose connection ended while its
\* record stayed in the map (a leftover): the reuse C06 has to survive
FreePorts == {s \in SPorts : truth[s] = None /\ ~HasRec(s)}
LeftPorts == {s \in SPorts : truth[s] = None /\ HasRec(s)}
NextPort == LeftPorts \cup (IF FreePorts = {} THEN {} ELSE {CHOOSE s \in FreePorts : \A x \in FreePorts : s <= x})

\* Each kind of step is ONE action for TLC (the leading conjunct keeps TLC from splitting the quantifiers into one
\* action per parameter value), so the simulator chooses the kind uniformly and only then the parameters.
One == Len(hist) <= GenDepth

GPolicy == /\ One
           /\ \E d \in Listable :
                \/ PolicyAdd(d) /\ hist' = Append(hist, [a |-> "policy_add", ip |-> d[1], port |-> d[2], after |-> After])
                \/ PolicyRemove(d) /\ hist' = Append(hist, [a |-> "policy_del", ip |-> d[1], port |-> d[2], after |-> After])
GSkip == /\ One
         /\ \E p \in AgentPids : SkipAdd(p) /\ hist' = Append(hist, [a |-> "skip_add", pid |-> p, after |-> After])
GRelease == /\ One
            /\ \E s \in SPorts : Release(s) /\ hist' = Append(hist, [a |-> "release", sport |-> s, had |-> HasRec(s), after |-> After])
GEndUnc == /\ One
           /\ \E s \in SPorts : EndUnconsumed(s) /\ hist' = Append(hist, [a |-> "end_unconsumed", sport |-> s, had |-> HasRec(s),
                                                                          after |-> After])
\* The replay runs on the real maps (200 entries), which do not evict where a map of K entries would: the generator
\* keeps every behaviour below the capacity, leftovers included (LRU eviction of a leftover is exhaustively checked in
\* mc/EbpfLeft.cfg and driven on the real program by the directed run "lru-evicts-leftover" of checks/c06.py).
NoEvict == InFlight < K

GConnect4(protos) ==
  /\ One /\ (TCP \in protos => NoEvict)
  /\ \E t \in Threads, ip \in Ips, port \in Ports, proto \in protos :
       /\ Connect4(t, ip, port, proto)
       /\ hist' = Append(hist, [a |-> "connect4", t |-> t, ip |-> ip, port |-> port, proto |-> proto,
                                nip |-> IF proto = TCP THEN cur'[t].nip ELSE ip,
                                nport |-> IF proto = TCP THEN cur'[t].nport ELSE port,
                                after |-> After])
GTcp == /\ One
        /\ \E t \in Threads, s \in NextPort :
             /\ TcpConnectAt(t, s)
             /\ hist' = Append(hist, [a |-> "tcp", t |-> t, sport |-> s, dip |-> cur[t].nip, dport |-> cur[t].nport,
                                      over |-> Leftover(s), div |-> cur[t].div, after |-> After])
GDirect == /\ One /\ NoEvict
           /\ \E t \in Threads, ip \in Ips, port \in Ports, s \in NextPort :
                /\ TcpConnectDirect(t, ip, port, s)
                /\ hist' = Append(hist, [a |-> "tcp_direct", t |-> t, sport |-> s, dip |-> ip, dport |-> port,
                                         over |-> Leftover(s), div |-> FALSE, after |-> After])

\* TLC evaluates invariants on every candidate successor; the single-successor closing step makes sure exactly the
\* behaviour that was walked is printed, once.
GEnd == /\ Len(hist) = GenDepth + 1 /\ hist' = Append(hist, [a |-> "end"]) /\ UNCHANGED vars

GNext == GEnd \/ GPolicy \/ GSkip \/ GRelease \/ GEndUnc \/ GConnect4({TCP}) \/ GConnect4(Protos \ {TCP}) \/ GTcp \/ GDirect

GSpec == GInit /\ [][GNext]_gvars

\* always TRUE; prints the behaviour once it is GenDepth steps long
Emit == Len(hist) # GenDepth + 2 \/ PrintT(<<"BEH", ToJson(SubSeq(hist, 1, GenDepth + 1))>>)

=============================================================================
