--------------------------- MODULE DiskBoundsGen ---------------------------
(***************************************************************************)
(* Behaviour generator for C19: the actions of DiskBounds (all three       *)
(* machines interleaved, process restarts anywhere, directories pre-filled *)
(* below, at and beyond their limits) with a history variable holding the  *)
(* operation sequence and the expected abstract state after each one.      *)
(* Run with -simulate: every behaviour that reaches GenDepth operations is *)
(* printed once as  <<"REPLAY", ToJson(hist)>>.                            *)
(* GenDepth and the machine selection come from the environment            *)
(* (GEN_DEPTH, GEN_MACHINE) so that one .cfg serves all tiers.             *)
(* Besides "all" | "log" | "event" | "dumps", GEN_MACHINE may name a       *)
(* DIRECTED mode in which the walk is confined to one scenario family:     *)
(*  "evstop"    the event machine doing push -> (tick) -> stop -> restart  *)
(*              cycles: stop only with events still queued, restart only   *)
(*              after a stop; the directories found are below, at and      *)
(*              beyond the cap, so most walks stop over a FULL directory   *)
(*  "logfault"  the log machine with the rename fault switched on as soon  *)
(*              as a current file exists, kept on until writes have been   *)
(*              refused at least once (cur >= Limit), then anything        *)
(*  "rollkill"  the log machine in which the FIRST roll that has files to  *)
(*              remove is killed after the rename (and j removals) and the *)
(*              run restarted; then writes (rolls), restarts, further      *)
(*              kills: "kill" steps carry the size n of the write during   *)
(*              which the run dies and j                                   *)
(*  "evfail"    the event machine with flushes that fail after creating    *)
(*              their temp file ("tickfail" / "stopfail") among good ones, *)
(*              one push per flush, over directories found with event      *)
(*              files and leftover temp files below, at and beyond the cap *)
(*  "noroom"    the log machine: the current file is taken to its limit,   *)
(*              the file system runs out of room ("noroom"), writes go on  *)
(*              (the first one rolls), room comes back ("room") after at   *)
(*              least two of them                                          *)
(*  "logblind"  the log machine: the current file is taken to its limit,   *)
(*              an entry of the directory becomes un-stat()able ("lblind"),*)
(*              writes go on (the first one rolls), it heals ("lunblind")  *)
(*              after at least two of them                                 *)
(*  "dumpblind" the dump machine: rule-set changes with the directory      *)
(*              listing failing ("blind") and working again ("unblind")    *)
(*  "shortruns" the log machine doing (one write of one unit, restart)     *)
(*              again and again from directories an earlier run can have   *)
(*              left (room for the current file): a crash loop             *)
(***************************************************************************)
EXTENDS DiskBounds, Json, IOUtils

VARIABLE hist
gvars == <<vars, hist>>

GenMode == IF "GEN_MACHINE" \in DOMAIN IOEnv THEN IOEnv.GEN_MACHINE ELSE "all"
GenMachine == CASE GenMode = "evstop" -> "event"
                [] GenMode = "logfault" -> "log"
                [] GenMode = "rollkill" -> "log"
                [] GenMode = "evfail" -> "event"
                [] GenMode = "shortruns" -> "log"
                [] GenMode = "noroom" -> "log"
                [] GenMode = "logblind" -> "log"
                [] GenMode = "dumpblind" -> "dumps"
                [] OTHER -> GenMode
GenDepth == IF "GEN_DEPTH" \in DOMAIN IOEnv THEN atoi(IOEnv.GEN_DEPTH) ELSE 12

\* expected abstract state AFTER the step (primed variables), as compared with the directory listings;
\* refused: the write is expected to be refused (roll needed while the rename fails)
After(o, k, jj) == [op |-> o, n |-> k, j |-> jj, arch |-> arch', cur |-> cur', ev |-> evFiles', tmp |-> evTmp',
                q |-> evQueue', wrote |-> IF evFiles' > evFiles THEN evQueue ELSE 0, dumps |-> dumps',
                refused |-> (o = "write" /\ ((ShouldRoll /\ rollFails) \/ noRoom)), noroom |-> noRoom', lblind |-> logBlind',
                blind |-> listFails', pin |-> rollFails', run |-> evRun']
Log(o, k) == hist' = Append(hist, After(o, k, 0))
LogJ(o, k, jj) == hist' = Append(hist, After(o, k, jj))

GInit == /\ Init
         /\ (GenMode = "shortruns" => logLegal)
         /\ hist = << [op |-> "init", n |-> 0, j |-> 0, arch |-> arch, cur |-> cur, ev |-> evFiles, tmp |-> evTmp, q |-> 0,
                       wrote |-> 0, dumps |-> dumps, refused |-> FALSE, noroom |-> FALSE, lblind |-> FALSE, blind |-> FALSE, pin |-> FALSE, run |-> TRUE] >>

Unpinned == \E i \in DOMAIN hist : hist[i].op = "unpin"
Killed == \E i \in DOMAIN hist : hist[i].op = "kill"
KillDue == ShouldRoll /\ Excess(Len(Renamed), MaxCount) > 0
\* which operations a directed mode lets through (undirected modes: all of them)
Allowed(o) ==
  CASE GenMode = "evstop" ->
         CASE o = "push" -> evRun
           [] o = "tick" -> evRun /\ evQueue > 0
           [] o = "stop" -> evRun /\ evQueue > 0
           [] o = "restart" -> ~evRun
           [] OTHER -> FALSE
    [] GenMode = "logfault" ->
         CASE o = "write" -> rollFails \/ cur < 0 \/ Unpinned
           [] o = "pin" -> TRUE
           [] o = "unpin" -> cur >= Limit
           [] o = "restart" -> rollFails \/ Unpinned
           [] OTHER -> FALSE
    [] GenMode = "rollkill" ->
         CASE o = "write" -> Killed \/ ~KillDue
           [] o = "kill" -> debt < 2
           [] o = "restart" -> Killed
           [] OTHER -> FALSE
    [] GenMode = "evfail" ->
         CASE o = "push" -> evRun /\ evQueue = 0
           [] o = "tick" -> evQueue > 0
           [] o = "tickfail" -> TRUE
           [] o = "stop" -> evQueue > 0
           [] o = "stopfail" -> TRUE
           [] o = "restart" -> ~evRun
           [] o = "remove" -> evFiles + evTmp >= Cap
           [] OTHER -> FALSE
    [] GenMode = "noroom" ->
         CASE o = "write" -> TRUE
           [] o = "noroom" -> cur >= Limit
           [] o = "room" -> Len(hist) >= 3 /\ hist[Len(hist)].op = "write" /\ hist[Len(hist) - 1].op = "write"
           [] o = "restart" -> noRoom
           [] OTHER -> FALSE
    [] GenMode = "logblind" ->
         CASE o = "write" -> TRUE
           [] o = "lblind" -> cur >= Limit
           [] o = "lunblind" -> Len(hist) >= 3 /\ hist[Len(hist)].op = "write" /\ hist[Len(hist) - 1].op = "write"
           [] o = "restart" -> logBlind
           [] OTHER -> FALSE
    [] GenMode = "dumpblind" ->
         CASE o = "dump" -> TRUE
           [] o = "blind" -> TRUE
           [] o = "unblind" -> Len(hist) >= 3 /\ hist[Len(hist)].op = "dump" /\ hist[Len(hist) - 1].op = "dump"
           [] OTHER -> FALSE
    [] GenMode = "shortruns" ->
         CASE o = "write" -> hist[Len(hist)].op # "write"
           [] o = "restart" -> hist[Len(hist)].op = "write"
           [] OTHER -> FALSE
    [] OTHER -> o \notin {"kill", "noroom", "blind", "lblind"}                    \* (kills are replayed under strace: kept to the directed mode)

GNext ==
  /\ Len(hist) <= GenDepth
  /\ \/ \E n \in 1..MaxWrite : /\ Allowed("write") /\ (GenMode = "shortruns" => n = 1)
                               /\ \/ LogWriteNoRoll(n) \/ LogWriteRollKeep(n) \/ LogWriteRollTrim(n)
                                  \/ LogWriteRollFails(n)
                                  \/ LogWriteNoRoomNoRoll(n) \/ LogWriteNoRoomRoll(n)
                               /\ Log("write", n)
     \/ \E jj \in 0..(PreArch + 2) : Allowed("kill") /\ LogKilledInRoll(jj) /\ LogJ("kill", 1 + (jj % MaxWrite), jj)
     \/ Allowed("noroom") /\ LogNoRoomOn /\ Log("noroom", 0)
     \/ Allowed("room") /\ LogNoRoomOff /\ Log("room", 0)
     \/ Allowed("lblind") /\ LogListingBreaks /\ Log("lblind", 0)
     \/ Allowed("lunblind") /\ LogListingHeals /\ Log("lunblind", 0)
     \/ Allowed("blind") /\ DumpListingBreaks /\ Log("blind", 0)
     \/ Allowed("unblind") /\ DumpListingHeals /\ Log("unblind", 0)
     \/ Allowed("pin") /\ LogFaultOn /\ Log("pin", 0)
     \/ Allowed("unpin") /\ LogFaultOff /\ Log("unpin", 0)
     \/ \E k \in 1..MaxPush : Allowed("push") /\ (EvPush(k) \/ EvPushClosed(k)) /\ Log("push", k)
     \/ Allowed("tick") /\ (EvTickIdle \/ EvTickWrite \/ EvTickDrop \/ EvTickStopped) /\ Log("tick", 0)
     \/ Allowed("tickfail") /\ EvTickFails /\ Log("tickfail", 0)
     \/ Allowed("stop") /\ EvStop /\ Log("stop", 0)
     \/ Allowed("stopfail") /\ EvStopFails /\ Log("stopfail", 0)
     \/ \E k \in 1..2 : Allowed("remove") /\ EvReaderRemove(k) /\ Log("remove", k)
     \/ Allowed("dump") /\ (DumpWriteKeep \/ DumpWriteTrim \/ DumpWriteSkipped) /\ Log("dump", 0)
     \/ Allowed("restart") /\ Restart /\ Log("restart", 0)

GSpec == GInit /\ [][GNext]_gvars

Emit == Len(hist) <= GenDepth \/ PrintT(<<"REPLAY", ToJson(hist)>>)
=============================================================================
