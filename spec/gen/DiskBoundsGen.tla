--------------------------- MODULE DiskBoundsGen ---------------------------
(***************************************************************************)
(* Behaviour generator for C19: the actions of DiskBounds (all three       *)
(* machines interleaved, process restarts anywhere, directories pre-filled *)
(* below, at and beyond their limits) with a history variable holding the  *)
(* operation sequence and the expected abstract state after each one.      *)
(* Run with -simulate: every behaviour that reaches GenDepth operations is *)
(* printed once as  <<"REPLAY", ToJson(hist)>>.                            *)
(* GenDepth and the machine selection come from the environment            *)
(* (GEN_DEPTH, GEN_MACHINE) so that one .cfg serves all tiers.             *)
(***************************************************************************)
EXTENDS DiskBounds, Json, IOUtils

VARIABLE hist
gvars == <<vars, hist>>

GenMachine == IF "GEN_MACHINE" \in DOMAIN IOEnv THEN IOEnv.GEN_MACHINE ELSE "all"
GenDepth == IF "GEN_DEPTH" \in DOMAIN IOEnv THEN atoi(IOEnv.GEN_DEPTH) ELSE 12

\* expected abstract state AFTER the step (primed variables), as compared with the directory listings
After(o, k) == [op |-> o, n |-> k, arch |-> arch', cur |-> cur', ev |-> evFiles', q |-> evQueue',
                wrote |-> IF evFiles' > evFiles THEN evQueue ELSE 0, dumps |-> dumps']
Log(o, k) == hist' = Append(hist, After(o, k))

GInit == /\ Init
         /\ hist = << [op |-> "init", n |-> 0, arch |-> arch, cur |-> cur, ev |-> evFiles, q |-> 0,
                       wrote |-> 0, dumps |-> dumps] >>

GNext ==
  /\ Len(hist) <= GenDepth
  /\ \/ \E n \in 1..MaxWrite : /\ (LogWriteNoRoll(n) \/ LogWriteRollKeep(n) \/ LogWriteRollTrim(n))
                               /\ Log("write", n)
     \/ \E k \in 1..MaxPush : EvPush(k) /\ Log("push", k)
     \/ (EvTickIdle \/ EvTickWrite \/ EvTickDrop) /\ Log("tick", 0)
     \/ \E k \in 1..2 : EvReaderRemove(k) /\ Log("remove", k)
     \/ (DumpWriteKeep \/ DumpWriteTrim) /\ Log("dump", 0)
     \/ Restart /\ Log("restart", 0)

GSpec == GInit /\ [][GNext]_gvars

Emit == Len(hist) <= GenDepth \/ PrintT(<<"REPLAY", ToJson(hist)>>)
=============================================================================
