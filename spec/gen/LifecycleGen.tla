---------------------------- MODULE LifecycleGen ----------------------------
(***************************************************************************)
(* Scenario generator for X03_LIFECYCLE (spec -> implementation).          *)
(* A scenario is one choice of the environment of Lifecycle.tla that the   *)
(* driver (harness/agent/src/vdrv/lifecycle.rs) can impose on the real     *)
(* code: busy (the port answers AddrInUse to the first `busy` attempts),   *)
(* errAt (the attempt that gets EACCES instead; 0 = none), rdFail (calls   *)
(* of start_internal that fail -- only "all" can be imposed in the         *)
(* sandbox) and stopAt, the observable condition on which stop_service is  *)
(* called:                                                                 *)
(*   "start"   before any of the three tasks took its first step           *)
(*   "failN"   during the retry sleep that follows the N-th failed bind    *)
(*   "settled" the listener is in its accept loop (or has reported its     *)
(*             failure) and Redirector::start has returned                 *)
(* For every scenario TLC explores every interleaving Lifecycle.tla allows *)
(* and prints, at each quiescent end state, what the specification         *)
(* prescribes the implementation to show: <<"SCN", ToJson([scn, expect])>>.*)
(* The check takes the SET of prescriptions of a scenario.                 *)
(***************************************************************************)
EXTENDS Lifecycle, Json

CONSTANT StopAtChoices
VARIABLE stopAt
gvars == <<vars, stopAt>>

FailN == [s \in {"fail1", "fail2", "fail3", "fail4", "fail5"} |->
            CASE s = "fail1" -> 1 [] s = "fail2" -> 2 [] s = "fail3" -> 3 [] s = "fail4" -> 4 [] OTHER -> 5]
Trigger ==
  CASE stopAt = "start" -> psPc = "init" /\ rdPc = "init"
    [] stopAt = "settled" -> psPc \in {"loop", "failed"} /\ rdPc = "done" /\ mq = <<>>
    [] OTHER -> psPc = "sleep" /\ nbind = FailN[stopAt]
\* scenarios whose trigger can never hold are not generated
Feasible ==
  \/ stopAt \in {"start", "settled"}
  \/ stopAt \in DOMAIN FailN /\ busyK >= FailN[stopAt] /\ FailN[stopAt] <= RetryCount
     /\ (errAt = 0 \/ errAt > FailN[stopAt])
\* the environment's busy beyond errAt is not observable: one representative
Canonical == errAt = 0 \/ busyK = errAt - 1

GInit == Init /\ stopAt \in StopAtChoices /\ Feasible /\ Canonical
GNext == /\ \/ ActorHandle \/ PsNext \/ RdNext \/ KkNext \/ ClState \/ ClClear
            \/ (StopService /\ Trigger)
         /\ UNCHANGED stopAt
GSpec == GInit /\ [][GNext]_gvars

Quiescent == /\ psPc \in {"failed", "returned", "off"} /\ rdPc \in {"done", "off"} /\ kkPc \in {"done", "off"}
             /\ clPc = "done" /\ mq = <<>>
Scn == [busy |-> busyK, errAt |-> errAt, rdFail |-> rdFailJ, stopAt |-> stopAt]
Expect == [nbind |-> nbind, lastRes |-> lastRes,
           ps |-> mstate["ProxyServer"], psMsg |-> mmsg["ProxyServer"].k, lis |-> "listener" \in prov,
           psUpAfterStop |-> g.runAfterCancel["ProxyServer"],
           rdCalls |-> rdCalls, rd |-> mstate["Redirector"], rdMsg |-> mmsg["Redirector"], red |-> "redirector" \in prov,
           bpf |-> bpf, kk |-> mstate["KeyKeeper"]]
PrintScn == Quiescent => PrintT(<<"SCN", ToJson([scn |-> Scn, expect |-> Expect])>>)
=============================================================================
