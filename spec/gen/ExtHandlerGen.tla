--------------------------- MODULE ExtHandlerGen ---------------------------
(***************************************************************************)
(* Generator for X02 (S->I).  Two modes, chosen by env VERIF_MODE:         *)
(*                                                                         *)
(*  "enum"    every behaviour of ExtHandler.tla made of exactly VERIF_N    *)
(*            handler commands run to completion one after the other, the  *)
(*            service being started by `enable` but never scheduled (the   *)
(*            replay uses an inert ProxyAgentExt), over the handlers       *)
(*            {"h1"} (VERIF_H = "1") or {"h1","h2"} (VERIF_H = "2");       *)
(*  "script"  the behaviours that follow the macro steps of the ndjson     *)
(*            file VERIF_SCRIPT (one script per "init" line), for the runs *)
(*            of the REAL service loop:                                    *)
(*              {"k":"init","installed":v,"id":name}  first line           *)
(*              {"k":"cmd","h":h,"c":c,"seq":s[,"spawn":"fail"]}          *)
(*              {"k":"iter"}     one iteration of monitor_thread           *)
(*              {"k":"agent"}    the installed agent writes status.json    *)
(*              {"k":"external"} the agent is replaced out of band         *)
(*              {"k":"crash"}    the service is killed from outside        *)
(*            (a step that is not enabled is recorded as a no-op).         *)
(*                                                                         *)
(* After each command / macro step one observation is appended: what the   *)
(* real directories, processes and setup-tool log must show.  The CONTENT  *)
(* of the status files is accumulated here from ExtHandler!wr.  The        *)
(* properties of ExtHandler.tla are checked along the way.                 *)
(***************************************************************************)
EXTENDS ExtHandler, Json, IOUtils, Sequences

VARIABLES sid,       \* script mode: the script being followed (its "id")
          content,   \* [Handlers -> [Seqs \cup {Empty} -> StatusVals]]: the `status` field of every status file
          hist,      \* observations so far
          k,         \* next line of the script / number of commands begun
          mid,       \* a macro step is in progress
          acc        \* setup-tool calls and status writes of the macro step in progress
gvars == <<vars, sid, content, hist, k, mid, acc>>

Mode   == IOEnv.VERIF_MODE
N      == atoi(IOEnv.VERIF_N)
GH     == IF IOEnv.VERIF_H = "1" THEN {"h1"} ELSE Handlers
Script == IF Mode = "script" THEN ndJsonDeserialize(IOEnv.VERIF_SCRIPT) ELSE << >>
NoAcc  == [calls |-> << >>, writes |-> << >>]

GInit ==
  /\ Init
  /\ IF Mode = "script"
     THEN \E i \in DOMAIN Script : /\ Script[i].k = "init" /\ installed = Script[i].installed
                                   /\ sid = Script[i].id /\ k = i + 1
     ELSE installed = "x0" /\ sid = "enum" /\ k = 0
  /\ content = [h \in Handlers |-> [s \in Seqs \cup {Empty} |-> None]]
  /\ hist = << >> /\ mid = FALSE /\ acc = NoAcc

\* the setup-tool call of the step just taken, if any
SetupCall ==
  CASE svc # None /\ lpc = "bak" /\ lpc' = "ins"   -> <<"backup">>
    [] svc # None /\ lpc = "ins" /\ lpc' = "insst" -> <<"install">>
    [] Ran("restore")                               -> <<"restore">>
    [] Ran("purge")                                 -> <<"purge">>
    [] hp # Idle /\ hp.pc = "setup"                 -> <<"uninstall">>
    [] OTHER                                        -> << >>

Snap(label, cs, ws) ==
  [step |-> label, curSeq |-> curSeq', content |-> content', stray |-> stray', tag |-> tag', hb |-> hb',
   svc |-> svc', installed |-> installed', backup |-> backup', agentUp |-> agentUp', aggVer |-> aggVer',
   st |-> st', cache |-> cache', decided |-> decided', calls |-> cs, writes |-> ws]

\* bookkeeping shared by every step; `done` = the command / macro step ends with this step
Book(done, label) ==
  /\ content' = IF wr' # NoWrite THEN [content EXCEPT ![wr'.h][wr'.s] = wr'.v] ELSE content
  /\ LET a == [calls |-> acc.calls \o SetupCall,
               writes |-> IF wr' # NoWrite THEN Append(acc.writes, wr') ELSE acc.writes]
     IN IF done
        THEN hist' = Append(hist, Snap(label, a.calls, a.writes)) /\ acc' = NoAcc /\ mid' = FALSE
        ELSE hist' = hist /\ acc' = a /\ mid' = TRUE
  /\ k' = IF Mode = "script" /\ done THEN k + 1 ELSE k

Res == IF hp.pc = "os" THEN "exit6" ELSE IF hp.pc = "start" /\ wr' # NoWrite THEN "exit7" ELSE "ok"
CmdLabel == [k |-> "cmd", h |-> hp.h, c |-> hp.c, seq |-> hp.seq, res |-> Res]

\* one handler step of the command in progress; spawnFail selects the exit-7 branch of `enable`
CmdStep(spawnFail) ==
  /\ hp # Idle
  /\ \/ OsCheck \/ InstallNoop \/ EnSeq \/ EnStatus \/ EnUntag
     \/ DisKill \/ UpdTag \/ UnCheck \/ UnSetup \/ UnDone \/ RsTag \/ RsSeq
     \/ (~spawnFail /\ EnStart)
     \/ (spawnFail /\ EnStartFail)
  /\ Book(hp' = Idle, CmdLabel)

\* --- mode "enum"
EnumNext ==
  \/ /\ hp = Idle /\ k < N
     /\ \E h \in GH, c \in Cmds, s \in Seqs :
          /\ (c # "enable") => s = CHOOSE x \in Seqs : TRUE
          /\ Begin(h, c, s)
     /\ k' = k + 1 /\ mid' = TRUE
     /\ UNCHANGED <<content, hist, acc>>
  \/ CmdStep(FALSE)

\* --- mode "script"
Line == Script[k]
More == k <= Len(Script) /\ Script[k].k # "init"
Skip(label) ==    \* the step is not enabled in this state: recorded as a no-op
  /\ UNCHANGED vars
  /\ content' = content
  /\ hist' = Append(hist, Snap(label, << >>, << >>))
  /\ UNCHANGED <<acc, mid>>
  /\ k' = k + 1

ScriptNext ==
  \/ \* a command: begin, then run to completion
     /\ ~mid /\ More /\ Line.k = "cmd"
     /\ Begin(Line.h, Line.c, Line.seq)
     /\ UNCHANGED <<content, hist, acc, k>> /\ mid' = TRUE
  \/ /\ mid /\ hp # Idle
     /\ CmdStep("spawn" \in DOMAIN Line /\ Line.spawn = "fail")
  \/ \* one iteration of the loop: from the top back to the top
     /\ More /\ Line.k = "iter" /\ hp = Idle /\ svc # None
     /\ (mid \/ lpc = "top")
     /\ LoopStep
     /\ Book(lpc' = "top", [k |-> "iter"])
  \/ /\ ~mid /\ More /\ Line.k = "iter" /\ svc = None /\ Skip([k |-> "iter", noop |-> TRUE])
  \/ /\ ~mid /\ More /\ Line.k = "agent"
     /\ IF ENABLED AgentReport
        THEN AgentReport /\ Book(TRUE, [k |-> "agent"])
        ELSE Skip([k |-> "agent", noop |-> TRUE])
  \/ /\ ~mid /\ More /\ Line.k = "external"
     /\ IF ENABLED ExternalInstall
        THEN ExternalInstall /\ Book(TRUE, [k |-> "external"])
        ELSE Skip([k |-> "external", noop |-> TRUE])
  \/ /\ ~mid /\ More /\ Line.k = "crash"
     /\ IF svc # None
        THEN Crash /\ Book(TRUE, [k |-> "crash"])
        ELSE Skip([k |-> "crash", noop |-> TRUE])

GNext == (IF Mode = "script" THEN ScriptNext ELSE EnumNext) /\ sid' = sid
GSpec == GInit /\ [][GNext]_gvars

Complete == ~mid /\ hp = Idle /\ (IF Mode = "script" THEN ~More ELSE k = N)
Emit == Complete => PrintT(<<"BEH", ToJson([id |-> sid, steps |-> hist])>>)
=============================================================================
