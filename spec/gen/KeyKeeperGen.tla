---------------------------- MODULE KeyKeeperGen ----------------------------
(***************************************************************************)
(* S->I generator for KeyKeeper.tla: the environment's choices come from a *)
(* script (ndjson, IOEnv.SCRIPT: seeded random histories and enumerated    *)
(* document transitions written by checks/kklib.py), the agent's steps are *)
(* the actions of KeyKeeper.tla unchanged.  At the end of every poll the   *)
(* state the specification prescribes is printed (<<"EXPECT", json>>); the *)
(* check replays the same script against the real key keeper and the       *)
(* scripted host and compares the projections poll by poll.                *)
(* Rows: {"e":"run", doc, named, latched, issued, dir, final, damaged}      *)
(*       {"e":"reconf", doc} {"e":"rotate", named} {"e":"relatch", g}       *)
(*       {"e":"crash"}                                                      *)
(*       {"e":"poll", status, acquire, g, attest, notify, mid: {at, doc}}   *)
(*       {"e":"end"}                                                        *)
(***************************************************************************)
EXTENDS KeyKeeper, Json, IOUtils
ZeroInc(g) == 0
GModeOf(r) == "audit"

Script == ndJsonDeserialize(IOEnv.SCRIPT)
VARIABLES i, run, poll, midDone
gvars == <<vars, i, run, poll, midDone>>

Row == Script[i]
SetOf(seq) == {seq[k] : k \in 1..Len(seq)}
Adv == i' = i + 1
Keep == UNCHANGED <<i, run, poll, midDone>>

GInit ==
  /\ host = [doc |-> DummyDoc, named |-> "none", latched |-> "none", issued |-> {}]
  /\ fs = [dir |-> "absent", final |-> NoFiles, tmp |-> NoFiles]
  /\ pc = "Idle" /\ loc = LocInit /\ mem = MemInit /\ policy = PolicyInit /\ act = NoAct /\ gh = GhInit
  /\ i = 1 /\ run = 0 /\ poll = 0 /\ midDone = FALSE

GRun ==
  /\ i <= Len(Script) /\ Row.e = "run" /\ pc \in {"Idle", "GetStatus", "Dead"}
  /\ host' = [doc |-> Row.doc, named |-> Row.named, latched |-> Row.latched, issued |-> SetOf(Row.issued)]
  /\ fs' = [dir |-> Row.dir, final |-> [g \in Guids |-> Row.final[g]], tmp |-> NoFiles]
  /\ gh' = [GhInit EXCEPT !.damaged = SetOf(Row.damaged)]
  /\ pc' = "MkKeyDir" /\ loc' = LocInit /\ mem' = MemInit /\ policy' = PolicyInit /\ act' = NoAct
  /\ Adv /\ run' = run + 1 /\ poll' = 0 /\ midDone' = FALSE

GReconf ==
  /\ i <= Len(Script) /\ Row.e = "reconf" /\ pc = "GetStatus"
  /\ host' = [host EXCEPT !.doc = Row.doc]
  /\ gh' = [gh EXCEPT !.clean = FALSE] /\ Did("Reconfigure", "-", "none")
  /\ Adv /\ UNCHANGED <<fs, pc, loc, mem, policy, run, poll, midDone>>

GRotate ==
  /\ i <= Len(Script) /\ Row.e = "rotate" /\ pc = "GetStatus"
  /\ host' = [host EXCEPT !.named = Row.named, !.latched = "none"]
  /\ gh' = [gh EXCEPT !.clean = FALSE] /\ Did("Rotate", "-", "none")
  /\ Adv /\ UNCHANGED <<fs, pc, loc, mem, policy, run, poll, midDone>>

GRelatch ==
  /\ i <= Len(Script) /\ Row.e = "relatch" /\ pc = "GetStatus"
  /\ host' = [host EXCEPT !.named = Row.g, !.latched = Row.g]
  /\ gh' = [gh EXCEPT !.clean = FALSE] /\ Did("Relatch", "-", Row.g)
  /\ Adv /\ UNCHANGED <<fs, pc, loc, mem, policy, run, poll, midDone>>

GCrash ==
  /\ i <= Len(Script) /\ Row.e = "crash" /\ pc = "GetStatus"
  /\ Crash /\ Adv /\ UNCHANGED <<run, poll, midDone>>

IsPoll == i <= Len(Script) /\ Row.e = "poll"

GMid(at) ==        \* the host changes its document while the agent is between two requests of one poll
  /\ IsPoll /\ ~midDone /\ Row.mid.at = at
  /\ host' = [host EXCEPT !.doc = Row.mid.doc]
  /\ gh' = [gh EXCEPT !.clean = FALSE] /\ Did("Reconfigure", "mid", "none")
  /\ midDone' = TRUE /\ UNCHANGED <<fs, pc, loc, mem, policy, i, run, poll>>
MidPending(at) == IsPoll /\ ~midDone /\ Row.mid.at = at

\* evaluated in the Sleep step: the state at the moment the next status request reaches the host
Expect == [run |-> run, poll |-> poll + 1, mem |-> mem', final |-> fs.final, tmp |-> fs.tmp, dir |-> fs.dir,
           policy |-> policy, changed |-> loc.changed, rulesChanged |-> loc.rulesChanged,
           latched |-> host.latched, named |-> host.named, clean |-> gh.clean, doc |-> host.doc,
           state |-> StateOf(host.doc)]

GAgent ==
  \/ /\ pc = "Dead" /\ Restart /\ Keep
  \/ /\ AgentInternal /\ Keep
  \/ /\ IsPoll /\ pc = "GetStatus" /\ GetStatus(Row.status) /\ Keep
  \/ /\ IsPoll /\ pc = "Acquire" /\ ~MidPending("acquire") /\ Acquire(Row.acquire, IF Row.acquire = "ok" THEN Row.g ELSE "none") /\ Keep
  \/ /\ pc = "Acquire" /\ GMid("acquire")
  \/ /\ IsPoll /\ pc = "StoreCreateTmp" /\ StoreCreateTmp("ok") /\ Keep
  \/ /\ IsPoll /\ (StoreWriteTmp("ok") \/ StoreRename("ok") \/ ReadBack("ok")) /\ Keep
  \/ /\ IsPoll /\ pc = "Attest" /\ ~MidPending("attest") /\ Attest(Row.attest) /\ Keep
  \/ /\ pc = "Attest" /\ GMid("attest")
  \/ /\ IsPoll /\ pc = "Sleep"
     /\ Sleep(Row.notify)
     /\ PrintT(<<"EXPECT", ToJson(Expect)>>)
     /\ Adv /\ poll' = poll + 1 /\ midDone' = FALSE /\ UNCHANGED run

GEnd == /\ i <= Len(Script) /\ Row.e = "end" /\ pc = "GetStatus"
        /\ PrintT(<<"GENDONE", i>>) /\ pc' = "Idle" /\ Adv
        /\ UNCHANGED <<host, fs, loc, mem, policy, act, gh, run, poll, midDone>>

GNext == GRun \/ GReconf \/ GRotate \/ GRelatch \/ GCrash \/ GAgent \/ GEnd
GSpec == GInit /\ [][GNext]_gvars

=============================================================================
