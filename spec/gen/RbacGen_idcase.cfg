SPECIFICATION Spec
CONSTANTS
  Slice = "idcase"
  Full = FALSE
  Emit = TRUE
INVARIANTS PermInvariant CaseInvariant DisabledAllows MatchedNotGrantedDenies NoMatchGivesDefault EmitCase
CHECK_DEADLOCK FALSE
