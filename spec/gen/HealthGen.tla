------------------------------ MODULE HealthGen ------------------------------
(* Generator: prints every edge of Health's reachable graph (one line per transition). *)
EXTENDS Health, Json

EdgeOut == PrintT(<<"EDGE", ToJson([s |-> <<st, fc, sc, gF, gS>>, in |-> last', out |-> st',
                                    t |-> <<st', fc', sc', gF', gS'>>])>>)
=============================================================================
