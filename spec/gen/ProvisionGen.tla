----------------------------- MODULE ProvisionGen -----------------------------
(***************************************************************************)
(* Generators for C16.  A history variable records, per step, the label    *)
(* and what the specification expects the implementation to show after it  *)
(* (flags, finished tick as a clock index, status.tag, where the acting    *)
(* task goes next, the query record).  VIEW hides the history.             *)
(*  - ProvisionGen.cfg      : -simulate, prints complete behaviours REPLAY *)
(*  - ProvisionGen_cexq.cfg : exhaustive, prints one shortest history for  *)
(*    every state in which a query answer breaks the statement (CEXQ)      *)
(*  - ProvisionGen_cexz.cfg : the same with queries naming instant 0       *)
(*  - ProvisionGen_cext.cfg : file steps; every state in which status.tag  *)
(*    holds something no writer completely wrote (CEXT)                    *)
(*  - ProvisionGen_cexi.cfg : file steps, no reset; every state in which   *)
(*    status.tag is about to be rewritten in place (CEXI)                  *)
(* The driver reads the key keeper's channel state in the same step as     *)
(* get_state (no gate in between), so a latch change between the two is    *)
(* not generated.                                                          *)
(***************************************************************************)
EXTENDS Provision, Json, Sequences

VARIABLE hist
gvars == <<vars, hist>>
gview == view

ActorNext(t) == IF t \in Writers THEN wpc'[t] ELSE "-"
Snap == [t |-> last'.t, i |-> last'.i, a |-> last'.a, x |-> last'.x,
         flags |-> flags', fin |-> fin', clock |-> clock', latch |-> latch',
         tag |-> tagF', pc |-> ActorNext(last'.t),
         q |-> IF last'.t = "q" THEN qs'[last'.i] ELSE QIdle,
         ok |-> [q |-> QueryTruthPos', z |-> QueryTruth', c |-> QueryComplete', t |-> TagAtomic']]

GInit == Init /\ hist = <<>>
GNext == /\ Next
         /\ ~(last'.a = "latch" /\ \E i \in 1..NQ : qs[i].pc = "qchan")
         /\ last'.a \notin {"qrefused", "wrefused"}    \* unanswered polls are driven with the real client (waitq), not here
         /\ hist' = Append(hist, Snap)
GSpec == GInit /\ [][GNext]_gvars

Terminal == /\ \A w \in Writers : wpc[w] \in {"idle", "serving"}
            /\ \A i \in 1..NQ : qs[i].pc = "done"
            /\ wpc["ls"] = "serving"
            /\ kkLeft = 0 /\ rdLeft = 0
PrintReplay == Terminal => PrintT(<<"REPLAY", ToJson(hist)>>)
\* stop a behaviour once it is complete (simulation starts the next one)
NotPastTerminal == ~Terminal

BadQ == ~QueryTruthPos
BadZ == ~QueryTruth
BadC == ~QueryComplete
BadT == ~TagAtomic
\* a writer whose descriptor now names status.tag is about to write a different message into it
BadI == \E w \in Writers : fd[w] = "tag" /\ wpc[w] = "wwrite" /\ DoWrite(w, wloc[w].msg, tmpF, tagF, fd)[2] # tagF
PrintCexI == BadI => PrintT(<<"CEXI", ToJson(hist)>>)
StopI == ~BadI
PrintCexQ == BadQ => PrintT(<<"CEXQ", ToJson(hist)>>)
PrintCexZ == BadZ => PrintT(<<"CEXZ", ToJson(hist)>>)
PrintCexT == BadT => PrintT(<<"CEXT", ToJson(hist)>>)
StopQ == ~BadQ
StopZ == ~BadZ
StopT == ~BadT
=============================================================================
