SPECIFICATION GSpec
CONSTANTS
  Threads <- GEN_Threads
  AgentPids <- MC_AgentPids
  Ips = {"A", "B", "C"}
  Ports = {"p", "q"}
  Protos = {"tcp", "udp", "other"}
  TCP = "tcp"
  Listable <- GEN_Listable
  SPorts = {1, 2, 3, 4, 5, 6}
  Proxy <- MC_Proxy
  K = 4
  Bounded = TRUE
  AllowDirect = TRUE
  AllowAbort = FALSE
  MaxLeft = 2
  GenDepth = 24
INVARIANTS Emit RedirectExactly RecordTruth NoRecordOtherwise AgentUntouched
CHECK_DEADLOCK FALSE
