\* thorough tier: every busy, every errAt, every stop point
SPECIFICATION GSpec
CONSTANTS
  RetryCount = 5
  MaxRetries = 5
  BusyChoices = {0, 1, 2, 3, 4, 5, 6, 7}
  ErrAtChoices = {0, 1, 2, 3, 4, 5, 6}
  RdFailChoices = {5}
  MaxConn = 0
  StartPs = TRUE
  StartRd = TRUE
  StartKk = TRUE
  StopAllowed = TRUE
  StopAtChoices = {"start", "fail1", "fail2", "fail3", "fail4", "fail5", "settled"}
INVARIANTS PrintScn
CHECK_DEADLOCK FALSE
