------------------------------ MODULE RobustGen ------------------------------
(* Cut-vector generator: every width sequence whose byte length lies within 4 of N (scaled), tail of <= 6 characters. *)
EXTENDS RobustCut, Json
VARIABLE v
GInit == v \in UNION {[1..k -> Widths] : k \in 1..6}
GNext == UNCHANGED v
GSpec == GInit /\ [][GNext]_v
Near == Sum(v) >= N - 4 /\ Sum(v) <= N + 4
CutTotal == CutOK(v, N)
Emit == Near => PrintT(<<"CUT", ToJson([w |-> v, sum |-> Sum(v), naiveFails |-> NaiveSliceFails(v, N),
                                         keep |-> Sum(Cut(v, N))])>>)
=============================================================================
