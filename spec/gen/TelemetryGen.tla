---------------------------- MODULE TelemetryGen ----------------------------
(* Generator: one line per complete behaviour of Telemetry (file set, failure pattern) with what the       *)
(* specification expects the host to see: the documents in order (event ids), the reply pattern, what was   *)
(* dropped.  posts/composed are part of the state, so every (file set, failure pattern) is a distinct       *)
(* terminal state and is printed exactly once.                                                              *)
EXTENDS Telemetry, Json

Behaviour == [files    |-> [f \in DOMAIN files |-> [bad |-> files[f].bad, ids |-> files[f].ids]],
              ev       |-> [i \in DOMAIN ev |-> [sz |-> ev[i].sz, cl |-> ev[i].cl]],
              composed |-> [b \in DOMAIN composed |-> [ids |-> composed[b].ids, size |-> composed[b].size]],
              posts    |-> [p \in DOMAIN posts |-> [b |-> posts[p].b, ok |-> posts[p].ok]],
              dropped  |-> dropped,
              present  |-> present]

PrintDone == pc = "done" => PrintT(<<"REPLAY", ToJson(Behaviour)>>)
=============================================================================
