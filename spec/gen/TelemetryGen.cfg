\* every file set with <= 3 events in <= 2 files (five size classes, Max = 6 units), every failure pattern
SPECIFICATION Spec
CONSTANTS
  Max = 6
  Envelope = 0
  MaxTries = 5
  Sizes = {1, 2, 3, 5, 6}
  Classes = {"any"}
  MaxFiles = 2
  MaxEv = 3
  MaxTotal = 3
INVARIANTS PrintDone
CHECK_DEADLOCK FALSE
