SPECIFICATION Spec
CONSTANTS
  Split = FALSE
  MaxKeeper = 4
INVARIANTS Emit
CHECK_DEADLOCK FALSE
