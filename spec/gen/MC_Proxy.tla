------------------------------ MODULE MC_Proxy ------------------------------
EXTENDS Proxy

Root == [id |-> "root", elevated |-> TRUE]
User == [id |-> "user", elevated |-> FALSE]
Idents2 == {Root, User}

ShapesAll == [trav : BOOLEAN, prov : BOOLEAN, rbac : BOOLEAN, exempt : BOOLEAN, over : BOOLEAN,
              framing : {"cl", "chunked"}, spoof : {0, 2}]
Plain(rb) == [trav |-> FALSE, prov |-> FALSE, rbac |-> rb, exempt |-> FALSE, over |-> FALSE, framing |-> "cl", spoof |-> 0]
ShapesPlain == {Plain(TRUE), Plain(FALSE)}
ShapesOne == {Plain(TRUE)}

DestsAll == A!Dests
DestsTwo == {"ws", "imds"}
DestsWs == {"ws"}
IdentsRoot == {Root}

\* bound the failed counter for exhaustive runs
FailedBound == failed <= 4
=============================================================================
