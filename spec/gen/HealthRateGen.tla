---------------------------- MODULE HealthRateGen ----------------------------
EXTENDS HealthRate, Json
St(e, g, gv) == <<e, g, gv>>
EdgeOut == PrintT(<<"EDGE", ToJson([s |-> <<entry, gSince, gVal>>, k |-> lastKey', v |-> gVal'[lastKey'],
                                    out |-> emitted', t |-> <<entry', gSince', gVal'>>])>>)
=============================================================================
