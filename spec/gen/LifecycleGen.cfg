\* quick tier: busy in {0,1,2,6}; the sandbox can only make every start_internal fail (rdFail = 5)
SPECIFICATION GSpec
CONSTANTS
  RetryCount = 5
  MaxRetries = 5
  BusyChoices = {0, 1, 2, 6}
  ErrAtChoices = {0, 1, 2}
  RdFailChoices = {5}
  MaxConn = 0
  StartPs = TRUE
  StartRd = TRUE
  StartKk = TRUE
  StopAllowed = TRUE
  StopAtChoices = {"start", "fail1", "fail2", "settled"}
INVARIANTS PrintScn
CHECK_DEADLOCK FALSE
