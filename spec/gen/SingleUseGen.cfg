SPECIFICATION Spec
CONSTANTS
  MaxOps = 5
INVARIANTS Consumed Emit
CHECK_DEADLOCK FALSE
