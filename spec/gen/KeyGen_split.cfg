SPECIFICATION Spec
CONSTANTS
  Split = TRUE
  MaxKeeper = 2
INVARIANTS Emit
CHECK_DEADLOCK FALSE
