SPECIFICATION GSpec
CONSTANTS
  SameFs = TRUE
  LinkBackup = FALSE
  ClockSteps = FALSE
  StaleCheck = FALSE
INVARIANTS
  Emit
  TypeOK
  RoundTrip
  StopBeforeReplaceObs
  StartedAfter
  InstallExact
  RestoreNoBackupIsNoop
  RestoreDeletion
  UninstallPackageRemoves
  PurgeOnlyBackup
  FrameObs
  RestoreExact
  BackupExact
  RtMeansBackupHeld
  FailOnlyFromPartialBackup
  LnkSound
  BackupIsSeparate
CHECK_DEADLOCK FALSE
