SPECIFICATION GSpec
INVARIANTS
  Emit
  TypeOK
  RoundTrip
  StopBeforeReplaceObs
  StartedAfter
  InstallExact
  RestoreNoBackupIsNoop
  RestoreDeletion
  UninstallPackageRemoves
  PurgeOnlyBackup
  FrameObs
  RestoreExact
  BackupExact
  RtMeansBackupHeld
  FailOnlyFromPartialBackup
CHECK_DEADLOCK FALSE
