SPECIFICATION GSpec
CONSTANTS
  N = 8
INVARIANTS CutTotal Emit
CHECK_DEADLOCK FALSE
