SPECIFICATION Spec
INVARIANTS P_C02_DecisionIsTheDeclaredOne
POSTCONDITION Accepted
CHECK_DEADLOCK FALSE
