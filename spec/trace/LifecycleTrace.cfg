SPECIFICATION TSpec
CONSTANTS
  RetryCount = 5
  MaxRetries = 5
  MinGapMs = 1000
  BusyChoices = {0}
  ErrAtChoices = {0}
  RdFailChoices = {0}
  MaxConn = 0
  StartPs = FALSE
  StartRd = FALSE
  StartKk = FALSE
  StopAllowed = FALSE
INVARIANTS P_ListenerRunningOnlyAfterBind P_ListenerFailureIsReported P_BindAttemptsBounded P_RetrySleepRespected
  P_OtherErrorFailsAtOnce P_GivesUpOnlyAfterAllRetries P_ProvisionFlagOnlyAfterRunning P_BindSucceedsLeadsToRunning
  P_RedirectorRetriesBounded P_RedirectorFailureIsReported P_NoRunningAfterStopped P_NoAcceptAfterCancelProcessed
  P_ListenerServesWhileRunning P_StopStopsEverything P_NullBpfAfterStop T_Inputs
POSTCONDITION Accepted
CHECK_DEADLOCK FALSE
