SPECIFICATION TSpec
CONSTANTS
  SameFs = TRUE
  LinkBackup = FALSE
  ClockSteps = FALSE
  StaleCheck = FALSE
INVARIANTS
  P_RoundTrip
  P_StopBeforeReplace
  P_StartedAfter
  P_InstallExact
  P_RestoreNoBackupIsNoop
  P_RestoreDeletion
  P_UninstallPackageRemoves
  P_PurgeOnlyBackup
  P_Frame
POSTCONDITION Accepted
CHECK_DEADLOCK FALSE
