SPECIFICATION TSpec
CONSTANTS
  Threshold = 20
  MaxCount = 10000
  GhostCap = 23
INVARIANTS P_ErrorOnlyAfterSustainedFailure P_NeverErrorAfterSuccess P_TwoSuccessesGiveSuccess P_ReportDomain
POSTCONDITION Accepted
CHECK_DEADLOCK FALSE
