------------------------------ MODULE RbacTrace ------------------------------
(***************************************************************************)
(* C02 on decisions observed at the real listener: each event carries the  *)
(* rule document in force, the caller the agent resolved, the URL and what *)
(* happened (relayed = allowed, 403 = denied).  The expected decision is    *)
(* computed here by Rbac!Decision from (document, caller, URL) ALONE, so a  *)
(* decision that depends on anything else -- what the same connection was   *)
(* granted before, the previous document, the order of requests -- is       *)
(* rejected.  Where the statement is silent (a request repeating a query    *)
(* key with different values) both readings are accepted.                   *)
(* Event: {"e":"dec","id":..,"doc":Doc,"caller":{user,groups,proc,exe},     *)
(*         "url":{path,q},"allowed":b}                                      *)
(***************************************************************************)
EXTENDS Naturals, Sequences, FiniteSets, TLC, Json, IOUtils
R == INSTANCE Rbac
Rec == ndJsonDeserialize(IOEnv.TRACE)
VARIABLES l, o
Init == l = 1 /\ o = [e |-> "init"]
Next == l <= Len(Rec) /\ l' = l + 1 /\ o' = Rec[l]
Spec == Init /\ [][Next]_<<l, o>>
Range(s) == {s[i] : i \in 1..Len(s)}
Caller == [user |-> o.caller.user, groups |-> Range(o.caller.groups), proc |-> o.caller.proc, exe |-> o.caller.exe]
P_C02_DecisionIsTheDeclaredOne ==
  (o.e = "dec") => (o.allowed = R!Decision(o.doc, Caller, o.url) \/ o.allowed = R!DecisionAny(o.doc, Caller, o.url))
Accepted == IF TLCGet("stats").diameter - 1 = Len(Rec) THEN TRUE
            ELSE PrintT(<<"UNMATCHED", TLCGet("stats").diameter, Len(Rec)>>) /\ FALSE
=============================================================================
