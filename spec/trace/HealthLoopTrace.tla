--------------------------- MODULE HealthLoopTrace ---------------------------
(***************************************************************************)
(* Trace validation of runs of the REAL monitor loop (service_main.rs       *)
(* monitor_thread, hook H10, paused tokio clock) against C20 as the VM      *)
(* agent sees it: the status FILE of the current sequence number.           *)
(*                                                                         *)
(* Property level, like HealthTrace: the status value is taken from the     *)
(* file the loop left behind, the ghost run lengths are advanced by         *)
(* Health!GhostStep from the driver's observation, and Health's invariants  *)
(* are evaluated on it -- any automaton with C20's hysteresis is accepted.  *)
(* On top of that, after every completed poll the file of the current       *)
(* sequence number must be a report of the loop that carries THIS poll's    *)
(* observation (HealthLoop!NoStaleHandlerText / the by and obs fields of    *)
(* HealthLoop!CurrentSeqFileIsThisPollsReport; a skipped write of an        *)
(* identical document is invisible and accepted).                           *)
(*                                                                         *)
(* Events (files: sequence number -> [by, st, obs] digest of <seq>.status): *)
(*   {"e":"reset","cur":s,"files":{..}}      new history: `enable` has run, *)
(*                                           a fresh loop is about to start *)
(*   {"e":"seq","to":s,"files":{..}}         the enable handler's two calls *)
(*   {"e":"install","rc":n}                  first half of an iteration on  *)
(*                                           a new number under a version   *)
(*                                           mismatch: `setup install` with *)
(*                                           exit code n (4 = not started); *)
(*                                           counts as ONE failed           *)
(*                                           observation (HealthLoop!Install)*)
(*   {"e":"poll","ok":0|1,"obs":o,"files":{..}}   one completed poll        *)
(* A file that is not there is the digest by = "absent" (a run on which the *)
(* handler's or the loop's document never reaches the status folder is an   *)
(* observation, rejected by P_CurrentSeqFileIsLoopReport).                  *)
(***************************************************************************)
EXTENDS HealthLoop, Json, IOUtils, Sequences

Rec == ndJsonDeserialize(IOEnv.TRACE)
VARIABLE l
tvars == <<allvars, l>>

TInit == /\ Init
         /\ cur = "none" /\ file = [none |-> Absent] /\ agg = "none"
         /\ memo = [seq |-> "none", doc |-> Absent] /\ rep = Absent /\ polled = FALSE
         /\ cached = "none" /\ mismatch = FALSE /\ code = 0
         /\ l = 1

Reset == /\ l <= Len(Rec) /\ Rec[l].e = "reset"
         /\ st' = "transitioning" /\ fc' = 0 /\ sc' = 0 /\ gF' = 0 /\ gS' = 0 /\ last' = "none"
         /\ cur' = Rec[l].cur /\ file' = Rec[l].files /\ agg' = "none"
         /\ rep' = Absent /\ polled' = FALSE
         /\ cached' = "none" /\ mismatch' = (Rec[l].mismatch = 1) /\ code' = 0
         /\ UNCHANGED memo
         /\ l' = l + 1

SeqEv == /\ l <= Len(Rec) /\ Rec[l].e = "seq"
         /\ cur' = Rec[l].to /\ file' = Rec[l].files
         /\ polled' = FALSE
         /\ UNCHANGED <<vars, agg, memo, rep, cached, mismatch, code>>
         /\ l' = l + 1

\* only where the loop's own rule has one: a number it has not seen yet, under a version mismatch
InstallEv == /\ l <= Len(Rec) /\ Rec[l].e = "install"
             /\ InstallPending
             /\ GhostStep(FALSE)
             /\ code' = Rec[l].rc
             /\ cached' = cur
             /\ UNCHANGED <<st, fc, sc, cur, file, agg, memo, rep, polled, mismatch>>
             /\ l' = l + 1

PollEv == /\ l <= Len(Rec) /\ Rec[l].e = "poll"
          /\ GhostStep(Rec[l].ok = 1)
          /\ file' = Rec[l].files
          /\ st' = Rec[l].files[cur].st       \* the report is what the file of the current number says
          /\ agg' = Rec[l].obs
          /\ rep' = LoopDoc(st', Rec[l].obs)
          /\ polled' = TRUE
          /\ cached' = cur
          /\ UNCHANGED <<fc, sc, cur, memo, mismatch, code>>
          /\ l' = l + 1

TNext == Reset \/ SeqEv \/ InstallEv \/ PollEv
TSpec == TInit /\ [][TNext]_tvars

\* the file of the current sequence number is the loop's, of this poll
P_CurrentSeqFileIsLoopReport == polled => file[cur].by = "loop"
P_CurrentSeqFileCarriesThisPoll == polled => file[cur].obs = rep.obs
\* C20 on what that file says
P_ReportDomain == polled => st \in {"success", "transitioning", "error"}
P_ErrorOnlyAfterSustainedFailure == ErrorOnlyAfterSustainedFailure
P_NeverErrorAfterSuccess == NeverErrorAfterSuccess
P_TwoSuccessesGiveSuccess == TwoSuccessesGiveSuccess

Accepted == IF TLCGet("stats").diameter - 1 = Len(Rec) THEN TRUE
            ELSE PrintT(<<"UNMATCHED", TLCGet("stats").diameter, Len(Rec)>>) /\ FALSE
=============================================================================
