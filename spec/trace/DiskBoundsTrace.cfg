SPECIFICATION TSpec
CONSTANTS
  Machine = "all"
  CrashPoints = FALSE
  RollFaults = TRUE
  RollKills = TRUE
  MaxCount = 3
  Limit = 4
  MaxWrite = 6
  PreArch = 0
  PreSizes = {4}
  PreCur = {0}
  Cap = 3
  MaxPush = 2
  QueueBound = 4
  PreEv = 0
  FlushFaults = TRUE
  PreTmp = 0
  MaxDumps = 3
  PreDumps = 0
  MaxIds = 0
INVARIANTS T_LogCount T_LogCountAfterRoll T_LogSize T_EvCount T_DumpCount
PROPERTIES T_EvDropAtCap T_DumpOldestFirst
POSTCONDITION Accepted
CHECK_DEADLOCK FALSE
