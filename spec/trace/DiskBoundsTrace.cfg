SPECIFICATION TSpec
CONSTANTS
  Machine = "all"
  CrashPoints = FALSE
  RollFaults = TRUE
  RollKills = TRUE
  LogListFaults = TRUE
  ListingDesign = "skip"
  RoomFaults = TRUE
  RollDesign = "rename"
  MaxCount = 3
  Limit = 4
  MaxWrite = 6
  PreArch = 0
  PreSizes = {4}
  PreCur = {0}
  Cap = 3
  MaxPush = 2
  QueueBound = 4
  PreEv = 0
  FlushFaults = TRUE
  PreTmp = 0
  MaxDumps = 3
  ListFaults = TRUE
  DumpDesign = "cleanup-first"
  PreDumps = 0
  MaxIds = 0
INVARIANTS T_LogCount T_LogCountAfterRoll T_LogSize T_EvCount T_DumpCount
PROPERTIES T_EvDropAtCap T_DumpNoGrowthAtMax T_DumpOldestFirst
POSTCONDITION Accepted
CHECK_DEADLOCK FALSE
