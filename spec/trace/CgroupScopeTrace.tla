-------------------------- MODULE CgroupScopeTrace --------------------------
(***************************************************************************)
(* Property-level trace validation of the attach scope (C06): the REAL      *)
(* proxy_agent_shared::linux::get_cgroup2_mount_path (with the configured   *)
(* fallback, as Redirector::attach_bpf_prog composes them) runs in a        *)
(* private mount namespace whose cgroup2 mounts are the table of the row:   *)
(*   {"e":"mounts","roots":[[..],..]}   a new namespace: the roots of its   *)
(*        cgroup2 mounts, read from /proc/self/mountinfo inside it          *)
(*   {"e":"resolve","target":[..]}      the cgroup of the directory the     *)
(*        agent would attach connect4 to                                    *)
(* Nothing is assumed about HOW the agent chooses: any choice that covers   *)
(* every mounted sub-tree is accepted (CgroupScope!ScopeCoversMounts).      *)
(***************************************************************************)
EXTENDS CgroupScope, Json, IOUtils, TLC

TRows == ndJsonDeserialize(IOEnv.TRACE)
VARIABLE l
tvars == <<cvars, l>>
Row == TRows[l]

TInit == mounts = <<>> /\ target = <<"none">> /\ attached = FALSE /\ seen = {} /\ l = 1
TMounts == /\ Row.e = "mounts" /\ mounts' = Row.roots /\ target' = <<"none">> /\ attached' = FALSE /\ UNCHANGED seen
TResolve == /\ Row.e = "resolve" /\ target' = <<"cg", Row.target>> /\ attached' = TRUE /\ UNCHANGED <<mounts, seen>>
TNext == /\ l <= Len(TRows) /\ l' = l + 1 /\ (TMounts \/ TResolve)
TSpec == TInit /\ [][TNext]_tvars

P_C06_AttachScope == ScopeCoversMounts

Accepted == IF TLCGet("stats").diameter - 1 = Len(TRows) THEN TRUE
            ELSE PrintT(<<"UNMATCHED", TLCGet("stats").diameter, Len(TRows)>>) /\ FALSE
=============================================================================
