--------------------------- MODULE PolicyMapTrace ---------------------------
(***************************************************************************)
(* Property-level trace validation of the user-space redirector against     *)
(* the REAL kernel maps (checks/realmaps.py; driver vdrv/realmaps.rs: the   *)
(* tree's eBPF object loaded with BpfObject::from_ebpf_file, nothing        *)
(* attached).  Two clauses, both judged on what an independent reader of    *)
(* the kernel map (raw bpf(2) on a duplicate of the map descriptor) sees:   *)
(*                                                                          *)
(*  P_MapAsInstructed (C06 "an address CURRENTLY listed in the redirect     *)
(*    policy", C09 "interception follows the mode"): after every            *)
(*    instruction update_*_redirect_policy(on) the keys of policy_map are   *)
(*    exactly the (ip, port, TCP) of the endpoints whose LAST instruction   *)
(*    was "on" (at start: what start_internal listed), each with the proxy  *)
(*    listener as its value.  Nothing is assumed about how the agent gets   *)
(*    there.                                                                *)
(*  P_ConsumedAbsent (C07, single use): once the accept path has called     *)
(*    remove_audit for a source port -- whatever that call returned, the    *)
(*    accept path only logs a failure -- the record the kernel published    *)
(*    under the port is no longer in audit_map.                             *)
(*                                                                          *)
(* The model state is Ebpf's: instructions are PolicyMap!Instruct (=         *)
(* Ebpf!PolicyAdd / PolicyRemove), a kernel publication is Ebpf!Put on      *)
(* auditMap, a consumption is Ebpf!Release.                                 *)
(*                                                                          *)
(* Rows: {"e":"config","lip":s,"lport":n,"sports":[n..]}  first row: the     *)
(*     proxy listener and the source ports the trace talks about            *)
(*  {"e":"start","eps":[ep..]}                a fresh object, eps listed    *)
(*  {"e":"instr","ep":"ws|imds|ga","on":b}                                  *)
(*  {"e":"map","entries":[{"ip":s,"port":n,"proto":n,"to_ip":s,"to_port":n}]}*)
(*  {"e":"put","sport":n,"rec":{..}}          the kernel hook's update      *)
(*  {"e":"consume","sport":n,"ok":b}          remove_audit was called       *)
(*  {"e":"probe","sport":n,"present":b}       raw lookup in audit_map       *)
(***************************************************************************)
EXTENDS PolicyMap, Json, IOUtils

TRows == ndJsonDeserialize(IOEnv.TRACE)

TR_Proxy == [ip |-> TRows[1].lip, port |-> TRows[1].lport]
TR_SPorts == {0} \cup {TRows[1].sports[i] : i \in DOMAIN TRows[1].sports}

VARIABLES l,      \* next row
          obs,    \* the policy map as last observed: Key -> [ip, port]
          fresh,  \* the last row was an observation of the policy map
          seen    \* the last probe of the audit map: [sport, present] (sport 0: none)
tvars == <<vars, want, l, obs, fresh, seen>>

NoProbe == [sport |-> 0, present |-> FALSE]
TInit == /\ Started({}) /\ l = 1 /\ obs = EmptyMap /\ fresh = FALSE /\ seen = NoProbe

Row == TRows[l]
SetOf(seq) == {seq[i] : i \in DOMAIN seq}

Config == /\ Row.e = "config" /\ UNCHANGED <<vars, want, obs>> /\ fresh' = FALSE /\ seen' = NoProbe

Start == /\ Row.e = "start"
         /\ policy' = MapFor(SetOf(Row.eps)) /\ want' = [e \in EpNames |-> e \in SetOf(Row.eps)]
         /\ auditMap' = <<>> /\ truth' = [s \in SPorts |-> None] /\ left' = [s \in SPorts |-> None]
         /\ UNCHANGED <<skip, localMap, pc, cur, lastOther, obs>> /\ fresh' = FALSE /\ seen' = NoProbe

Instr == /\ Row.e = "instr" /\ Instruct(Row.ep, Row.on)
         /\ UNCHANGED obs /\ fresh' = FALSE /\ seen' = NoProbe

ObsOf(E) == [k \in {Key(x.ip, x.port, x.proto) : x \in E} |->
               LET x == CHOOSE y \in E : Key(y.ip, y.port, y.proto) = k IN [ip |-> x.to_ip, port |-> x.to_port]]
MapRow == /\ Row.e = "map" /\ obs' = ObsOf(SetOf(Row.entries)) /\ fresh' = TRUE
          /\ UNCHANGED <<vars, want>> /\ seen' = NoProbe

\* the kernel hook publishes a record under the source port of a connection that is now live
PutRow == /\ Row.e = "put"
          /\ auditMap' = Put(auditMap, AKey(TCP, Row.sport), Row.rec)
          /\ truth' = [truth EXCEPT ![Row.sport] = [live |-> TRUE]]
          /\ UNCHANGED <<policy, skip, localMap, pc, cur, lastOther, left, want, obs>> /\ fresh' = FALSE /\ seen' = NoProbe

\* the accept path called remove_audit(sport): the record is consumed (Ebpf!Release)
Consume == /\ Row.e = "consume" /\ Release(Row.sport)
           /\ UNCHANGED <<want, obs>> /\ fresh' = FALSE /\ seen' = NoProbe

Probe == /\ Row.e = "probe" /\ seen' = [sport |-> Row.sport, present |-> Row.present]
         /\ UNCHANGED <<vars, want, obs>> /\ fresh' = FALSE

TNext == /\ l <= Len(TRows) /\ l' = l + 1
         /\ (Config \/ Start \/ Instr \/ MapRow \/ PutRow \/ Consume \/ Probe)
TSpec == TInit /\ [][TNext]_tvars

P_MapAsInstructed == fresh => obs = MapFor({e \in EpNames : want[e]})
P_ConsumedAbsent == (seen.sport # 0 /\ seen.present) => HasRec(seen.sport)
\* not part of C07's statement (a lost record makes its connection unattributed, i.e. refused): reported as drift only
D_UnconsumedKept == (seen.sport # 0 /\ HasRec(seen.sport)) => seen.present

Accepted == IF TLCGet("stats").diameter - 1 = Len(TRows) THEN TRUE
            ELSE PrintT(<<"UNMATCHED", TLCGet("stats").diameter, Len(TRows)>>) /\ FALSE
=============================================================================
