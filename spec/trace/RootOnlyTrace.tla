--------------------------- MODULE RootOnlyTrace ---------------------------
(***************************************************************************)
(* Property-level trace validation of C03's first clause on a directed     *)
(* family: callers whose kernel record says "not elevated" but whose        *)
(* ACCOUNT belongs to privileged-looking groups (root, sudo, wheel, adm,    *)
(* Administrators) in the name service of the machine.  One row per request *)
(* observed on the real ProxyServer:                                        *)
(*   {"e":"req","id":s,"dest":"ws"|"ga","kernelElevated":b,"status":n,      *)
(*    "relayed":b}                                                          *)
(* "Root-only" is decided by what the kernel recorded for the connect       *)
(* (is_admin = uid 0), never by group membership of the account.            *)
(***************************************************************************)
EXTENDS Naturals, Sequences, TLC, Json, IOUtils

Rec == ndJsonDeserialize(IOEnv.TRACE)
VARIABLES l, last
tvars == <<l, last>>
Init == l = 1 /\ last = [e |-> "init"]
Next == l <= Len(Rec) /\ l' = l + 1 /\ last' = Rec[l]
Spec == Init /\ [][Next]_tvars

IsReq == last.e = "req" /\ last.dest \in {"ws", "ga"}
P_C03_RootOnly == (IsReq /\ ~last.kernelElevated) => (~last.relayed /\ last.status = 403)
\* control (anti-vacuity): the same endpoints serve the elevated caller in the same run
P_ElevatedServed == (IsReq /\ last.kernelElevated) => last.relayed
Accepted == IF TLCGet("stats").diameter - 1 = Len(Rec) THEN TRUE
            ELSE PrintT(<<"UNMATCHED", TLCGet("stats").diameter, Len(Rec)>>) /\ FALSE
=============================================================================
