--------------------------- MODULE SingleUseTrace ---------------------------
(***************************************************************************)
(* C07 on observed executions.  Events:                                     *)
(*  {"e":"conn","conn":c,"attributed":b,"elevated":b,"dest":"ws|imds|.."}   *)
(*        the kernel's record for this very connection (or none)            *)
(*  {"e":"req","conn":c,"id":r,"status":n,"relayed":b,"host":"ws|..|none",  *)
(*   "claimsElevated":b}  what happened to one request on that connection   *)
(* Every request must be evaluated with the connection's own record: it is  *)
(* relayed only to the recorded destination, with the caller-claims header  *)
(* stating the recorded identity; a connection without a fresh record is    *)
(* unattributed: refused with 421, never relayed.                           *)
(***************************************************************************)
EXTENDS Naturals, Sequences, TLC, Json, IOUtils

Rec == ndJsonDeserialize(IOEnv.TRACE)
VARIABLES l, own, last
tvars == <<l, own, last>>

NoOwn == [attributed |-> FALSE, elevated |-> FALSE, dest |-> "none"]
Init == l = 1 /\ own = [c \in {} |-> NoOwn] /\ last = [e |-> "init"]
Next == /\ l <= Len(Rec) /\ l' = l + 1 /\ last' = Rec[l]
        /\ own' = IF Rec[l].e = "reset" THEN [c \in {} |-> NoOwn]        \* a new history starts: forget closed connections
                  ELSE IF Rec[l].e = "conn"
                  THEN [c \in DOMAIN own \cup {Rec[l].conn} |->
                          IF c = Rec[l].conn THEN [attributed |-> Rec[l].attributed, elevated |-> Rec[l].elevated, dest |-> Rec[l].dest]
                          ELSE own[c]]
                  ELSE own
Spec == Init /\ [][Next]_tvars

IsReq == last.e = "req" /\ last.conn \in DOMAIN own
O == own[last.conn]
P_C07_OwnIdentityOnly == (IsReq /\ last.relayed) =>
                            (O.attributed /\ last.host = O.dest /\ last.claimsElevated = O.elevated)
P_C07_UnattributedRefused == (IsReq /\ ~O.attributed) => (~last.relayed /\ last.status = 421)
\* the scenarios only use authorized identities, so an attributed connection's requests are relayed
P_C07_AttributedServed == (IsReq /\ O.attributed /\ O.dest # "dead") => last.relayed
\* (dest "dead": nobody listens at the recorded destination; the request is answered 502 and nothing is relayed)
P_C07_DeadDestination == (IsReq /\ O.attributed /\ O.dest = "dead") => (~last.relayed /\ last.status = 502)
Accepted == IF TLCGet("stats").diameter - 1 = Len(Rec) THEN TRUE
            ELSE PrintT(<<"UNMATCHED", TLCGet("stats").diameter, Len(Rec)>>) /\ FALSE
=============================================================================
