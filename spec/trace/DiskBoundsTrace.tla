-------------------------- MODULE DiskBoundsTrace --------------------------
(***************************************************************************)
(* Trace validation for C19 against the PROPERTY (not the implementation   *)
(* shape).  Each line is what the check observed in the real directories   *)
(* after one operation on the real RollingLogger / event logger /          *)
(* write_all; sizes are real bytes and the limits are the real numbers     *)
(* given to the code (they come with the "reset" line of each run).        *)
(* The observed state is taken from the trace; C19's predicates of         *)
(* DiskBounds.tla (P_xxx) are evaluated in every state and on every step.  *)
(* Any implementation that keeps the bounds is accepted, whatever its      *)
(* rolling policy; one that does not is rejected at the offending line.    *)
(*                                                                         *)
(* Lines:                                                                  *)
(*  {"e":"reset","maxCount":..,"limit":..,"cap":..,"maxDumps":..,          *)
(*   "files":[{"id","size","lw","cur"}..],"ev":n,"dumps":[id..]}           *)
(*      the directories found by the first run of this history, listed     *)
(*      BEFORE any logger object exists; "ev" counts ALL entries of the    *)
(*      event directory, whatever their names (event files, leftover temp  *)
(*      files, anything else): that is what "holds more files" means       *)
(*  {"e":"write","n":bytes,"ok":0|1,"files":[{"id","size","cur"}..]}       *)
(*      one log write; ok=0: the logger REFUSED it (returned an error).    *)
(*      A refused write is accepted like any other: the bounds are what is *)
(*      checked, on the sizes found afterwards (a file whose size changed  *)
(*      took this write, whatever the logger answered)                     *)
(*  {"e":"killed","n":bytes,"files":[..]}  the run was killed INSIDE a roll *)
(*      (during a write of n bytes, at a removal after the rename) and     *)
(*      started again; files = what the new run finds.  One file too many  *)
(*      per such kill is within C19's quantifier ("restarts that find the  *)
(*      files left by earlier runs") ONLY until the next roll completes:   *)
(*      T_LogCount allows maxCount + (kills since the last completed roll) *)
(*      and T_LogCountAfterRoll demands <= maxCount after every completed  *)
(*      roll, whatever the directory looked like before it.                *)
(*      A roll step = a write after which the current file is another file *)
(*      than the current file before it.                                   *)
(*  {"e":"fault","kind":"noroom"|"room"}  the log file system has no room  *)
(*      from now on / has room again; {"e":"fault","kind":"blind"|         *)
(*      "unblind"}  the dump directory holds an entry that cannot be       *)
(*      stat()ed from now on / no longer; "lblind"|"lunblind": the same    *)
(*      for the directory of the rolling logs (an archive of the other     *)
(*      logger of the folder vanishing between read_dir and stat, a        *)
(*      dangling link) while writes roll.  Environment lines change no     *)
(*      file; every bound keeps being evaluated unchanged under them.      *)
(*  {"e":"fault","kind":"pin"|"unpin"}   the environment makes the rename  *)
(*      of the current log file fail from now on / no longer               *)
(*  {"e":"ev","kind":"start"|"push"|"tick"|"tickfail"|"stop"|"stopfail"|    *)
(*   "remove","ev":n}   event dir (n = all entries); "start": the logger   *)
(*      task was started; "tickfail"/"stopfail": the flush ran while       *)
(*      writes to files fail (disk full);                                  *)
(*      "stop": event_logger::stop() handled and the task ended (its last  *)
(*      flush included): the cap and no-growth-at-cap are evaluated on     *)
(*      this step like on every other step of the logger                   *)
(*  {"e":"dump","dumps":[id..]}                              write_all     *)
(*  {"e":"restart","files":[..]}  the process was restarted and the logger  *)
(*      object created again (RollingLogger::create_new): files = what is  *)
(*      there AFTER that.  A restart is an operation like any other: the   *)
(*      count bounds hold after it and after every later operation.        *)
(* File ids are assigned by the check in order of creation (log files are  *)
(* identified by the token of the write that created them, dumps and event *)
(* files by name), so id order = age order.                                *)
(***************************************************************************)
EXTENDS DiskBounds, Json, IOUtils

Rec == ndJsonDeserialize(IOEnv.TRACE)

VARIABLES l,       \* next line
          conf,    \* the real settings of this run
          files    \* log files: sequence of [id, size, lw, cur]; lw = size of the last write that changed the file
tvars == <<vars, l, conf, files>>

NoConf == [maxCount |-> 0, limit |-> 0, cap |-> 0, maxDumps |-> 0]

TInit == /\ l = 1 /\ conf = NoConf /\ files = <<>>
         /\ arch = <<>> /\ cur = -1 /\ lw = 0 /\ rolled = FALSE /\ logLegal = TRUE /\ debt = 0 /\ rollFails = FALSE /\ noRoom = FALSE /\ logBlind = FALSE
         /\ evFiles = 0 /\ evTmp = 0 /\ evQueue = 0 /\ evRun = TRUE /\ evLegal = TRUE
         /\ dumps = <<>> /\ nextId = 0 /\ dLegal = TRUE /\ dWritten = FALSE /\ listFails = FALSE

IsCur(f) == f.cur = 1
ArchOf(fs) == LET a == SelectSeq(fs, LAMBDA f : ~IsCur(f)) IN [i \in DOMAIN a |-> a[i].size]
CurOf(fs) == IF \E i \in DOMAIN fs : IsCur(fs[i]) THEN fs[CHOOSE i \in DOMAIN fs : IsCur(fs[i])].size ELSE -1
LwOf(fs) == IF \E i \in DOMAIN fs : IsCur(fs[i]) THEN fs[CHOOSE i \in DOMAIN fs : IsCur(fs[i])].lw ELSE 0

\* project the observed files onto the variables of DiskBounds
Project(fs) == arch' = ArchOf(fs) /\ cur' = CurOf(fs) /\ lw' = LwOf(fs)
\* id of the current file, 0 = there is none
CurId(fs) == IF \E i \in DOMAIN fs : IsCur(fs[i]) THEN fs[CHOOSE i \in DOMAIN fs : IsCur(fs[i])].id ELSE 0
\* the files observed after a step, with the size of the last write that changed each of them
Carry(new, n) ==
  LET Same(k, j) == files[j].id = new[k].id /\ files[j].size = new[k].size
  IN [k \in DOMAIN new |->
        [id |-> new[k].id, size |-> new[k].size, cur |-> new[k].cur,
         lw |-> IF \E j \in DOMAIN files : Same(k, j)
                  THEN files[CHOOSE j \in DOMAIN files : Same(k, j)].lw
                  ELSE n]]

Reset ==
  /\ l <= Len(Rec) /\ Rec[l].e = "reset"
  /\ conf' = [maxCount |-> Rec[l].maxCount, limit |-> Rec[l].limit, cap |-> Rec[l].cap, maxDumps |-> Rec[l].maxDumps]
  /\ files' = Rec[l].files
  /\ Project(files')
  /\ rolled' = FALSE /\ debt' = 0 /\ rollFails' = FALSE /\ noRoom' = FALSE /\ logBlind' = FALSE /\ listFails' = FALSE
  /\ logLegal' = (Len(ArchOf(files')) + 1 <= Rec[l].maxCount)
  /\ evFiles' = Rec[l].ev /\ evTmp' = 0 /\ evQueue' = 0 /\ evRun' = TRUE /\ evLegal' = (Rec[l].ev <= Rec[l].cap)
  /\ dumps' = Rec[l].dumps /\ nextId' = 0 /\ dLegal' = (Len(Rec[l].dumps) <= Rec[l].maxDumps) /\ dWritten' = FALSE
  /\ l' = l + 1

\* one write of n bytes (accepted or refused by the logger): a file that is new or whose size changed took this write
Write ==
  /\ l <= Len(Rec) /\ Rec[l].e = "write"
  /\ files' = Carry(Rec[l].files, Rec[l].n)
  /\ Project(files')
  /\ LET roll == CurId(files) # 0 /\ CurId(files') # 0 /\ CurId(files') # CurId(files)    \* a completed roll
     IN /\ rolled' = (rolled \/ roll)
        /\ debt' = IF roll THEN 0 ELSE debt
  /\ UNCHANGED <<conf, logLegal, rollFails, noRoom, logBlind, evVars, dumpVars>>
  /\ l' = l + 1

\* the run was killed inside a roll and restarted: the directory is found anew (no roll completed since); one more
\* kill in the window since the last completed roll
Killed ==
  /\ l <= Len(Rec) /\ Rec[l].e = "killed"
  /\ files' = Carry(Rec[l].files, Rec[l].n)
  /\ Project(files')
  /\ rolled' = FALSE /\ debt' = debt + 1
  /\ evRun' = TRUE
  /\ UNCHANGED <<conf, logLegal, rollFails, noRoom, logBlind, evFiles, evTmp, evQueue, evLegal, dumpVars>>
  /\ l' = l + 1

\* the environment switches one of its faults on / off: no file changes
Fault ==
  /\ l <= Len(Rec) /\ Rec[l].e = "fault"
  /\ rollFails' = CASE Rec[l].kind = "pin" -> TRUE [] Rec[l].kind = "unpin" -> FALSE [] OTHER -> rollFails
  /\ noRoom' = CASE Rec[l].kind = "noroom" -> TRUE [] Rec[l].kind = "room" -> FALSE [] OTHER -> noRoom
  /\ logBlind' = CASE Rec[l].kind = "lblind" -> TRUE [] Rec[l].kind = "lunblind" -> FALSE [] OTHER -> logBlind
  /\ listFails' = CASE Rec[l].kind = "blind" -> TRUE [] Rec[l].kind = "unblind" -> FALSE [] OTHER -> listFails
  /\ UNCHANGED <<conf, files, arch, cur, lw, rolled, logLegal, debt, evVars, dumps, nextId, dLegal, dWritten>>
  /\ l' = l + 1

Ev ==
  /\ l <= Len(Rec) /\ Rec[l].e = "ev"
  /\ evFiles' = Rec[l].ev
  /\ evRun' = CASE Rec[l].kind \in {"stop", "stopfail"} -> FALSE
                [] Rec[l].kind = "start" -> TRUE
                [] OTHER -> evRun
  /\ UNCHANGED <<conf, files, logVars, evTmp, evQueue, evLegal, dumpVars>>
  /\ l' = l + 1

Dump ==
  /\ l <= Len(Rec) /\ Rec[l].e = "dump"
  /\ dumps' = Rec[l].dumps
  \* a rule-set change while the directory cannot be listed need not clean up what an earlier, differently
  \* configured run left (it must not add to it: T_DumpNoGrowthAtMax)
  /\ dWritten' = (dWritten \/ ~listFails)
  /\ UNCHANGED <<conf, files, logVars, evVars, nextId, dLegal, listFails>>
  /\ l' = l + 1

\* the logger object is created again over what the earlier runs left; whatever that does to the directory is
\* observed here (no write: a file whose size changed has "last write" 0)
TRestart ==
  /\ l <= Len(Rec) /\ Rec[l].e = "restart"
  /\ files' = Carry(Rec[l].files, 0)
  /\ Project(files')
  /\ UNCHANGED <<conf, rolled, logLegal, debt, rollFails, noRoom, logBlind, evVars, dumpVars>>
  /\ l' = l + 1

TNext == Reset \/ Write \/ Killed \/ Fault \/ Ev \/ Dump \/ TRestart
TSpec == TInit /\ [][TNext]_tvars

-----------------------------------------------------------------------------
\* C19 on the observed behaviour, with the real settings of the run
\* debt = kills inside a roll since the last completed roll (0 in histories without such kills)
T_LogCount == logLegal => P_LogCount(arch, cur, conf.maxCount + debt)
\* whatever a run found (left by earlier runs, killed inside a roll or not): once a roll has completed the count is
\* within the configured count, and stays there
T_LogCountAfterRoll == rolled => P_LogCount(arch, cur, conf.maxCount)
T_LogSize == \A k \in DOMAIN files : P_LogSize(files[k].size, files[k].lw, conf.limit)
T_EvCount == evLegal => P_EvCount(evFiles, conf.cap)
T_DumpCount == (dLegal \/ dWritten) => P_DumpCount(dumps, conf.maxDumps)
\* steps of the event logger itself -- its start, pushes, periodic flushes (failing or not) AND the stop with its last
\* flush; not the reader's removals -- never add an entry at or above the cap.  evFiles here = all entries observed.
T_EvDropAtCap == [][(l <= Len(Rec) /\ Rec[l].e = "ev" /\ Rec[l].kind # "remove")
                      => P_EvNoGrowthAtCap(evFiles, evFiles', conf.cap)]_tvars
\* a rule-set change never takes the number of dumps above the configured number, nor above what it found: whatever
\* the directory looks like and whatever cannot be listed in it
T_DumpNoGrowthAtMax == [][(l <= Len(Rec) /\ Rec[l].e = "dump")
                           => P_DumpNoGrowthAtMax(Len(dumps), Len(dumps'), conf.maxDumps)]_tvars
T_DumpOldestFirst == [][(l <= Len(Rec) /\ Rec[l].e = "dump") => P_RemovedAreOldest(dumps, dumps')]_tvars

Accepted == IF TLCGet("stats").diameter - 1 = Len(Rec) THEN TRUE
            ELSE PrintT(<<"UNMATCHED", TLCGet("stats").diameter, Len(Rec)>>) /\ FALSE
=============================================================================
