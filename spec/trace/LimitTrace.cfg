SPECIFICATION Spec
INVARIANTS P_C15_OverRefused P_C15_WithinRelayed
POSTCONDITION Accepted
CHECK_DEADLOCK FALSE
