----------------------------- MODULE ProxyTrace -----------------------------
(***************************************************************************)
(* Property-level trace validation of the proxy pipeline (C01 C03 C05 C11   *)
(* C15): one "obs" event per request, recorded from the real ProxyServer    *)
(* with raw capture at the mock hosts.  Every event carries the inputs the  *)
(* statements quantify over (attribution, caller, destination, the rule     *)
(* document in force, the URL, the body size and framing, client-supplied   *)
(* owned headers) and what was observed (client status, whether the host    *)
(* received the request, stray bytes at the host, owned-header census at    *)
(* the host, failed-summary delta).  The expected side is computed here     *)
(* from the inputs with Authz!Result and Rbac!Decision; nothing from the    *)
(* implementation-shaped pipeline of Proxy.tla is used, so any              *)
(* implementation satisfying the statements is accepted.                    *)
(***************************************************************************)
EXTENDS Naturals, Sequences, FiniteSets, TLC, Json, IOUtils
R == INSTANCE Rbac
A == INSTANCE Authz

Rec == ndJsonDeserialize(IOEnv.TRACE)
VARIABLES l, o
tvars == <<l, o>>

Init == l = 1 /\ o = [e |-> "init"]
Next == l <= Len(Rec) /\ l' = l + 1 /\ o' = Rec[l]
Spec == Init /\ [][Next]_tvars

Range(s) == {s[i] : i \in 1..Len(s)}
IsObs == o.e = "obs"

LowLimit == 102400
LargeLimit == 104857600

\* --- derived inputs -----------------------------------------------------------------------------
Caller == [user |-> o.caller.user, groups |-> Range(o.caller.groups), proc |-> o.caller.proc, exe |-> o.caller.exe]
RulesApply == o.attributed /\ A!RulesApply(o.dest)
RulesMode == IF RulesApply THEN o.rules ELSE "none"
RbacFirst == IF RulesMode = "none" THEN TRUE ELSE R!Decision(o.doc, Caller, o.url)
RbacAny   == IF RulesMode = "none" THEN TRUE ELSE R!DecisionAny(o.doc, Caller, o.url)
Unspecified == RbacFirst # RbacAny        \* the statement of C02 is silent here; such requests decide nothing
Rbac == RbacFirst
AzResult == A!Result(o.dest, o.elevated, RulesMode, Rbac)
Authorized == o.attributed /\ AzResult \in {"Ok", "OkWithAudit"}
Over == o.bodyLen > (IF o.exempt THEN LargeLimit ELSE LowLimit)
LookupFails == o.fault /\ RulesApply
\* the request must be relayed: attributed, authorized, well-formed, within the limit, policy available
\* (upstreamClosed: the host closed its side of this client connection's upstream after an earlier response; the
\*  proxy then answers 502 -- it has no obligation to relay, but whatever it relays must still satisfy C01/C03/C05)
MustRelay == Authorized /\ ~o.trav /\ ~o.prov /\ ~LookupFails /\ ~Over /\ ~o.upstreamClosed
MayRelay == MustRelay
ProxySigns == o.keyPresent /\ ~o.exempt

\* --- C01 ------------------------------------------------------------------------------------
P_C01_RelayedOnlyIfAuthorized ==
  (IsObs /\ ~Unspecified /\ o.relayed) => (o.attributed /\ Authorized /\ ~o.trav /\ ~LookupFails)
P_C01_NothingLeaks ==
  (IsObs /\ ~Unspecified /\ ~o.prov /\ ~(Authorized /\ ~o.trav /\ ~LookupFails)) =>
     /\ ~o.relayed /\ o.strayBytes = 0
     /\ o.status \in {404, 421, 500, 403} \cup (IF Over THEN {413, 400} ELSE {})
P_C01_ErrorClass ==   \* the status names the first failing check, in the order the statement lists them
  (IsObs /\ ~Unspecified /\ ~o.prov /\ ~Over) =>
     /\ (o.trav => o.status = 404)
     /\ (~o.trav /\ ~o.attributed => o.status = 421)
     /\ (~o.trav /\ o.attributed /\ LookupFails => o.status = 500)
     /\ (~o.trav /\ o.attributed /\ ~LookupFails /\ AzResult = "Forbidden" => o.status = 403)

\* --- C03 ------------------------------------------------------------------------------------
P_C03_RootOnly == (IsObs /\ o.attributed /\ o.dest \in {"ws", "ga"} /\ ~o.elevated) => (~o.relayed /\ o.strayBytes = 0)
\* a connection that has no record of its own has no caller that could be "running elevated": whatever record an earlier
\* connection from the same source port may have left behind, nothing it sends reaches the WireServer or the HostGAPlugin
P_C03_NoRecordNoRelay == (IsObs /\ ~o.attributed) => (~o.relayed /\ o.strayBytes = 0)
P_C03_NoSelfProxy == (IsObs /\ o.attributed /\ o.dest = "self") => (~o.relayed /\ (~o.prov /\ ~o.trav /\ ~Over => o.status = 403))

\* --- C05 ------------------------------------------------------------------------------------
P_C05_OwnedHeaders ==
  (IsObs /\ o.relayed) =>
     /\ o.hClaims = 1 /\ o.hClaimsElevated = o.elevated
     /\ o.hDate = 1 /\ o.hDateIsProxy
     /\ o.hClientCopies = 0
     /\ (ProxySigns => (o.hAuth = 1 /\ o.hAuthIsProxy))

\* --- C11 ------------------------------------------------------------------------------------
RulesDeny == RulesApply /\ RulesMode \in {"audit", "enforce"} /\ ~Rbac
             /\ (o.dest = "imds" \/ o.elevated)                    \* the rules are what denies, not the root-only gate
Reached == ~o.trav /\ ~o.prov /\ ~LookupFails /\ ~(Over /\ o.framing = "cl")   \* the request reaches authorization
P_C11_EnforceBlocks == (IsObs /\ ~Unspecified /\ Reached /\ RulesDeny /\ RulesMode = "enforce") =>
                          (o.status = 403 /\ ~o.relayed /\ o.strayBytes = 0)
\* "nothing is relayed" needs no qualification: whatever else goes wrong with such a request (the policy lookup
\* fails, the body is over the limit, the path is malformed), a request the rules in force deny never reaches the host
P_C11_EnforceNeverRelays == (IsObs /\ ~Unspecified /\ RulesDeny /\ RulesMode = "enforce") => (~o.relayed /\ o.strayBytes = 0)
\* (hostFault # "none": the mock host dropped the connection after reading the request; the client then sees 502/503)
P_C11_AuditForwards == (IsObs /\ ~Unspecified /\ Reached /\ RulesDeny /\ RulesMode = "audit" /\ ~Over /\ o.hostFault = "none" /\ ~o.upstreamClosed) =>
                          (o.relayed /\ o.bodyIntact /\ o.status = o.hostStatus)
P_C11_DisabledNotConsulted == (IsObs /\ RulesApply /\ RulesMode = "disabled" /\ Reached /\ ~Over /\ (o.dest = "imds" \/ o.elevated)) =>
                          ((o.relayed \/ o.upstreamClosed) /\ o.failedDelta = 0)
P_C11_DenialCountedOnce == (IsObs /\ ~Unspecified /\ Reached /\ RulesDeny) => (o.failedDelta = 1 /\ o.failedKeyOk)

\* the summary is what the agent PUBLISHES: after each denial has been answered, the status file written next carries it
\* (event {"e":"pub","denials":n,"inFile":m}: n denials answered so far, m occurrences in the status file read afterwards)
\* ("unanswered": clients of a burst that gave up waiting for their answer -- the agent may or may not have got as far as
\*  denying them; without the field every denial was answered and the count is exact)
PubUnanswered == IF "unanswered" \in DOMAIN o THEN o.unanswered ELSE 0
P_C11_PublishedInStatusFile == (o.e = "pub") => (o.inFile >= o.denials /\ o.inFile <= o.denials + PubUnanswered)

\* --- C15 ------------------------------------------------------------------------------------
\* (when the policy lookup fails as well, C01's 500 for that failure may come first: the body is never read)
P_C15_OverRefused == (IsObs /\ Over) => /\ ~o.relayed /\ o.strayBytes = 0
                                         /\ \/ (o.status >= 400 /\ o.status <= 499)
                                            \/ (LookupFails /\ ~o.trav /\ o.attributed /\ o.status = 500)
P_C15_WithinRelayed == (IsObs /\ ~Unspecified /\ MustRelay) => (o.relayed /\ o.bodyIntact)   \* also under a host fault: the host read it

Accepted == IF TLCGet("stats").diameter - 1 = Len(Rec) THEN TRUE
            ELSE PrintT(<<"UNMATCHED", TLCGet("stats").diameter, Len(Rec)>>) /\ FALSE
=============================================================================
