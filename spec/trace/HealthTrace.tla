----------------------------- MODULE HealthTrace -----------------------------
(***************************************************************************)
(* Trace validation for C20 against the *property* (not the implementation *)
(* shape): each recorded observation carries the report the real           *)
(* StatusState returned; the report is taken from the trace, the ghosts    *)
(* are advanced by Health!GhostStep, and C20's invariants are evaluated in *)
(* every state.  Any automaton satisfying C20 is accepted; one that does   *)
(* not is rejected at the first offending state.                           *)
(* Events: {"e":"reset"} | {"e":"obs","ok":0|1,"out":"success|..."}        *)
(***************************************************************************)
EXTENDS Health, Json, IOUtils, Sequences

Rec == ndJsonDeserialize(IOEnv.TRACE)
VARIABLE l
tvars == <<vars, l>>

TInit == Init /\ l = 1

Reset == /\ l <= Len(Rec) /\ Rec[l].e = "reset"
         /\ st' = "transitioning" /\ fc' = 0 /\ sc' = 0 /\ gF' = 0 /\ gS' = 0 /\ last' = "none"
         /\ l' = l + 1

Obs == /\ l <= Len(Rec) /\ Rec[l].e = "obs"
       /\ GhostStep(Rec[l].ok = 1)
       /\ st' = Rec[l].out
       /\ UNCHANGED <<fc, sc>>      \* implementation counters are not observable; unconstrained by the property
       /\ l' = l + 1

TNext == Reset \/ Obs
TSpec == TInit /\ [][TNext]_tvars

\* C20 on the observed behaviour
P_ErrorOnlyAfterSustainedFailure == ErrorOnlyAfterSustainedFailure
P_NeverErrorAfterSuccess == NeverErrorAfterSuccess
P_TwoSuccessesGiveSuccess == TwoSuccessesGiveSuccess
P_ReportDomain == st \in {"success", "transitioning", "error"}

Accepted == IF TLCGet("stats").diameter - 1 = Len(Rec) THEN TRUE
            ELSE PrintT(<<"UNMATCHED", TLCGet("stats").diameter, Len(Rec)>>) /\ FALSE
=============================================================================
