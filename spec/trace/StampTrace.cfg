SPECIFICATION Spec
INVARIANTS P_C05_OneProxyDate P_C05_OneProxyClaims P_C05_DateIsCurrent
POSTCONDITION Accepted
CHECK_DEADLOCK FALSE
