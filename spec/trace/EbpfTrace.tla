----------------------------- MODULE EbpfTrace -----------------------------
(***************************************************************************)
(* Trace validation for C06 against the *property* (not the mechanism):    *)
(* a run of the real program (user-space build of ebpf_cgroup.c, keys      *)
(* encoded and records decoded by the repository's Rust code) is recorded  *)
(* as observations; this module keeps only what the statement of C06 talks *)
(* about -- which addresses are listed, which pids are the agent, which    *)
(* connects are between the two hooks -- and judges every observation:     *)
(*   RedirectExactly    diverted (to the address the agent registered)     *)
(*                      exactly when TCP, listed now, caller not the agent;*)
(*                      otherwise the address is untouched; verdict = 1    *)
(*   RecordTruth        a diverted connect has, under the key the agent    *)
(*                      looks up for its source port, a record stating the *)
(*                      caller's uid, pid, uid = 0, original ip and port;  *)
(*                      nothing recorded earlier is lost or altered        *)
(*   NoRecordOtherwise  no other change to the audit map, ever             *)
(*   AgentUntouched     the agent's connects: address untouched, no record *)
(* A connection may end while nobody consumed its record ("end" row: the   *)
(* client went away before the proxy's accept); the record is then a       *)
(* leftover and the kernel may hand its source port to a later connect.    *)
(* What the agent reads under the port after that connect's tcp step is    *)
(* judged against THIS connect: a diverted connect must find its own       *)
(* record there (an untouched leftover of another caller is a RecordTruth  *)
(* violation: the record keyed by the connection's source port states the  *)
(* wrong caller); a connect that must not / need not produce a record may  *)
(* leave the leftover exactly as it was (nothing was produced), but must   *)
(* not alter it.  Only leftovers may drop out of the map (LRU) when a      *)
(* record is added.                                                        *)
(* Where the statement is silent the observation is accepted either way:   *)
(* a connect whose destination was not listed at connect4 but is listed at *)
(* tcp_connect, and a socket the cgroup hook never saw, may or may not be  *)
(* recorded -- but a record, if present, must be truthful.                 *)
(* Independent of Ebpf.tla on purpose (threads and addresses are arbitrary *)
(* here).  Ids are decimal strings (they exceed TLC's integers).           *)
(*                                                                         *)
(* Rows: {"e":"reset"}                                                     *)
(*  {"e":"policy","op":"add"|"del","ip":s,"port":n,"to_ip":s,"to_port":n}  *)
(*  {"e":"skip","pid":s}                                                   *)
(*  {"e":"connect4","pid","tid","uid","gid","ip","port","proto",           *)
(*     "ret":n,"oip":s,"oport":n,"achg":[..],"agone":[..]}                 *)
(*  {"e":"tcp","direct":b,"pid","tid","uid","gid","sport":n,               *)
(*     "dip":s,"dport":n   (destination the socket carries),               *)
(*     "rec":{"present":b,"logon":s,"pid":s,"admin":n,"ip":s,"port":n},    *)
(*     "achg":[{"proto":n,"sport":n}..],"agone":[..]}                      *)
(*  {"e":"consume","sport":n,"found":b,"achg":[..],"agone":[sport..]}      *)
(*  {"e":"end","sport":n,"achg":[..],"agone":[..]}   the connection on     *)
(*     sport ended, nothing was consumed                                   *)
(***************************************************************************)
EXTENDS Naturals, Sequences, FiniteSets, TLC, Json, IOUtils

Rec == ndJsonDeserialize(IOEnv.TRACE)

VARIABLES l,     \* next row
          pol,   \* listed destination <<ip, port>> -> <<to_ip, to_port>>
          skp,   \* pids registered by the agent
          pend,  \* <<pid, tid>> -> what the property fixed at connect4 for the pending TCP connect
          recd,  \* source ports that have a record (as observed through the agent's lookup)
          left,  \* subset of recd: the connection that produced the record ended, nobody consumed it (leftovers)
          bad    \* [p |-> violated property | "none", f |-> detail]
tvars == <<l, pol, skp, pend, recd, left, bad>>

TCPN == 6
Good == [p |-> "none", f |-> "none"]
Empty == [x \in {} |-> Good]
Drop(f, k) == [x \in DOMAIN f \ {k} |-> f[x]]

TInit == l = 1 /\ pol = Empty /\ skp = {} /\ pend = Empty /\ recd = {} /\ left = {} /\ bad = Good

Row == Rec[l]

Reset == /\ Row.e = "reset"
         /\ pol' = Empty /\ skp' = {} /\ pend' = Empty /\ recd' = {} /\ left' = {} /\ UNCHANGED bad

Policy == /\ Row.e = "policy"
          /\ pol' = IF Row.op = "add" THEN (<<Row.ip, Row.port>> :> <<Row.to_ip, Row.to_port>>) @@ pol
                    ELSE Drop(pol, <<Row.ip, Row.port>>)
          /\ UNCHANGED <<skp, pend, recd, left, bad>>

Skip == /\ Row.e = "skip" /\ skp' = skp \cup {Row.pid} /\ UNCHANGED <<pol, pend, recd, left, bad>>

First(checks) == IF \E i \in 1..Len(checks) : checks[i][1]
                 THEN LET i == CHOOSE j \in 1..Len(checks) : checks[j][1] /\ \A k \in 1..(j - 1) : ~checks[k][1]
                      IN  [p |-> checks[i][2], f |-> checks[i][3]]
                 ELSE Good

Connect4 ==
  /\ Row.e = "connect4"
  /\ LET dst    == <<Row.ip, Row.port>>
         listed == dst \in DOMAIN pol
         agent  == Row.pid \in skp
         must   == Row.proto = TCPN /\ listed /\ ~agent
         same   == Row.oip = Row.ip /\ Row.oport = Row.port
     IN  /\ bad' = First(<<
                 <<Row.ret # 1, "RedirectExactly", "verdict">>,
                 <<must /\ <<Row.oip, Row.oport>> # pol[dst], "RedirectExactly", "not-diverted">>,
                 <<~must /\ ~same /\ agent, "AgentUntouched", "rewritten">>,
                 <<~must /\ ~same, "RedirectExactly", IF Row.proto # TCPN THEN "non-tcp-rewritten" ELSE "unlisted-rewritten">>,
                 <<Row.achg # <<>> /\ agent, "AgentUntouched", "record">>,
                 <<Row.achg # <<>> \/ Row.agone # <<>>, "NoRecordOtherwise", "audit-changed-at-connect4">> >>)
         /\ pend' = IF Row.proto = TCPN
                    THEN (<<Row.pid, Row.tid>> :> [ip |-> Row.ip, port |-> Row.port, div |-> must, agent |-> agent]) @@ pend
                    ELSE pend
  /\ UNCHANGED <<pol, skp, recd, left>>

\* the port of this connect carried a leftover and this step left the audit map entry as it was: what the agent
\* reads there was not produced by this connect
Kept == Row.rec.present /\ Row.sport \in left /\ Row.achg = <<>>
\* the record read under the port is judged as this connect's own
Mine(mode) == Row.rec.present /\ (mode = "must" \/ ~Kept)
Gone == {Row.agone[i] : i \in 1..Len(Row.agone)}

\* mode: "must" = record required, "may" = optional but truthful, "none" = forbidden
Judge(mode, agent, oip, oport) ==
  LET r == Row.rec
      mine == Mine(mode)
      others == \E i \in 1..Len(Row.achg) : Row.achg[i].proto # TCPN \/ Row.achg[i].sport # Row.sport
  IN First(<<
      <<mode = "must" /\ ~r.present, "RecordTruth", "missing">>,
      <<mode = "none" /\ mine /\ agent, "AgentUntouched", "record">>,
      <<mode = "none" /\ mine, "NoRecordOtherwise", "record">>,
      <<mine /\ r.logon # Row.uid, "RecordTruth", "logon">>,
      <<mine /\ r.pid # Row.pid, "RecordTruth", "pid">>,
      <<mine /\ r.admin # (IF Row.uid = "0" THEN 1 ELSE 0), "RecordTruth", "admin">>,
      <<mine /\ r.ip # oip, "RecordTruth", "ip">>,
      <<mine /\ r.port # oport, "RecordTruth", "port">>,
      <<others, "NoRecordOtherwise", "other-key">>,
      <<~r.present /\ Row.achg # <<>>, "NoRecordOtherwise", "unreadable-record">>,
      <<~(Gone \subseteq left), "RecordTruth", "earlier-record-lost">> >>)

\* bookkeeping after a tcp step: evicted leftovers are forgotten; the port's entry is this connect's when judged so
RecdAfter(mode) == (IF Row.rec.present THEN recd \cup {Row.sport} ELSE recd) \ Gone
LeftAfter(mode) == (left \ Gone) \ (IF Mine(mode) \/ ~Row.rec.present THEN {Row.sport} ELSE {})

Tcp ==
  /\ Row.e = "tcp" /\ ~Row.direct
  /\ <<Row.pid, Row.tid>> \in DOMAIN pend
  /\ LET p == pend[<<Row.pid, Row.tid>>]
         agent == p.agent \/ Row.pid \in skp
         mode == IF p.div THEN "must"
                 ELSE IF agent THEN "none"
                 ELSE IF <<p.ip, p.port>> \in DOMAIN pol THEN "may"      \* listed between the two hooks
                 ELSE "none"
     IN  /\ bad' = Judge(mode, agent, p.ip, p.port)
         /\ recd' = RecdAfter(mode) /\ left' = LeftAfter(mode)
  /\ pend' = Drop(pend, <<Row.pid, Row.tid>>)
  /\ UNCHANGED <<pol, skp>>

TcpDirect ==
  /\ Row.e = "tcp" /\ Row.direct
  /\ LET agent == Row.pid \in skp
         mode == IF agent THEN "none" ELSE IF <<Row.dip, Row.dport>> \in DOMAIN pol THEN "may" ELSE "none"
     IN  /\ bad' = Judge(mode, agent, Row.dip, Row.dport)
         /\ recd' = RecdAfter(mode) /\ left' = LeftAfter(mode)
  /\ UNCHANGED <<pol, skp, pend>>

Consume ==
  /\ Row.e = "consume"
  /\ bad' = First(<<
        <<Row.sport \in recd /\ ~Row.found, "RecordTruth", "lost-before-consumed">>,
        <<Row.sport \notin recd /\ Row.found, "NoRecordOtherwise", "record">>,
        <<Row.achg # <<>>, "NoRecordOtherwise", "audit-changed-at-consume">>,
        <<Row.agone # (IF Row.found THEN <<Row.sport>> ELSE <<>>), "RecordTruth", "earlier-record-lost">> >>)
  /\ recd' = recd \ {Row.sport} /\ left' = left \ {Row.sport}
  /\ UNCHANGED <<pol, skp, pend>>

\* the connection on this port is over and nobody consumed its record: from now on the record (if any) is a leftover
End ==
  /\ Row.e = "end"
  /\ bad' = First(<<
        <<Row.achg # <<>>, "NoRecordOtherwise", "audit-changed-at-end">>,
        <<Row.agone # <<>>, "RecordTruth", "earlier-record-lost">> >>)
  /\ left' = left \cup ({Row.sport} \cap recd)
  /\ UNCHANGED <<pol, skp, pend, recd>>

TNext == /\ l <= Len(Rec) /\ bad = Good
         /\ (Reset \/ Policy \/ Skip \/ Connect4 \/ Tcp \/ TcpDirect \/ Consume \/ End)
         /\ l' = l + 1
TSpec == TInit /\ [][TNext]_tvars

\* C06 on the observed behaviour
P_RedirectExactly == bad.p # "RedirectExactly"
P_RecordTruth == bad.p # "RecordTruth"
P_NoRecordOtherwise == bad.p # "NoRecordOtherwise"
P_AgentUntouched == bad.p # "AgentUntouched"

Accepted == IF TLCGet("stats").diameter - 1 = Len(Rec) THEN TRUE
            ELSE PrintT(<<"UNMATCHED", TLCGet("stats").diameter, Len(Rec)>>) /\ FALSE
=============================================================================
