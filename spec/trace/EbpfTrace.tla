----------------------------- MODULE EbpfTrace -----------------------------
(***************************************************************************)
(* Trace validation for C06 against the *property* (not the mechanism):    *)
(* a run of the real program (user-space build of ebpf_cgroup.c, keys      *)
(* encoded and records decoded by the repository's Rust code) is recorded  *)
(* as observations; this module keeps only what the statement of C06 talks *)
(* about -- which addresses are listed, which pids are the agent, which    *)
(* connects are between the two hooks -- and judges every observation:     *)
(*   RedirectExactly    diverted (to the address the agent registered)     *)
(*                      exactly when TCP, listed now, caller not the agent;*)
(*                      otherwise the address is untouched; verdict = 1    *)
(*   RecordTruth        a diverted connect has, under the key the agent    *)
(*                      looks up for its source port, a record stating the *)
(*                      caller's uid, pid, uid = 0, original ip and port;  *)
(*                      nothing recorded earlier is lost or altered        *)
(*   NoRecordOtherwise  no other change to the audit map, ever             *)
(*   AgentUntouched     the agent's connects: address untouched, no record *)
(* Where the statement is silent the observation is accepted either way:   *)
(* a connect whose destination was not listed at connect4 but is listed at *)
(* tcp_connect, and a socket the cgroup hook never saw, may or may not be  *)
(* recorded -- but a record, if present, must be truthful.                 *)
(* Independent of Ebpf.tla on purpose (threads and addresses are arbitrary *)
(* here).  Ids are decimal strings (they exceed TLC's integers).           *)
(*                                                                         *)
(* Rows: {"e":"reset"}                                                     *)
(*  {"e":"policy","op":"add"|"del","ip":s,"port":n,"to_ip":s,"to_port":n}  *)
(*  {"e":"skip","pid":s}                                                   *)
(*  {"e":"connect4","pid","tid","uid","gid","ip","port","proto",           *)
(*     "ret":n,"oip":s,"oport":n,"achg":[..],"agone":[..]}                 *)
(*  {"e":"tcp","direct":b,"pid","tid","uid","gid","sport":n,               *)
(*     "dip":s,"dport":n   (destination the socket carries),               *)
(*     "rec":{"present":b,"logon":s,"pid":s,"admin":n,"ip":s,"port":n},    *)
(*     "achg":[{"proto":n,"sport":n}..],"agone":[..]}                      *)
(*  {"e":"consume","sport":n,"found":b,"achg":[..],"agone":[sport..]}      *)
(***************************************************************************)
EXTENDS Naturals, Sequences, FiniteSets, TLC, Json, IOUtils

Rec == ndJsonDeserialize(IOEnv.TRACE)

VARIABLES l,     \* next row
          pol,   \* listed destination <<ip, port>> -> <<to_ip, to_port>>
          skp,   \* pids registered by the agent
          pend,  \* <<pid, tid>> -> what the property fixed at connect4 for the pending TCP connect
          recd,  \* source ports that have a record (as observed through the agent's lookup)
          bad    \* [p |-> violated property | "none", f |-> detail]
tvars == <<l, pol, skp, pend, recd, bad>>

TCPN == 6
Good == [p |-> "none", f |-> "none"]
Empty == [x \in {} |-> Good]
Drop(f, k) == [x \in DOMAIN f \ {k} |-> f[x]]

TInit == l = 1 /\ pol = Empty /\ skp = {} /\ pend = Empty /\ recd = {} /\ bad = Good

Row == Rec[l]

Reset == /\ Row.e = "reset"
         /\ pol' = Empty /\ skp' = {} /\ pend' = Empty /\ recd' = {} /\ UNCHANGED bad

Policy == /\ Row.e = "policy"
          /\ pol' = IF Row.op = "add" THEN (<<Row.ip, Row.port>> :> <<Row.to_ip, Row.to_port>>) @@ pol
                    ELSE Drop(pol, <<Row.ip, Row.port>>)
          /\ UNCHANGED <<skp, pend, recd, bad>>

Skip == /\ Row.e = "skip" /\ skp' = skp \cup {Row.pid} /\ UNCHANGED <<pol, pend, recd, bad>>

First(checks) == IF \E i \in 1..Len(checks) : checks[i][1]
                 THEN LET i == CHOOSE j \in 1..Len(checks) : checks[j][1] /\ \A k \in 1..(j - 1) : ~checks[k][1]
                      IN  [p |-> checks[i][2], f |-> checks[i][3]]
                 ELSE Good

Connect4 ==
  /\ Row.e = "connect4"
  /\ LET dst    == <<Row.ip, Row.port>>
         listed == dst \in DOMAIN pol
         agent  == Row.pid \in skp
         must   == Row.proto = TCPN /\ listed /\ ~agent
         same   == Row.oip = Row.ip /\ Row.oport = Row.port
     IN  /\ bad' = First(<<
                 <<Row.ret # 1, "RedirectExactly", "verdict">>,
                 <<must /\ <<Row.oip, Row.oport>> # pol[dst], "RedirectExactly", "not-diverted">>,
                 <<~must /\ ~same /\ agent, "AgentUntouched", "rewritten">>,
                 <<~must /\ ~same, "RedirectExactly", IF Row.proto # TCPN THEN "non-tcp-rewritten" ELSE "unlisted-rewritten">>,
                 <<Row.achg # <<>> /\ agent, "AgentUntouched", "record">>,
                 <<Row.achg # <<>> \/ Row.agone # <<>>, "NoRecordOtherwise", "audit-changed-at-connect4">> >>)
         /\ pend' = IF Row.proto = TCPN
                    THEN (<<Row.pid, Row.tid>> :> [ip |-> Row.ip, port |-> Row.port, div |-> must, agent |-> agent]) @@ pend
                    ELSE pend
  /\ UNCHANGED <<pol, skp, recd>>

\* mode: "must" = record required, "may" = optional but truthful, "none" = forbidden
Judge(mode, agent, oip, oport) ==
  LET r == Row.rec
      others == \E i \in 1..Len(Row.achg) : Row.achg[i].proto # TCPN \/ Row.achg[i].sport # Row.sport
  IN First(<<
      <<mode = "must" /\ ~r.present, "RecordTruth", "missing">>,
      <<mode = "none" /\ r.present /\ agent, "AgentUntouched", "record">>,
      <<mode = "none" /\ r.present, "NoRecordOtherwise", "record">>,
      <<r.present /\ r.logon # Row.uid, "RecordTruth", "logon">>,
      <<r.present /\ r.pid # Row.pid, "RecordTruth", "pid">>,
      <<r.present /\ r.admin # (IF Row.uid = "0" THEN 1 ELSE 0), "RecordTruth", "admin">>,
      <<r.present /\ r.ip # oip, "RecordTruth", "ip">>,
      <<r.present /\ r.port # oport, "RecordTruth", "port">>,
      <<others, "NoRecordOtherwise", "other-key">>,
      <<~r.present /\ Row.achg # <<>>, "NoRecordOtherwise", "unreadable-record">>,
      <<Row.agone # <<>>, "RecordTruth", "earlier-record-lost">> >>)

Tcp ==
  /\ Row.e = "tcp" /\ ~Row.direct
  /\ <<Row.pid, Row.tid>> \in DOMAIN pend
  /\ LET p == pend[<<Row.pid, Row.tid>>]
         agent == p.agent \/ Row.pid \in skp
         mode == IF p.div THEN "must"
                 ELSE IF agent THEN "none"
                 ELSE IF <<p.ip, p.port>> \in DOMAIN pol THEN "may"      \* listed between the two hooks
                 ELSE "none"
     IN  bad' = Judge(mode, agent, p.ip, p.port)
  /\ pend' = Drop(pend, <<Row.pid, Row.tid>>)
  /\ recd' = IF Row.rec.present THEN recd \cup {Row.sport} ELSE recd
  /\ UNCHANGED <<pol, skp>>

TcpDirect ==
  /\ Row.e = "tcp" /\ Row.direct
  /\ LET agent == Row.pid \in skp
         mode == IF agent THEN "none" ELSE IF <<Row.dip, Row.dport>> \in DOMAIN pol THEN "may" ELSE "none"
     IN  bad' = Judge(mode, agent, Row.dip, Row.dport)
  /\ recd' = IF Row.rec.present THEN recd \cup {Row.sport} ELSE recd
  /\ UNCHANGED <<pol, skp, pend>>

Consume ==
  /\ Row.e = "consume"
  /\ bad' = First(<<
        <<Row.sport \in recd /\ ~Row.found, "RecordTruth", "lost-before-consumed">>,
        <<Row.sport \notin recd /\ Row.found, "NoRecordOtherwise", "record">>,
        <<Row.achg # <<>>, "NoRecordOtherwise", "audit-changed-at-consume">>,
        <<Row.agone # (IF Row.found THEN <<Row.sport>> ELSE <<>>), "RecordTruth", "earlier-record-lost">> >>)
  /\ recd' = recd \ {Row.sport}
  /\ UNCHANGED <<pol, skp, pend>>

TNext == /\ l <= Len(Rec) /\ bad = Good
         /\ (Reset \/ Policy \/ Skip \/ Connect4 \/ Tcp \/ TcpDirect \/ Consume)
         /\ l' = l + 1
TSpec == TInit /\ [][TNext]_tvars

\* C06 on the observed behaviour
P_RedirectExactly == bad.p # "RedirectExactly"
P_RecordTruth == bad.p # "RecordTruth"
P_NoRecordOtherwise == bad.p # "NoRecordOtherwise"
P_AgentUntouched == bad.p # "AgentUntouched"

Accepted == IF TLCGet("stats").diameter - 1 = Len(Rec) THEN TRUE
            ELSE PrintT(<<"UNMATCHED", TLCGet("stats").diameter, Len(Rec)>>) /\ FALSE
=============================================================================
