SPECIFICATION Spec
INVARIANTS P_C13_NoPanic P_C13_Answered P_C13_KeepsServing
POSTCONDITION Accepted
CHECK_DEADLOCK FALSE
