SPECIFICATION Spec
INVARIANTS P_C12_NoLeak P_C12_AclBeforeFirstKeyFile P_C12_DirMode
POSTCONDITION Accepted
CHECK_DEADLOCK FALSE
