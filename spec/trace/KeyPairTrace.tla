---------------------------- MODULE KeyPairTrace ----------------------------
(***************************************************************************)
(* C10 on observed executions.  Events (one sequence counter, recorded in   *)
(* the harness process):                                                    *)
(*   {"e":"issue","guid":g}           a key the keeper ever latched          *)
(*   {"e":"sign","signer":s,"guid":g,"verifies":v}  an authorization header  *)
(*        received by a host: announced key id g; v = id of the key whose    *)
(*        secret verifies the MAC (computed independently), "none" if none   *)
(* Invariant: every emitted authorization header pairs an id with a MAC      *)
(* under that same key, and the id names a key that was latched.             *)
(***************************************************************************)
EXTENDS Naturals, Sequences, TLC, Json, IOUtils

Rec == ndJsonDeserialize(IOEnv.TRACE)
VARIABLES l, issued, last
tvars == <<l, issued, last>>

Init == l = 1 /\ issued = {} /\ last = [e |-> "init"]
Next == /\ l <= Len(Rec) /\ l' = l + 1 /\ last' = Rec[l]
        /\ issued' = IF Rec[l].e = "issue" THEN issued \cup {Rec[l].guid} ELSE issued
Spec == Init /\ [][Next]_tvars

P_C10_KeyPairing == last.e = "sign" => (last.verifies = last.guid /\ last.guid \in issued)
\* the signing helper itself, called concurrently with two keys: {"e":"sigfn","calls":n,"mismatches":m,"refOk":b}
\* (refOk: the single-threaded MACs equal an independent HMAC-SHA256)
P_C10_SignerFunction == last.e = "sigfn" => (last.mismatches = 0 /\ last.refOk)
Accepted == IF TLCGet("stats").diameter - 1 = Len(Rec) THEN TRUE
            ELSE PrintT(<<"UNMATCHED", TLCGet("stats").diameter, Len(Rec)>>) /\ FALSE
=============================================================================
