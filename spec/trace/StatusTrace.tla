----------------------------- MODULE StatusTrace -----------------------------
(***************************************************************************)
(* Trace validation for X01_STATUS against the PROPERTIES of Status.tla    *)
(* (not against its implementation shape).  The rows are what was done to  *)
(* the real AgentStatusSharedState actor (call / ret of every operation,   *)
(* in the order of one global ticket counter), what was done to the clock  *)
(* and the file system, and every status.json that was observed.  From the *)
(* recorded INPUTS the spec recomputes, for every instant (= every prefix  *)
(* of the rows), what each component of the actor's state can have been:   *)
(* an operation takes effect somewhere between its call and its return, so *)
(* a count lies between the adds completed and the adds started, a module  *)
(* state is the last completed write or one in flight.  An observed        *)
(* document is then judged by the properties only:                         *)
(*   P_FileNeverHalfWritten  every observation is a complete document that *)
(*        the real deserializer accepts; never vanishes once present       *)
(*   P_OverallStatusFunction status = SUCCESS iff the three published gate *)
(*        states are RUNNING, else ERROR                                   *)
(*   P_FieldwiseSnapshot     each module state / message / the count /     *)
(*        EACH BAG AS A WHOLE is a possible value of one instant of the    *)
(*        window [w, now) the harness vouches for (lock-step: the tick;    *)
(*        stress: since the start of the last read that still saw the      *)
(*        document before the previous one -- see checks/x01_status.py)    *)
(*   P_CountsMonotone        no published count decreases between two      *)
(*        observations unless a clear was due in between                   *)
(*   P_MessageBounded        published message = message set, or its       *)
(*        prefix of MaxMsg-3..MaxMsg bytes + "..." when longer than MaxMsg *)
(*   P_Cadence               (rows with it = 1: exactly one iteration ran) *)
(*        a status event iff >= EventAfter s were added to the clock since *)
(*        the last one; the bags are emptied after the publication iff     *)
(*        >= ClearAfter s were added since the last clear                  *)
(*   P_EventCarriesPublished the event is the proxyAgentStatus of the      *)
(*        document published by the same iteration                         *)
(*   P_MonitorTruthful       the monitor message of a document tells how   *)
(*        the previous write went (first / written / error)                *)
(*   P_Returns               set_state returns the state, set_msg returns  *)
(*        "changed", a counter returns a value between (increments         *)
(*        completed before the call) + 1 and (increments started)          *)
(*   P_PublishesEveryIteration  every iteration replaces the file unless   *)
(*        the file system refuses (lock-step rows)                         *)
(*   P_Shape                 field inventory of the JSON document          *)
(* Any implementation with these properties is accepted; the first broken  *)
(* one is reported by name.  "viol" collects the names.                    *)
(*                                                                         *)
(* Rows (ndjson, IOEnv.TRACE):                                             *)
(*  {"e":"reset"}                         new process, empty directory     *)
(*  {"e":"restart"}                       new process, files stay          *)
(*  {"e":"call","i":id,"op":"add","bag":"conn"|"fail","k":key}             *)
(*  {"e":"call","i":id,"op":"set_state","m":module,"s":state}              *)
(*  {"e":"call","i":id,"op":"set_msg","m":module,"msg":{"id","len"}}       *)
(*  {"e":"call","i":id,"op":"inc_http"|"inc_tcp"}                          *)
(*  {"e":"ret","i":id,"r":value}                                           *)
(*  {"e":"adv","secs":n}   {"e":"block","on":bool}                         *)
(*  {"e":"pub","w":j,"kind":"doc"|"stale"|"absent"|"bad"|"vanished",       *)
(*   "it":0|1,"doc":{shape,status,mon,count,det,conn,fail},"evs":[pas..]}  *)
(***************************************************************************)
EXTENDS Status, Json, IOUtils

Rec == ndJsonDeserialize(IOEnv.TRACE)

VARIABLES l,        \* next row
          st,       \* [Modules -> committed state]
          stIn,     \* [Modules -> set of states being written]
          ms,       \* [Modules -> committed message [id, len]]
          msIn,     \* [Modules -> set of messages being written]
          cnt,      \* [cs, cc: ConnKeys -> Nat; fs, fc: FailKeys -> Nat; hs, hc, ts, tc: Nat]  started / completed
          open,     \* operations in flight: set of call rows
          hist, hbase,   \* hist[j - hbase + 1] = the possibilities after j rows
          prev,     \* previous observed document of this process, or None
          elE, elC, \* seconds added to the clock since the last event / clear (or the start)
          blocked,  \* status.tmp is blocked
          lastWrite,\* "first" | "ok" | "err": how the previous iteration's write went
          seen,     \* a document has been observed in this directory
          viol      \* names of broken properties

tvars == <<vars, l, st, stIn, ms, msIn, cnt, open, hist, hbase, prev, elE, elC, blocked, lastWrite, seen, viol>>

Slack == 120    \* the check keeps clock sums out of [deadline - Slack, deadline); a run lasts far less than Slack s

ZeroCnt == [cs |-> [k \in ConnKeys |-> 0], cc |-> [k \in ConnKeys |-> 0],
            fs |-> [k \in FailKeys |-> 0], fc |-> [k \in FailKeys |-> 0], hs |-> 0, hc |-> 0, ts |-> 0, tc |-> 0]
Unk == [id |-> "unk", len |-> 15]
Poss(st_, stIn_, ms_, msIn_, cnt_) ==
  [st |-> [m \in Modules |-> {st_[m]} \cup stIn_[m]], ms |-> [m \in Modules |-> {ms_[m]} \cup msIn_[m]], c |-> cnt_]

FreshProcess ==
  /\ st' = [m \in Modules |-> "UNKNOWN"] /\ stIn' = [m \in Modules |-> {}]
  /\ ms' = [m \in Modules |-> Unk] /\ msIn' = [m \in Modules |-> {}]
  /\ cnt' = ZeroCnt /\ open' = {} /\ prev' = None /\ elE' = 0 /\ elC' = 0 /\ blocked' = FALSE /\ lastWrite' = "first"

TInit ==
  /\ Init /\ l = 1
  /\ st = [m \in Modules |-> "UNKNOWN"] /\ stIn = [m \in Modules |-> {}]
  /\ ms = [m \in Modules |-> Unk] /\ msIn = [m \in Modules |-> {}]
  /\ cnt = ZeroCnt /\ open = {} /\ prev = None /\ elE = 0 /\ elC = 0 /\ blocked = FALSE /\ lastWrite = "first"
  /\ hbase = 0
  /\ hist = <<Poss([m \in Modules |-> "UNKNOWN"], [m \in Modules |-> {}], [m \in Modules |-> Unk],
                   [m \in Modules |-> {}], ZeroCnt)>>
  /\ seen = FALSE /\ viol = {}

Row == Rec[l]
\* every step consumes one row and appends the possibilities of the new instant
Adv == /\ l' = l + 1
Push(drop) ==    \* drop = number of leading entries no later window can reach
  /\ hist' = Append(SubSeq(hist, drop + 1, Len(hist)), Poss(st', stIn', ms', msIn', cnt'))
  /\ hbase' = hbase + drop
H(j) == hist[j - hbase + 1]

Reset ==
  /\ Row.e \in {"reset", "restart"}
  /\ FreshProcess /\ seen' = (seen /\ Row.e = "restart")
  /\ Adv /\ Push(Len(hist)) /\ UNCHANGED viol

Call ==
  /\ Row.e = "call"
  \* a counter's return value counts every increment completed before this call began
  /\ open' = open \cup {[row |-> Row, base |-> IF Row.op = "inc_http" THEN cnt.hc ELSE IF Row.op = "inc_tcp" THEN cnt.tc ELSE 0]}
  /\ CASE Row.op = "add" /\ Row.bag = "conn" -> cnt' = [cnt EXCEPT !.cs[Row.k] = @ + 1] /\ UNCHANGED <<stIn, msIn>>
       [] Row.op = "add" /\ Row.bag = "fail" -> cnt' = [cnt EXCEPT !.fs[Row.k] = @ + 1] /\ UNCHANGED <<stIn, msIn>>
       [] Row.op = "inc_http" -> cnt' = [cnt EXCEPT !.hs = @ + 1] /\ UNCHANGED <<stIn, msIn>>
       [] Row.op = "inc_tcp" -> cnt' = [cnt EXCEPT !.ts = @ + 1] /\ UNCHANGED <<stIn, msIn>>
       [] Row.op = "set_state" -> stIn' = [stIn EXCEPT ![Row.m] = @ \cup {Row.s}] /\ UNCHANGED <<cnt, msIn>>
       [] Row.op = "set_msg" -> msIn' = [msIn EXCEPT ![Row.m] = @ \cup {Row.msg}] /\ UNCHANGED <<cnt, stIn>>
  /\ UNCHANGED <<st, ms, prev, elE, elC, blocked, lastWrite, seen, viol>>
  /\ Adv /\ Push(0)

Ret ==
  /\ Row.e = "ret"
  /\ LET oc == CHOOSE o \in open : o.row.i = Row.i
         c == oc.row IN
     /\ open' = open \ {oc}
     /\ CASE c.op = "add" /\ c.bag = "conn" ->
               cnt' = [cnt EXCEPT !.cc[c.k] = @ + 1] /\ UNCHANGED <<st, stIn, ms, msIn, viol>>
          [] c.op = "add" /\ c.bag = "fail" ->
               cnt' = [cnt EXCEPT !.fc[c.k] = @ + 1] /\ UNCHANGED <<st, stIn, ms, msIn, viol>>
          [] c.op = "inc_http" ->
               /\ cnt' = [cnt EXCEPT !.hc = @ + 1] /\ UNCHANGED <<st, stIn, ms, msIn>>
               /\ viol' = IF Row.r >= oc.base + 1 /\ Row.r <= cnt.hs THEN viol ELSE viol \cup {"Returns"}
          [] c.op = "inc_tcp" ->
               /\ cnt' = [cnt EXCEPT !.tc = @ + 1] /\ UNCHANGED <<st, stIn, ms, msIn>>
               /\ viol' = IF Row.r >= oc.base + 1 /\ Row.r <= cnt.ts THEN viol ELSE viol \cup {"Returns"}
          [] c.op = "set_state" ->
               /\ st' = [st EXCEPT ![c.m] = c.s] /\ stIn' = [stIn EXCEPT ![c.m] = @ \ {c.s}]
               /\ UNCHANGED <<cnt, ms, msIn>>
               /\ viol' = IF Row.r = c.s THEN viol ELSE viol \cup {"Returns"}
          [] c.op = "set_msg" ->
               /\ ms' = [ms EXCEPT ![c.m] = c.msg] /\ msIn' = [msIn EXCEPT ![c.m] = @ \ {c.msg}]
               /\ UNCHANGED <<cnt, st, stIn>>
               \* one writer per module: "updated" iff the message differs from the one in force
               /\ viol' = IF msIn[c.m] = {c.msg} => (Row.r = (c.msg # ms[c.m])) THEN viol ELSE viol \cup {"Returns"}
  /\ UNCHANGED <<prev, elE, elC, blocked, lastWrite, seen>>
  /\ Adv /\ Push(0)

Clock ==
  /\ Row.e = "adv"
  /\ elE' = elE + Row.secs /\ elC' = elC + Row.secs
  /\ UNCHANGED <<st, stIn, ms, msIn, cnt, open, prev, blocked, lastWrite, seen, viol>>
  /\ Adv /\ Push(0)

Block ==
  /\ Row.e = "block"
  /\ blocked' = Row.on
  /\ UNCHANGED <<st, stIn, ms, msIn, cnt, open, prev, elE, elC, lastWrite, seen, viol>>
  /\ Adv /\ Push(0)

-----------------------------------------------------------------------------
\* judging one observed document
Window(w) == w..(l - 1)           \* instants: after w rows ... after l-1 rows (just before this observation)

MsgMatches(p, o) ==
  /\ p.id = o.id /\ p.pfx
  /\ IF o.len > MaxMsg THEN p.dots /\ p.len <= MaxMsg /\ p.len + 3 >= MaxMsg
                       ELSE ~p.dots /\ p.len = o.len

OverallOK(d) == d.status = (IF \A m \in Gate : d.det[m].status = "RUNNING" THEN "SUCCESS" ELSE "ERROR")

Fieldwise(d, w) ==
  /\ \A m \in Published : \E j \in Window(w) : d.det[m].status \in H(j).st[m]
  /\ \E j \in Window(w) : d.count >= H(j).c.hc /\ d.count <= H(j).c.hs
  /\ \E j \in Window(w) : \A k \in ConnKeys : d.conn[k] >= H(j).c.cc[k] /\ d.conn[k] <= H(j).c.cs[k]
  /\ \E j \in Window(w) : \A k \in FailKeys : d.fail[k] >= H(j).c.fc[k] /\ d.fail[k] <= H(j).c.fs[k]
MessagesOK(d, w) ==
  \A m \in Published : \E j \in Window(w) : \E o \in H(j).ms[m] : MsgMatches(d.det[m].message, o)

\* NOT properties (Status.tla: StrongSnapshot, NoPhantomSuccess): reported as observations, never as verdicts
Whole(d, w) ==
  \E j \in Window(w) :
    /\ \A m \in Published : d.det[m].status \in H(j).st[m] /\ \E o \in H(j).ms[m] : MsgMatches(d.det[m].message, o)
    /\ d.count >= H(j).c.hc /\ d.count <= H(j).c.hs
    /\ \A k \in ConnKeys : d.conn[k] >= H(j).c.cc[k] /\ d.conn[k] <= H(j).c.cs[k]
    /\ \A k \in FailKeys : d.fail[k] >= H(j).c.fc[k] /\ d.fail[k] <= H(j).c.fs[k]
Phantom(d, w) == d.status = "SUCCESS" /\ ~\E j \in Window(w) : \A m \in Gate : "RUNNING" \in H(j).st[m]

Monotone(d) ==
  prev = None \/ elC >= ClearAfter - Slack
  \/ /\ \A k \in ConnKeys : d.conn[k] >= prev.conn[k]
     /\ \A k \in FailKeys : d.fail[k] >= prev.fail[k]
     /\ d.count >= prev.count

MonitorOK(d, it) ==
  IF it = 1 THEN d.mon = (CASE lastWrite = "first" -> "mon_running" [] lastWrite = "ok" -> "mon_written"
                            [] OTHER -> "mon_error")
            ELSE d.mon \in {"mon_running", "mon_written", "mon_error"}

PasOf(d) == [status |-> d.status, mon |-> d.mon, count |-> d.count, det |-> d.det]
EventDue == elE >= EventAfter
ClearDue == elC >= ClearAfter
Ambiguous == (elE < EventAfter /\ elE >= EventAfter - Slack) \/ (elC < ClearAfter /\ elC >= ClearAfter - Slack)

Pub ==
  /\ Row.e = "pub"
  /\ LET k == Row.kind
         it == Row.it
         isDoc == k = "doc"
         d == Row.doc
         winOK == Row.w >= hbase /\ Row.w <= l - 1
         broken ==
           (IF k \in {"bad", "vanished"} \/ (k = "absent" /\ seen) THEN {"FileNeverHalfWritten"} ELSE {})
           \cup (IF isDoc /\ ~d.shape THEN {"Shape"} ELSE {})
           \cup (IF isDoc /\ d.shape /\ ~OverallOK(d) THEN {"OverallStatusFunction"} ELSE {})
           \cup (IF isDoc /\ d.shape /\ winOK /\ ~Fieldwise(d, Row.w) THEN {"FieldwiseSnapshot"} ELSE {})
           \cup (IF isDoc /\ d.shape /\ winOK /\ ~MessagesOK(d, Row.w) THEN {"MessageBounded"} ELSE {})
           \cup (IF isDoc /\ d.shape /\ ~Monotone(d) THEN {"CountsMonotone"} ELSE {})
           \cup (IF isDoc /\ d.shape /\ ~MonitorOK(d, it) THEN {"MonitorTruthful"} ELSE {})
           \cup (IF it = 1 /\ k = "stale" /\ ~blocked THEN {"PublishesEveryIteration"} ELSE {})
           \cup (IF it = 1 /\ ~Ambiguous /\ Len(Row.evs) # (IF EventDue THEN 1 ELSE 0) THEN {"Cadence"} ELSE {})
           \cup (IF it = 1 /\ isDoc /\ d.shape /\ Len(Row.evs) = 1 /\ Row.evs[1] # PasOf(d)
                   THEN {"EventCarriesPublished"} ELSE {})
           \cup (IF it = 1 /\ Ambiguous THEN {"InputsAmbiguous"} ELSE {})
           \cup (IF ~winOK THEN {"InputsWindow"} ELSE {})
     IN
     /\ IF isDoc /\ d.shape /\ winOK /\ Fieldwise(d, Row.w) /\ ~Whole(d, Row.w)
          THEN PrintT(<<"TORN", l, IF Phantom(d, Row.w) THEN "phantom-success" ELSE "mixed-instants">>) ELSE TRUE
     /\ viol' = viol \cup broken
     /\ seen' = (seen \/ isDoc)
     /\ LET p1 == IF isDoc /\ d.shape THEN [conn |-> d.conn, fail |-> d.fail, count |-> d.count] ELSE prev
        IN  prev' = IF it = 1 /\ ClearDue /\ p1 # None       \* what is cleared after this publication may drop
                      THEN [p1 EXCEPT !.conn = [x \in ConnKeys |-> 0], !.fail = [x \in FailKeys |-> 0]]
                      ELSE p1
     /\ lastWrite' = IF it = 1 THEN (IF isDoc THEN "ok" ELSE "err") ELSE lastWrite
     /\ elE' = IF it = 1 /\ EventDue THEN 0 ELSE elE
     \* the clear comes after the publication of the same iteration
     /\ IF it = 1 /\ ClearDue
          THEN /\ elC' = 0
               /\ cnt' = [cnt EXCEPT !.cs = [x \in ConnKeys |-> 0], !.cc = [x \in ConnKeys |-> 0],
                                     !.fs = [x \in FailKeys |-> 0], !.fc = [x \in FailKeys |-> 0]]
          ELSE UNCHANGED <<elC, cnt>>
  /\ UNCHANGED <<st, stIn, ms, msIn, open, blocked>>
  /\ Adv
  /\ Push(IF Row.w >= hbase /\ Row.w <= l - 1 THEN Row.w - hbase ELSE 0)

TNext == l <= Len(Rec) /\ (Reset \/ Call \/ Ret \/ Clock \/ Block \/ Pub) /\ UNCHANGED vars
TSpec == TInit /\ [][TNext]_tvars

P_FileNeverHalfWritten   == "FileNeverHalfWritten" \notin viol
P_PublishesEveryIteration == "PublishesEveryIteration" \notin viol
P_Shape                  == "Shape" \notin viol
P_OverallStatusFunction  == "OverallStatusFunction" \notin viol
P_FieldwiseSnapshot      == "FieldwiseSnapshot" \notin viol
P_MessageBounded         == "MessageBounded" \notin viol
P_CountsMonotone         == "CountsMonotone" \notin viol
P_MonitorTruthful        == "MonitorTruthful" \notin viol
P_Cadence                == "Cadence" \notin viol
P_EventCarriesPublished  == "EventCarriesPublished" \notin viol
P_Returns                == "Returns" \notin viol
\* not properties of the code: the harness's own promises about its rows
T_InputsAmbiguous        == "InputsAmbiguous" \notin viol
T_InputsWindow           == "InputsWindow" \notin viol

Accepted == IF TLCGet("stats").diameter - 1 = Len(Rec) THEN TRUE
            ELSE PrintT(<<"UNMATCHED", TLCGet("stats").diameter, Len(Rec)>>) /\ FALSE
=============================================================================
