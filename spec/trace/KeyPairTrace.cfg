SPECIFICATION Spec
INVARIANTS P_C10_KeyPairing
POSTCONDITION Accepted
CHECK_DEADLOCK FALSE
