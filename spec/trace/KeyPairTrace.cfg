SPECIFICATION Spec
INVARIANTS P_C10_KeyPairing P_C10_SignerFunction
POSTCONDITION Accepted
CHECK_DEADLOCK FALSE
