----------------------------- MODULE CanonTrace -----------------------------
(***************************************************************************)
(* C04: TLC as the canonicalisation oracle.  Each row is a request AS THE   *)
(* HOST RECEIVED IT (tokenised from the raw bytes captured by the mock      *)
(* host: method, path, query pairs, header list in arrival order; the body  *)
(* stays outside -- it enters the string verbatim).  For every row TLC      *)
(* prints the part of StringToSign before the body and the part after it,   *)
(* for both accepted parameter orders; the check then computes              *)
(* HMAC-SHA256 under the key registered for the announced key id with an    *)
(* independent implementation and compares it with the header's MAC.        *)
(***************************************************************************)
EXTENDS Canon, Json, IOUtils

Rec == ndJsonDeserialize(IOEnv.TRACE)
VARIABLE l
Init == l = 1
Next == l <= Len(Rec) /\ l' = l + 1
Spec == Init /\ [][Next]_l

Row == Rec[l - 1]
Pairs(q) == [i \in 1..Len(q) |-> [k |-> q[i][1], v |-> q[i][2]]]
Hdrs(h) == [i \in 1..Len(h) |-> [n |-> h[i][1], v |-> h[i][2]]]
Req(r) == [method |-> r.method, path |-> r.path, query |-> Pairs(r.query), headers |-> Hdrs(r.headers), body |-> <<>>]
Pre(r) == r.method \o <<LF>>
Post(r, o) == <<LF>> \o CanonHeaders(Hdrs(r.headers)) \o r.path \o <<LF>> \o CanonParams(Pairs(r.query), o)
Emit == l > 1 => PrintT(<<"STS", ToJson([id |-> Row.id, pre |-> Pre(Row), postKv |-> Post(Row, "kv"),
                                          postConcat |-> Post(Row, "concat")])>>)
Accepted == IF TLCGet("stats").diameter - 1 = Len(Rec) THEN TRUE
            ELSE PrintT(<<"UNMATCHED", TLCGet("stats").diameter, Len(Rec)>>) /\ FALSE
=============================================================================
