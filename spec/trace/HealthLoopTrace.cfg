SPECIFICATION TSpec
CONSTANTS
  Threshold = 20
  MaxCount = 10000
  GhostCap = 23
  SeqNo = {"0"}
  Tags = {"t"}
  Fails = {"m"}
  Memo = "off"
INVARIANTS P_CurrentSeqFileIsLoopReport P_CurrentSeqFileCarriesThisPoll P_ReportDomain P_ErrorOnlyAfterSustainedFailure P_NeverErrorAfterSuccess P_TwoSuccessesGiveSuccess
POSTCONDITION Accepted
CHECK_DEADLOCK FALSE
