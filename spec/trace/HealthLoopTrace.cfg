SPECIFICATION TSpec
CONSTANTS
  Threshold = 20
  MaxCount = 10000
  GhostCap = 23
  SeqNo = {"0"}
  Tags = {"t"}
  Fails = {"m"}
  Codes = {0, 1}
  CodeOverride = FALSE
  SameFs = FALSE
  TempRename = FALSE
  Memo = "off"
INVARIANTS P_CurrentSeqFileIsLoopReport P_CurrentSeqFileCarriesThisPoll P_ReportDomain P_ErrorOnlyAfterSustainedFailure P_NeverErrorAfterSuccess P_TwoSuccessesGiveSuccess
POSTCONDITION Accepted
CHECK_DEADLOCK FALSE
