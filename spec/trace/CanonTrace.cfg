SPECIFICATION Spec
INVARIANTS Emit
POSTCONDITION Accepted
CHECK_DEADLOCK FALSE
