SPECIFICATION Spec
INVARIANTS P_C07_OwnIdentityOnly P_C07_UnattributedRefused P_C07_AttributedServed P_C07_DeadDestination
POSTCONDITION Accepted
CHECK_DEADLOCK FALSE
