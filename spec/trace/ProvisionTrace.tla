---------------------------- MODULE ProvisionTrace ----------------------------
(***************************************************************************)
(* Trace validation for C16 against the *statement* (property level, not   *)
(* the implementation shape).  Every row is one step of a recorded run of  *)
(* the real code: the actor state after the step (flags, finished tick as  *)
(* an index into the run's clock readings), status.tag as read from disk,  *)
(* and for a query the instant it named and the HTTP answer.  The state is *)
(* taken from the trace; only the ghosts of Provision.tla (allReadyAt,     *)
(* timeupAt, owed, written ...) are advanced by the rules of the spec, and *)
(* the properties of the statement are evaluated in every state.  Nothing  *)
(* about *how* the implementation got there is required, so any            *)
(* implementation satisfying C16 is accepted.  The names of the properties *)
(* that fail in a run are collected and printed when the run ends          *)
(* (<<"VERDICT", json>>), so one TLC run decides many recorded runs.       *)
(* Rows: {"e":"run","id":..} {"e":"tick"} {"e":"end"}                       *)
(*  {"e":"step","t","i","a","x","flags":[..],"fin":n,"latch":b,            *)
(*   "tag":{"k","n"}, "q":n (qfin), "finished","names","lat" (qchan)}       *)
(*  {"e":"tagobs","tag":{"k","n"},"ino":n} status.tag as seen by a polling  *)
(*   reader; same inode with different content = rewritten in place        *)
(*   ("TagRenameOnly")                                                     *)
(***************************************************************************)
EXTENDS Provision, Json, IOUtils, Sequences

Rec == ndJsonDeserialize(IOEnv.TRACE)
VARIABLES l, viol, runid,
          tino,     \* inode of status.tag at the reader's previous look (0: none)
          tsAt      \* clock at which the deadline handler last started
tvars == <<vars, l, viol, runid, tino, tsAt>>

SetOf(seq) == {seq[k] : k \in 1..Len(seq)}
TagOf(r) == [k |-> r.k, n |-> SetOf(r.n)]

\* the statement, evaluated on the current state; names of the parts that fail
P_FinishedOnlyAfter == FinishedOnlyAfter
P_QueryTruthPos == QueryTruthPos
P_QueryTruthZero == \A i \in 1..NQ : qs[i].pc = "done" /\ qs[i].q = 0 => QueryTruthAt(0, qs[i].finished, qs[i].lat)
P_QueryComplete == QueryComplete
\* the subsystems named are exactly those whose last report, at the instant of the state read, was not "ready"
P_ErrorText == \A i \in 1..NQ : qs[i].pc = "done" => qs[i].names = All \ qs[i].rep
P_TagAtomic == TagAtomic
Failing == {n \in {"FinishedOnlyAfter", "QueryTruthPos", "QueryTruthZero", "QueryComplete", "ErrorText", "TagAtomic"} :
              CASE n = "FinishedOnlyAfter" -> ~P_FinishedOnlyAfter
                [] n = "QueryTruthPos"     -> ~P_QueryTruthPos
                [] n = "QueryTruthZero"    -> ~P_QueryTruthZero
                [] n = "QueryComplete"     -> ~P_QueryComplete
                [] n = "ErrorText"         -> ~P_ErrorText
                [] n = "TagAtomic"         -> ~P_TagAtomic}

TInit == Init /\ l = 1 /\ viol = {} /\ runid = "-" /\ tino = 0 /\ tsAt = 0

Verdict == PrintT(<<"VERDICT", ToJson([run |-> runid, viol |-> viol \cup Failing])>>)

TRun == /\ l <= Len(Rec) /\ Rec[l].e \in {"run", "end"}
        /\ (runid = "-" \/ Verdict)
        /\ flags' = {} /\ fin' = 0 /\ clock' = 1 /\ latch' = FALSE
        /\ wpc' = [w \in Writers |-> "idle"] /\ wloc' = [w \in Writers |-> LocIdle]
        /\ qs' = [i \in 1..NQ |-> QIdle]
        /\ tmpF' = NoFile /\ tagF' = NoFile
        /\ reported' = {} /\ everAllReady' = FALSE /\ timeupFired' = FALSE
        /\ allReadyAt' = 0 /\ timeupAt' = 0 /\ owed' = 0 /\ written' = {}
        /\ viol' = {} /\ runid' = IF Rec[l].e = "run" THEN Rec[l].id ELSE "-"
        /\ l' = l + 1 /\ tino' = 0 /\ tsAt' = 0
        /\ UNCHANGED <<kkLeft, rdLeft, latchLeft, fd, last>>

TTick == /\ l <= Len(Rec) /\ Rec[l].e = "tick"
         /\ clock' = clock + 1
         /\ Ghost(flags, clock + 1)
         /\ viol' = viol \cup Failing /\ l' = l + 1
         /\ UNCHANGED <<flags, fin, latch, wpc, wloc, kkLeft, rdLeft, latchLeft, qs, tmpF, tagF, fd, reported,
                        timeupFired, timeupAt, owed, written, last, runid, tino, tsAt>>

TObs == /\ l <= Len(Rec) /\ Rec[l].e = "tagobs"
        /\ tagF' = TagOf(Rec[l].tag)
        /\ tino' = Rec[l].ino
        /\ viol' = viol \cup Failing \cup
                   (IF tino # 0 /\ Rec[l].ino = tino /\ TagOf(Rec[l].tag) # tagF THEN {"TagRenameOnly"} ELSE {})
        /\ l' = l + 1
        /\ UNCHANGED <<flags, fin, clock, latch, wpc, wloc, kkLeft, rdLeft, latchLeft, qs, tmpF, fd, reported,
                       everAllReady, timeupFired, allReadyAt, timeupAt, owed, written, last, runid, tsAt>>

TStep ==
  /\ l <= Len(Rec) /\ Rec[l].e = "step"
  /\ LET r == Rec[l]
         f2 == SetOf(r.flags)
         inReset == KKInReset
         \* what the subsystems last reported, from the calls made (not from the implementation's flags)
         rep2 == CASE r.a = "upd" -> reported \cup {r.x}
                   [] r.a = "reset" -> reported \ {r.x}
                   [] OTHER -> reported
     IN /\ flags' = f2 /\ reported' = rep2 /\ fin' = r.fin /\ latch' = r.latch
        /\ tagF' = TagOf(r.tag)
        /\ Ghost(rep2, clock)
        /\ tsAt' = IF r.a = "tstate" THEN clock ELSE tsAt
        /\ timeupFired' = (timeupFired \/ r.a = "tstate")
        /\ timeupAt' = IF r.a = "setfin" /\ r.x = "T" THEN clock ELSE timeupAt
        /\ owed' = CASE r.a = "reset" -> 0
                     [] r.a = "setfin" /\ r.x = "R" -> 0
                     [] r.a = "setfin" /\ ~inReset -> clock
                     \* the deadline handler got as far as writing the status files: the deadline has passed
                     [] r.a = "wstate" /\ r.x = "T" /\ owed = 0 -> tsAt
                     [] OTHER -> owed
        \* only the key keeper's reset bracket is tracked of the implementation's control state
        /\ wpc' = CASE r.a = "reset" -> [wpc EXCEPT !["kk"] = "setfin"]
                    [] r.a = "setfin" /\ r.x = "R" -> [wpc EXCEPT !["kk"] = "idle"]
                    [] OTHER -> wpc
        /\ wloc' = CASE r.a = "reset" -> [wloc EXCEPT !["kk"] = [op |-> "R", farg |-> FALSE, msg |-> {}]]
                     [] r.a = "setfin" /\ r.x = "R" -> [wloc EXCEPT !["kk"] = LocIdle]
                     [] OTHER -> wloc
        \* a writer's complete message names the subsystems not ready when it read the state
        /\ written' = IF r.a = "wstate" THEN written \cup {All \ f2} ELSE written
        /\ qs' = CASE r.a = "qfin"   -> [qs EXCEPT ![r.i] = [QIdle EXCEPT !.pc = "qstate", !.q = r.q, !.owed0 = owed]]
                   [] r.a = "qstate" -> [qs EXCEPT ![r.i].pc = "qchan", ![r.i].fl = f2, ![r.i].rep = rep2]
                   [] r.a = "qchan"  -> [qs EXCEPT ![r.i].pc = "done", ![r.i].finished = r.finished,
                                                   ![r.i].names = SetOf(r.names), ![r.i].lat = r.lat]
                   [] OTHER -> qs
  /\ viol' = viol \cup Failing /\ l' = l + 1
  /\ UNCHANGED <<clock, kkLeft, rdLeft, latchLeft, tmpF, fd, last, runid, tino>>

TNext == TRun \/ TTick \/ TObs \/ TStep
TSpec == TInit /\ [][TNext]_tvars

Accepted == IF TLCGet("stats").diameter - 1 = Len(Rec) THEN TRUE
            ELSE PrintT(<<"UNMATCHED", TLCGet("stats").diameter, Len(Rec)>>) /\ FALSE
=============================================================================
