---------------------------- MODULE ProvisionTrace ----------------------------
(***************************************************************************)
(* Trace validation for C16 against the *statement* (property level, not   *)
(* the implementation shape).  Every row is one step of a recorded run of  *)
(* the real code: the actor state after the step (flags, finished tick as  *)
(* an index into the run's clock readings), status.tag as read from disk,  *)
(* and for a query the instant it named and the HTTP answer.  The state is *)
(* taken from the trace; only the ghosts of Provision.tla (allReadyAt,     *)
(* timeupAt, owed, written ...) are advanced by the rules of the spec, and *)
(* the properties of the statement are evaluated in every state.  Nothing  *)
(* about *how* the implementation got there is required, so any            *)
(* implementation satisfying C16 is accepted.  The names of the properties *)
(* that fail in a run are collected and printed when the run ends          *)
(* (<<"VERDICT", json>>), so one TLC run decides many recorded runs.       *)
(* Rows: {"e":"run","id":..} {"e":"tick"} {"e":"end"}                       *)
(*  {"e":"step","t","i","op","g","first","done","x","flags":[..],"fin":n,   *)
(*   "latch":b,"tag":{"k","n"},"sameino":b,"changed":b,"oldfd":b,          *)
(*   "wait":b,"sameq":b (a waiting query: all polls named its instant),    *)
(*   "answered":b,"anyfin":b (some poll was answered / answered finished), *)
(*   "q":n (first message of a query),                                     *)
(*   "finished","names","lat" (last message of a query)}                   *)
(*  {"e":"tagobs","tag":{"k","n"},"ino":n} status.tag as seen by a polling  *)
(*   reader; same inode with different content = rewritten in place        *)
(*   ("TagRenameOnly")                                                     *)
(***************************************************************************)
EXTENDS Provision, Json, IOUtils, Sequences

Rec == ndJsonDeserialize(IOEnv.TRACE)
VARIABLES l, viol, runid,
          tino,     \* inode of status.tag at the reader's previous look (0: none)
          tsAt      \* clock at which the deadline handler last started
tvars == <<vars, l, viol, runid, tino, tsAt>>

SetOf(seq) == {seq[k] : k \in 1..Len(seq)}
TagOf(r) == [k |-> r.k, n |-> SetOf(r.n)]

\* the statement, evaluated on the current state; names of the parts that fail
P_FinishedOnlyAfter == FinishedOnlyAfter
P_QueryTruthPos == QueryTruthPos
P_QueryTruthZero == \A i \in 1..NQ : qs[i].pc = "done" /\ qs[i].q = 0 => QueryTruthAt(qs[i])
P_QueryComplete == QueryComplete
\* the subsystems named are exactly those whose last report, at the instant of the state read, was not "ready"
P_ErrorText == \A i \in 1..NQ : qs[i].pc = "done" => qs[i].names = All \ qs[i].rep
P_TagAtomic == TagAtomic
Failing == {n \in {"FinishedOnlyAfter", "QueryTruthPos", "QueryTruthZero", "QueryComplete", "ErrorText", "TagAtomic"} :
              CASE n = "FinishedOnlyAfter" -> ~P_FinishedOnlyAfter
                [] n = "QueryTruthPos"     -> ~P_QueryTruthPos
                [] n = "QueryTruthZero"    -> ~P_QueryTruthZero
                [] n = "QueryComplete"     -> ~P_QueryComplete
                [] n = "ErrorText"         -> ~P_ErrorText
                [] n = "TagAtomic"         -> ~P_TagAtomic}

\* "replaced atomically, never observed half-written", literally: the reader keeps the status.tag it saw last open
\* until its next look (so the inode number cannot be reused).  changed: the content differs from the previous look;
\* sameino: same (st_dev, st_ino) as at the previous look; oldfd: what is readable through the old descriptor is no
\* longer what was read from it.  A replacement by rename gives a new inode and leaves the old one untouched;
\* write / truncate / open(O_TRUNC) on the visible name do not.
InPlace(r) == IF (r.changed /\ r.sameino) \/ r.oldfd THEN {"TagInPlace"} ELSE {}
\* ... and once status.tag has been seen, every later look finds it: a replacement leaves no window without the file
\* a waiting query (the real ProvisionQuery client, all its polls in one row): every request the listener received
\* for it named the instant the query was created with
WaitInstant(r) == IF r.wait /\ ~r.sameq THEN {"WaitQueryInstant"} ELSE {}
\* ... and it returns 'finished' only if the answer to one of its polls said so (a poll that was refused or got no
\* answer says nothing)
WaitAnswer(r) == IF r.wait /\ r.finished /\ ~r.anyfin THEN {"WaitQueryUnanswered"} ELSE {}
Vanished(r) == IF tagF.k # "absent" /\ r.tag.k = "absent" THEN {"TagVanished"} ELSE {}

TInit == Init /\ l = 1 /\ viol = {} /\ runid = "-" /\ tino = 0 /\ tsAt = 0

Verdict == PrintT(<<"VERDICT", ToJson([run |-> runid, viol |-> viol \cup Failing])>>)

TRun == /\ l <= Len(Rec) /\ Rec[l].e \in {"run", "end"}
        /\ (runid = "-" \/ Verdict)
        /\ flags' = {} /\ fin' = 0 /\ clock' = 1 /\ latch' = FALSE
        /\ wpc' = [w \in Writers |-> "idle"] /\ wloc' = [w \in Writers |-> LocIdle]
        /\ qs' = [i \in 1..NQ |-> QIdle]
        /\ tmpF' = [w \in Writers |-> NoFile] /\ tagF' = NoFile
        /\ reported' = {} /\ everAllReady' = FALSE /\ timeupFired' = FALSE
        /\ allReadyAt' = 0 /\ timeupAt' = 0 /\ owed' = 0 /\ written' = {}
        /\ viol' = {} /\ runid' = IF Rec[l].e = "run" THEN Rec[l].id ELSE "-"
        /\ l' = l + 1 /\ tino' = 0 /\ tsAt' = 0
        /\ UNCHANGED <<kkLeft, rdLeft, latchLeft, fd, last>>

TTick == /\ l <= Len(Rec) /\ Rec[l].e = "tick"
         /\ clock' = clock + 1
         /\ Ghost(reported, clock + 1)
         /\ viol' = viol \cup Failing /\ l' = l + 1
         /\ UNCHANGED <<flags, fin, latch, wpc, wloc, kkLeft, rdLeft, latchLeft, qs, tmpF, tagF, fd, reported,
                        timeupFired, timeupAt, owed, written, last, runid, tino, tsAt>>

TObs == /\ l <= Len(Rec) /\ Rec[l].e = "tagobs"
        /\ tagF' = TagOf(Rec[l].tag)
        /\ tino' = Rec[l].ino
        /\ viol' = viol \cup Failing \cup InPlace(Rec[l]) \cup Vanished(Rec[l]) \cup
                   (IF tino # 0 /\ Rec[l].ino = tino /\ TagOf(Rec[l].tag) # tagF THEN {"TagRenameOnly"} ELSE {})
        /\ l' = l + 1
        /\ UNCHANGED <<flags, fin, clock, latch, wpc, wloc, kkLeft, rdLeft, latchLeft, qs, tmpF, fd, reported,
                       everAllReady, timeupFired, allReadyAt, timeupAt, owed, written, last, runid, tsAt>>

\* One actor message of one task.  op: the composite the task is executing (U update, R reset, T deadline, Q query),
\* g: the gate (= actor message) it passed (upd | reset | get | setfin | getfin; ask = a whole query as one step), first / done: first message of the
\* composite / the composite returned after this message.  Nothing is assumed about which messages a composite
\* sends or in which order: the ghosts follow the calls made and the reports they carry.
TStep ==
  /\ l <= Len(Rec) /\ Rec[l].e = "step"
  /\ LET r == Rec[l]
         f2 == SetOf(r.flags)
         isW == r.op \in {"U", "R", "T"}
         inReset == KKInReset \/ r.op = "R"
         \* what the subsystems last reported, from the calls made (not from the implementation's flags)
         rep2 == CASE r.g = "upd" -> reported \cup {r.x}
                   [] r.g = "reset" -> reported \ {r.x}
                   [] OTHER -> reported
         \* all three ready now; a completed key latch reset supersedes an earlier all-ready
         ev2 == IF rep2 = All THEN clock
                ELSE IF r.op = "R" /\ r.done THEN 0 ELSE allReadyAt
     IN /\ flags' = f2 /\ reported' = rep2 /\ fin' = r.fin /\ latch' = r.latch
        /\ tagF' = TagOf(r.tag)
        /\ allReadyAt' = ev2 /\ everAllReady' = (everAllReady \/ rep2 = All)
        /\ tsAt' = IF r.op = "T" /\ r.first THEN clock ELSE tsAt
        /\ timeupFired' = (timeupFired \/ r.op = "T")
        /\ timeupAt' = IF r.op = "T" /\ r.g = "setfin" THEN clock ELSE timeupAt
        /\ owed' = CASE r.op = "R" -> 0
                     [] r.op = "T" /\ r.g = "setfin" /\ ~inReset -> clock
                     [] r.op = "U" /\ r.g = "setfin" /\ rep2 = All /\ ~inReset -> clock
                     \* the deadline handler got as far as writing the status files: the deadline has passed
                     [] r.op = "T" /\ r.g = "get" /\ ~r.first /\ owed = 0 -> tsAt
                     [] OTHER -> owed
        \* of the implementation's control state only the key keeper's reset bracket is tracked
        /\ wpc' = IF r.op = "R" THEN [wpc EXCEPT !["kk"] = IF r.done THEN "idle" ELSE "setfin"] ELSE wpc
        /\ wloc' = IF r.op = "R"
                   THEN [wloc EXCEPT !["kk"] = IF r.done THEN LocIdle ELSE [op |-> "R", farg |-> FALSE, msg |-> {}]]
                   ELSE wloc
        \* a writer's complete message names the subsystems not ready when it read the state
        /\ written' = IF isW /\ r.g = "get" /\ ~(r.op = "T" /\ r.first) THEN written \cup {All \ f2} ELSE written
        /\ qs' = IF r.op # "Q" THEN qs
                 ELSE LET q1 == IF r.first
                                \* (a waiting query none of whose polls was answered owes nothing: the service was unreachable)
                                THEN [QIdle EXCEPT !.pc = "qstate", !.q = r.q, !.owed0 = IF r.wait /\ ~r.answered THEN 0 ELSE owed,
                                                   !.ev = allReadyAt,
                                                   !.inR0 = KKInReset]
                                ELSE qs[r.i]
                          q2 == IF r.g \in {"get", "ask"} THEN [q1 EXCEPT !.fl = f2, !.rep = rep2, !.ev = Max(q1.ev, ev2)]
                                ELSE [q1 EXCEPT !.ev = Max(q1.ev, ev2)]
                          q3 == IF r.done
                                \* (a waiting client that gives up returns "not finished" with an empty text)
                                THEN [q2 EXCEPT !.pc = "done", !.finished = r.finished,
                                                !.names = IF r.wait /\ ~r.finished THEN All \ q2.rep ELSE SetOf(r.names),
                                                !.lat = r.lat, !.tu = timeupAt]
                                ELSE q2
                      IN [qs EXCEPT ![r.i] = q3]
  /\ viol' = viol \cup Failing \cup InPlace(Rec[l]) \cup Vanished(Rec[l]) \cup WaitInstant(Rec[l]) \cup WaitAnswer(Rec[l]) /\ l' = l + 1
  /\ UNCHANGED <<clock, kkLeft, rdLeft, latchLeft, tmpF, fd, last, runid, tino>>

TNext == TRun \/ TTick \/ TObs \/ TStep
TSpec == TInit /\ [][TNext]_tvars

Accepted == IF TLCGet("stats").diameter - 1 = Len(Rec) THEN TRUE
            ELSE PrintT(<<"UNMATCHED", TLCGet("stats").diameter, Len(Rec)>>) /\ FALSE
=============================================================================
