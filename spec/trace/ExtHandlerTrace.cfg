\* X02 trace validation against the properties that hold for the code as built; the two findings' properties are
\* listed too: a rejection by P_StatusOnlyInFolder / P_RollbackCoversEveryInstall is reported with its structural
\* signature (stray-status / decision-latch).
SPECIFICATION TSpec
CONSTANTS
  Handlers = {"h1", "h2"}
  Seqs = {"1", "2"}
  Allowed <- AllCmds
  Good = {"x0", "h1"}
  OsSupported = TRUE
  SpawnMayFail = TRUE
  ExternalChange = TRUE
  ResetDecisionOnInstall = FALSE
  Threshold = 20
  MaxCount = 10000
  GhostCap = 10001
INVARIANTS
  P_StatusForCurrentSeq
  P_EnableReportsItsSeq
  P_OnlyEnableReports
  P_EnableIdempotent
  P_EnableKeepsRunningService
  P_SingleService
  P_UpdateTagLifecycle
  P_UninstallGuard
  P_UnsupportedOs
  P_RollbackOnError
  P_HealthReport
  P_RestoreBringsBackPrevious
  P_NoUpgradeLoop
  P_InstallOnlyWithBackup
  P_StatusOnlyInFolder
  P_RollbackCoversEveryInstall
POSTCONDITION Accepted
CHECK_DEADLOCK FALSE
