SPECIFICATION TSpec
CONSTANTS
  Names = {"a", "b"}
  Depth = 2
  MaxMounts = 3
  Pick = "first"
INVARIANTS P_C06_AttachScope
POSTCONDITION Accepted
CHECK_DEADLOCK FALSE
