----------------------------- MODULE StampTrace -----------------------------
(***************************************************************************)
(* C05, the clause "the date is the proxy's CURRENT time", on observed     *)
(* executions in which the machine's wall clock is stepped while the agent *)
(* runs (time synchronisation after an early start, an administrator, a    *)
(* paused and resumed VM: CLOCK_REALTIME jumps, CLOCK_MONOTONIC does not). *)
(* Events (seconds relative to the start of the run, as the HOST's clock   *)
(* -- the same machine's wall clock -- shows them):                        *)
(*  {"e":"step","secs":k}            the wall clock now runs k s off true  *)
(*  {"e":"recv","id":r,"wall":w,"sent":t|-1,"dates":n,"stamp":s,"parsed":b,"claims":n, *)
(*   "clientCopy":b,"own":b}         the host received a request at wall   *)
(*                                   time w carrying n date headers, the   *)
(*                                   first one reading s                   *)
(* The stamp must be the wall clock's reading when the request went        *)
(* through the proxy: at most 20 s before the host's receipt (slow relay on a loaded machine)   *)
(* and not after it (1 s rounding).  `offset` only documents the history:  *)
(* the bound is stated against the host's reading, whatever the steps were.*)
(***************************************************************************)
EXTENDS Integers, Sequences, TLC, Json, IOUtils

Rec == ndJsonDeserialize(IOEnv.TRACE)
VARIABLES l, offset, steps, last
tvars == <<l, offset, steps, last>>

Init == l = 1 /\ offset = 0 /\ steps = 0 /\ last = [e |-> "init"]
Next == /\ l <= Len(Rec) /\ l' = l + 1 /\ last' = Rec[l]
        /\ IF Rec[l].e = "step" THEN offset' = Rec[l].secs /\ steps' = steps + 1
           ELSE IF Rec[l].e = "reset" THEN offset' = 0 /\ steps' = 0
           ELSE UNCHANGED <<offset, steps>>
Spec == Init /\ [][Next]_tvars

IsRecv == last.e = "recv"
P_C05_OneProxyDate == IsRecv => (last.dates = 1 /\ ~last.clientCopy /\ last.parsed)
\* whatever the request method, and whatever the host said about ITS clock in earlier responses
P_C05_OneProxyClaims == (IsRecv /\ ~last.own) => last.claims = 1
\* a relayed request is stamped between the moment its client began to send it ("sent", read from the same clock) and the
\* host's receipt -- whatever the machine's load; the agent's own calls have no client: 20 s before receipt at most
P_C05_DateIsCurrent == (IsRecv /\ last.parsed) =>
                          /\ last.stamp <= last.wall + 1
                          /\ IF last.sent >= 0 THEN last.stamp >= last.sent - 1 ELSE last.stamp >= last.wall - 20
Accepted == IF TLCGet("stats").diameter - 1 = Len(Rec) THEN TRUE
            ELSE PrintT(<<"UNMATCHED", TLCGet("stats").diameter, Len(Rec)>>) /\ FALSE
=============================================================================
