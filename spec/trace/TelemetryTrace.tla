---------------------------- MODULE TelemetryTrace ----------------------------
(***************************************************************************)
(* Trace validation for C18 against the *property* (not the implementation *)
(* shape).  The rows are what the mock host and the oracle observed for    *)
(* one pass of the real EventReader over a set of event files; they set    *)
(* Telemetry's ghost variables (composed, posts, present, dropped, pc) and *)
(* C18's formulas from Telemetry.tla are evaluated in every state.  Any    *)
(* batching / retry policy satisfying C18 is accepted; one that does not   *)
(* is rejected at the first offending row.  Sizes are real bytes           *)
(* (Max = 65536, Envelope = measured length of a document without events). *)
(*                                                                         *)
(* Rows:                                                                   *)
(*  {"e":"Reset","envelope":E}                                             *)
(*  {"e":"File","f":k,"bad":b,"events":[{"id":i,"sz":bytes},...]}           *)
(*       declares file k (all File rows of a case precede its uploads)     *)
(*  {"e":"Upload","ids":[...],"bytes":n,"wf":bool,"same":bool,"ok":bool}    *)
(*       one POST: the event ids recovered from the parsed document, its   *)
(*       length, whether it parsed as the expected structure with every    *)
(*       event text intact, whether it is byte-identical to the previous   *)
(*       POST (a retry of the same document), and the host's reply         *)
(*  {"e":"Done","terminated":bool,"remaining":[k,...]}                      *)
(***************************************************************************)
EXTENDS Telemetry, Json, IOUtils

Rec == ndJsonDeserialize(IOEnv.TRACE)
TEnvelope == Rec[1].envelope

VARIABLE l
tvars == <<vars, l>>

Blank == /\ ev = <<>> /\ files = <<>> /\ fi = 1 /\ pc = "file" /\ evs = <<>> /\ batch = <<>> /\ more = FALSE
         /\ tries = 0 /\ present = {} /\ composed = <<>> /\ posts = <<>> /\ dropped = {}
TInit == Blank /\ l = 1

Row == Rec[l]

TReset == /\ l <= Len(Rec) /\ Row.e = "Reset"
          /\ ev' = <<>> /\ files' = <<>> /\ fi' = 1 /\ pc' = "file" /\ evs' = <<>> /\ batch' = <<>> /\ more' = FALSE
          /\ tries' = 0 /\ present' = {} /\ composed' = <<>> /\ posts' = <<>> /\ dropped' = {}
          /\ l' = l + 1

TFile == /\ l <= Len(Rec) /\ Row.e = "File" /\ pc = "file"
         /\ LET es == Row.events
                new == {es[i].id : i \in DOMAIN es}
            IN /\ files' = Append(files, [bad |-> Row.bad, ids |-> [i \in DOMAIN es |-> es[i].id]])
               /\ ev' = [i \in DOMAIN ev \cup new |->
                           IF i \in DOMAIN ev THEN ev[i]
                           ELSE [sz |-> es[CHOOSE k \in DOMAIN es : es[k].id = i].sz, cl |-> "observed"]]
         /\ present' = present \cup {Len(files) + 1}
         /\ UNCHANGED <<fi, pc, evs, batch, more, tries, composed, posts, dropped>>
         /\ l' = l + 1

TUpload == /\ l <= Len(Rec) /\ Row.e = "Upload" /\ pc = "file"
           /\ composed' = IF Row.same /\ composed # <<>> THEN composed
                          ELSE Append(composed, [ids |-> Row.ids, size |-> Row.bytes,
                                                 hazard |-> IF Row.wf THEN {} ELSE {"structure"}])
           /\ posts' = Append(posts, [b |-> Len(composed'), ok |-> Row.ok])
           /\ UNCHANGED <<ev, files, fi, pc, evs, batch, more, tries, present, dropped>>
           /\ l' = l + 1

TDone == /\ l <= Len(Rec) /\ Row.e = "Done" /\ pc = "file"
         /\ present' = Range(Row.remaining)
         /\ dropped' = {id \in DOMAIN ev : Oversize(id) /\ \A i \in DOMAIN composed : id \notin IdsOf(i)}
         /\ pc' = IF Row.terminated THEN "done" ELSE "stuck"
         /\ UNCHANGED <<ev, files, fi, evs, batch, more, tries, composed, posts>>
         /\ l' = l + 1

TNext == TReset \/ TFile \/ TUpload \/ TDone
TSpec == TInit /\ [][TNext]_tvars

\* C18 on the observed behaviour (formulas of Telemetry.tla)
P_AtMostOneBatch == AtMostOneBatch
P_BatchBounded == BatchBounded
P_WellFormed == WellFormed
P_KnownIds == KnownIds
P_OversizeNeverSent == \A i \in DOMAIN composed : \A id \in IdsOf(i) \cap DOMAIN ev : ~Oversize(id)
P_NotBlocked == NotBlocked
P_FilesRemoved == FilesRemoved
P_Terminates == pc # "stuck"       \* the pass ended on its own within the bound on POSTs
P_PostsBounded == PostsBounded     \* no document is retried without bound (MaxTries = what the statement's
                                   \* "always terminates" needs is *some* bound; the config uses a generous one)

TAccepted == IF TLCGet("stats").diameter - 1 = Len(Rec) THEN TRUE
             ELSE PrintT(<<"UNMATCHED", TLCGet("stats").diameter, Len(Rec)>>) /\ FALSE
=============================================================================
