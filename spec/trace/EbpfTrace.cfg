SPECIFICATION TSpec
INVARIANTS P_RedirectExactly P_RecordTruth P_NoRecordOtherwise P_AgentUntouched
POSTCONDITION Accepted
CHECK_DEADLOCK FALSE
