----------------------------- MODULE SetupTrace -----------------------------
(***************************************************************************)
(* Trace validation for C17 against the *property* (not the implementation *)
(* shape).  Each recorded row is what the real proxy_agent_setup binary left*)
(* behind after one command in the sandbox: the projected system locations,*)
(* backup, packaged files, "rest" digest, exit status and the stand-in     *)
(* systemctl's call log with the snapshot each call saw.  The post-state is*)
(* taken from the row, `pre` and the RoundTrip ghosts are advanced by      *)
(* Setup!NextRt (a function of the command names and of the observed       *)
(* locations at `backup` time only), and the statement's predicates are    *)
(* evaluated in every state.  Any tool satisfying C17 is accepted whatever *)
(* its internal step order; one that does not is rejected at the first     *)
(* offending command.                                                      *)
(* Rows: {"e":"reset", sys, bak, bdir, pkg, rest, svc}                     *)
(*       {"e":"cmd", c, res, sys, bak, bdir, pkg, rest, svc, wrote,        *)
(*        calls: [{v, s, w}]}                                              *)
(***************************************************************************)
EXTENDS Setup, Json, IOUtils

Rec == ndJsonDeserialize(IOEnv.TRACE)
VARIABLE l
tvars == <<vars, l>>

Load(r) ==
  /\ sys' = r.sys /\ bak' = r.bak /\ bdir' = r.bdir /\ pkg' = r.pkg /\ rest' = r.rest /\ svc' = r.svc

TInit ==
  /\ l = 1
  /\ sys = All(A) /\ bak = All(A) /\ bdir = FALSE /\ pkg = All(A) /\ rest = "r0" /\ svc = "stopped"
  /\ calls = << >> /\ wrote = FALSE /\ cmd = "none" /\ pc = 0 /\ res = "none"
  /\ pre = [sys |-> All(A), bak |-> All(A), bdir |-> FALSE, svc |-> "stopped", pkg |-> All(A), rest |-> "r0"]
  /\ s0 = All(A) /\ rt = 0 /\ chk = FALSE
  /\ lnk = All(FALSE)        \* not an observable of the statement: the property is judged on contents only
  /\ bakodd = FALSE          \* nor is the clock: whatever it did between two commands, the statement claims the same

Reset ==
  /\ l <= Len(Rec) /\ Rec[l].e = "reset"
  /\ Load(Rec[l])
  /\ calls' = << >> /\ wrote' = FALSE /\ cmd' = "none" /\ pc' = 0 /\ res' = "none"
  /\ pre' = [sys |-> Rec[l].sys, bak |-> Rec[l].bak, bdir |-> Rec[l].bdir, svc |-> Rec[l].svc,
             pkg |-> Rec[l].pkg, rest |-> Rec[l].rest]
  /\ s0' = All(A) /\ rt' = 0 /\ chk' = FALSE
  /\ l' = l + 1 /\ UNCHANGED <<lnk, bakodd>>

Cmd ==
  /\ l <= Len(Rec) /\ Rec[l].e = "cmd"
  /\ Load(Rec[l])
  /\ calls' = Rec[l].calls /\ wrote' = Rec[l].wrote /\ cmd' = Rec[l].c /\ pc' = 0 /\ res' = Rec[l].res
  /\ pre' = Snapshot
  /\ LET g == NextRt(Rec[l].c, sys, rt, IF rt = 0 THEN All(A) ELSE s0)
     IN rt' = g[1] /\ s0' = g[2] /\ chk' = g[3]
  /\ l' = l + 1 /\ UNCHANGED <<lnk, bakodd>>

TNext == Reset \/ Cmd
TSpec == TInit /\ [][TNext]_tvars

\* C17 on the observed behaviour (definitions in Setup.tla)
P_RoundTrip               == RoundTrip
P_StopBeforeReplace       == StopBeforeReplaceObs
P_StartedAfter            == StartedAfter
P_InstallExact            == InstallExact
P_RestoreNoBackupIsNoop   == RestoreNoBackupIsNoop
P_RestoreDeletion         == RestoreDeletion
P_UninstallPackageRemoves == UninstallPackageRemoves
P_PurgeOnlyBackup         == PurgeOnlyBackup
P_Frame                   == FrameObs

Accepted == IF TLCGet("stats").diameter - 1 = Len(Rec) THEN TRUE
            ELSE PrintT(<<"UNMATCHED", TLCGet("stats").diameter, Len(Rec)>>) /\ FALSE
=============================================================================
