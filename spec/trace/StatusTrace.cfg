SPECIFICATION TSpec
CONSTANTS
  ConnKeys = {"k1", "k2", "k3", "k4", "k5", "k6"}
  FailKeys = {"k1", "k2", "k3", "k4", "k5", "k6"}
  Msgs <- McNoMsgs
  MaxMsg = 1024
  EventAfter = 900
  ClearAfter = 86400
  MaxCount = 1000000
  MaxHttp = 1000000
  MaxTcp = 1000000
  Ticks = FALSE
  EnvStateModules <- McNone
  EnvMsgModules <- McNone
  IoFaults = FALSE
  MaxCrash = 0
  TrackInstants = FALSE
  TopN = 10
INVARIANTS P_FileNeverHalfWritten P_PublishesEveryIteration P_Shape P_OverallStatusFunction P_FieldwiseSnapshot
  P_MessageBounded P_CountsMonotone P_MonitorTruthful P_Cadence P_EventCarriesPublished P_Returns
  T_InputsAmbiguous T_InputsWindow
POSTCONDITION Accepted
CHECK_DEADLOCK FALSE
