SPECIFICATION TSpec
CONSTANTS
  Threads <- MC_Threads
  AgentPids <- MC_AgentPids
  Ips <- PM_Ips
  Ports <- PM_Ports
  Protos = {6, 17}
  TCP = 6
  Listable <- PM_Listable
  SPorts <- TR_SPorts
  Proxy <- TR_Proxy
  K = 200
  Bounded = TRUE
  AllowDirect = FALSE
  AllowAbort = FALSE
  MaxLeft = 0
INVARIANTS P_MapAsInstructed P_ConsumedAbsent
POSTCONDITION Accepted
CHECK_DEADLOCK FALSE
