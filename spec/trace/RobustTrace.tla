----------------------------- MODULE RobustTrace -----------------------------
(***************************************************************************)
(* C13 on observed executions.  Events:                                     *)
(*  {"e":"input","class":c,"id":i}   a hostile input was delivered           *)
(*  {"e":"outcome","id":i,"answered":b,"panics":n,"probeOk":b,"tasksOk":b}  *)
(*      answered: the request got an HTTP response (or the call returned),   *)
(*      panics: panic events recorded by the process-wide hook while it was  *)
(*      handled, probeOk: a follow-up plain request was served, tasksOk:     *)
(*      the background tasks still publish.                                  *)
(***************************************************************************)
EXTENDS Naturals, Sequences, TLC, Json, IOUtils
Rec == ndJsonDeserialize(IOEnv.TRACE)
VARIABLES l, o
Init == l = 1 /\ o = [e |-> "init"]
Next == l <= Len(Rec) /\ l' = l + 1 /\ o' = Rec[l]
Spec == Init /\ [][Next]_<<l, o>>
Out == o.e = "outcome"
P_C13_NoPanic == Out => o.panics = 0
P_C13_Answered == Out => o.answered
P_C13_KeepsServing == Out => (o.probeOk /\ o.tasksOk)
Accepted == IF TLCGet("stats").diameter - 1 = Len(Rec) THEN TRUE
            ELSE PrintT(<<"UNMATCHED", TLCGet("stats").diameter, Len(Rec)>>) /\ FALSE
=============================================================================
