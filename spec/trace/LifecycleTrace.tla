--------------------------- MODULE LifecycleTrace ---------------------------
(***************************************************************************)
(* Trace validation for X03_LIFECYCLE against the PROPERTIES of            *)
(* Lifecycle.tla (not against its implementation shape).  The rows are     *)
(* what was observed of the real ProxyServer::start / Redirector::start /  *)
(* KeyKeeper / service::stop_service (harness/agent/src/vdrv/lifecycle.rs  *)
(* + the bind/open log of the LD_PRELOAD shim), merged by the check into   *)
(* one sequence ordered by the CLOCK_MONOTONIC stamp each row carries:     *)
(*   a poll / probe row is stamped when the observation ENDED and carries  *)
(*   "b" = the number of rows stamped before the observation BEGAN; a      *)
(*   bind / open row is stamped when the system call returned; start /     *)
(*   stop rows are stamped before the call, ret rows after the return.     *)
(* So "X is observed => Y happened before" is decided by row order, and    *)
(* "Y happened => an observation begun later shows X" by b.                *)
(*  {"e":"reset","id":s}                          a new process            *)
(*  {"e":"start","m":module}  {"e":"ret","m":module}  {"e":"stop"}         *)
(*  {"e":"bind","r":"ok"|"inuse"|"other","gap":ms}  gap = ms between the   *)
(*       return of the previous attempt and the call of this one           *)
(*  {"e":"open"}                                  a call of start_internal *)
(*  {"e":"poll","b":n,"ps":st,"rd":st,"kk":st,"psm":c,"rdm":c,"lis":bool,  *)
(*   "red":bool,"bpf":bool}   psm: unknown|started|bindfail|other          *)
(*                            rdm: unknown|starting|failed|started|other   *)
(*  {"e":"probe","b":n,"r":"response"|"refused"|"closed"|"silent"}         *)
(*  {"e":"audit","lookup":c,"remove":c}           c: null_bpf|ok|other     *)
(*  {"e":"end","timed_out":bool}                                           *)
(* Properties (first broken one reported by name; "viol" collects them):   *)
(*  P_ListenerRunningOnlyAfterBind   ps RUNNING observed => a bind          *)
(*       returned ok before                                                *)
(*  P_ListenerFailureIsReported      start returned without an ok bind =>  *)
(*       every later observation shows STOPPED, the bind-failure message,  *)
(*       no LISTENER_READY; it made at least one attempt                   *)
(*  P_BindAttemptsBounded            <= RetryCount + 1 attempts            *)
(*  P_RetrySleepRespected            >= MinGapMs between an AddrInUse and  *)
(*       the next attempt                                                  *)
(*  P_OtherErrorFailsAtOnce          no attempt after "other" or "ok"      *)
(*  P_GivesUpOnlyAfterAllRetries     returned without ok, only AddrInUse   *)
(*       seen => exactly RetryCount + 1 attempts                           *)
(*  P_ProvisionFlagOnlyAfterRunning  LISTENER_READY observed => an ok bind *)
(*       before and the state read after it is not UNKNOWN; same for       *)
(*       REDIRECTOR_READY                                                  *)
(*  P_BindSucceedsLeadsToRunning     (at the end row) an ok bind => the    *)
(*       start message and LISTENER_READY are there                        *)
(*  P_RedirectorRetriesBounded       <= MaxRetries calls, none after       *)
(*       start returned                                                    *)
(*  P_RedirectorFailureIsReported    start returned and REDIRECTOR_READY   *)
(*       never seen => exactly MaxRetries calls were made; every later     *)
(*       observation shows the failure message naming an error, no bpf     *)
(*       object, state never RUNNING                                       *)
(*  P_NoRunningAfterStopped          ProxyServer / KeyKeeper: no RUNNING   *)
(*       (and no UNKNOWN) observed after STOPPED was observed              *)
(*  P_NoAcceptAfterCancelProcessed   a client that began after STOPPED was *)
(*       observed gets no response; one that began after start returned is *)
(*       refused                                                           *)
(*  P_ListenerServesWhileRunning     a client that began after RUNNING +   *)
(*       LISTENER_READY were observed and ended before stop_service gets a *)
(*       response                                                          *)
(*  P_StopStopsEverything            (at the end row, stop called) every   *)
(*       started task has returned; ProxyServer and KeyKeeper show         *)
(*       STOPPED; Redirector shows STOPPED and no bpf object if its start  *)
(*       had returned before the stop, else STOPPED or (the stated race)   *)
(*       RUNNING; nothing timed out                                        *)
(*  P_NullBpfAfterStop               no bpf object ever observed =>        *)
(*       lookup_audit / remove_audit answer NullBpfObject                  *)
(* T_Inputs: the harness's own promises about its rows.                    *)
(***************************************************************************)
EXTENDS Lifecycle, Json, IOUtils

CONSTANT MinGapMs
Rec == ndJsonDeserialize(IOEnv.TRACE)

VARIABLES l, binds, nopen, started, retAt, stopAt, stopSeenAt, runSeenAt, seenStopped, seenRd, seenRed, seenBpf, lastPoll, viol
tvars == <<vars, l, binds, nopen, started, retAt, stopAt, stopSeenAt, runSeenAt, seenStopped, seenRd, seenRed, seenBpf, lastPoll, viol>>

NoPoll == [ps |-> "UNKNOWN", rd |-> "UNKNOWN", kk |-> "UNKNOWN", psm |-> "unknown", rdm |-> "unknown",
           lis |-> FALSE, red |-> FALSE, bpf |-> FALSE]
Fresh ==
  /\ binds' = <<>> /\ nopen' = 0 /\ started' = {} /\ retAt' = [m \in Modules |-> 0] /\ stopAt' = 0
  /\ stopSeenAt' = 0 /\ runSeenAt' = 0 /\ seenStopped' = {} /\ seenRd' = {} /\ seenRed' = FALSE /\ seenBpf' = FALSE
  /\ lastPoll' = NoPoll

TInit ==
  /\ Init /\ l = 1
  /\ binds = <<>> /\ nopen = 0 /\ started = {} /\ retAt = [m \in Modules |-> 0] /\ stopAt = 0
  /\ stopSeenAt = 0 /\ runSeenAt = 0 /\ seenStopped = {} /\ seenRd = {} /\ seenRed = FALSE /\ seenBpf = FALSE
  /\ lastPoll = NoPoll /\ viol = {}

Row == Rec[l]
Adv == l' = l + 1
NOk == Cardinality({i \in DOMAIN binds : binds[i] = "ok"})
OnlyInUse == \A i \in DOMAIN binds : binds[i] = "inuse"
If(c, s) == IF c THEN s ELSE {}

Reset == /\ Row.e = "reset" /\ Fresh /\ Adv /\ UNCHANGED viol

StartRow ==
  /\ Row.e = "start"
  /\ started' = started \cup {Row.m}
  /\ viol' = viol \cup If(Row.m \notin Modules \/ Row.m \in started, {"Inputs"})
  /\ Adv /\ UNCHANGED <<binds, nopen, retAt, stopAt, stopSeenAt, runSeenAt, seenStopped, seenRd, seenRed, seenBpf, lastPoll>>

StopRow ==
  /\ Row.e = "stop"
  /\ stopAt' = l
  /\ viol' = viol \cup If(stopAt # 0, {"Inputs"})
  /\ Adv /\ UNCHANGED <<binds, nopen, started, retAt, stopSeenAt, runSeenAt, seenStopped, seenRd, seenRed, seenBpf, lastPoll>>

RetRow ==
  /\ Row.e = "ret"
  /\ retAt' = [retAt EXCEPT ![Row.m] = l]
  /\ viol' = viol
       \cup If(Row.m \notin started \/ retAt[Row.m] # 0, {"Inputs"})
       \cup If(Row.m = "ProxyServer" /\ NOk = 0 /\ binds = <<>>, {"ListenerFailureIsReported"})
       \cup If(Row.m = "ProxyServer" /\ NOk = 0 /\ binds # <<>> /\ OnlyInUse /\ Len(binds) # RetryCount + 1,
               {"GivesUpOnlyAfterAllRetries"})
  /\ Adv /\ UNCHANGED <<binds, nopen, started, stopAt, stopSeenAt, runSeenAt, seenStopped, seenRd, seenRed, seenBpf, lastPoll>>

BindRow ==
  /\ Row.e = "bind"
  /\ binds' = Append(binds, Row.r)
  /\ LET prev == IF binds = <<>> THEN "none" ELSE binds[Len(binds)] IN
     viol' = viol
       \cup If("ProxyServer" \notin started \/ Row.r \notin {"ok", "inuse", "other"}, {"Inputs"})
       \cup If(Len(binds) + 1 > RetryCount + 1, {"BindAttemptsBounded"})
       \cup If(prev = "inuse" /\ Row.gap < MinGapMs, {"RetrySleepRespected"})
       \cup If(prev \in {"other", "ok"} \/ retAt["ProxyServer"] # 0, {"OtherErrorFailsAtOnce"})
  /\ Adv /\ UNCHANGED <<nopen, started, retAt, stopAt, stopSeenAt, runSeenAt, seenStopped, seenRd, seenRed, seenBpf, lastPoll>>

OpenRow ==
  /\ Row.e = "open"
  /\ nopen' = nopen + 1
  /\ viol' = viol \cup If("Redirector" \notin started, {"Inputs"})
                  \cup If(nopen + 1 > MaxRetries \/ retAt["Redirector"] # 0, {"RedirectorRetriesBounded"})
  /\ Adv /\ UNCHANGED <<binds, started, retAt, stopAt, stopSeenAt, runSeenAt, seenStopped, seenRd, seenRed, seenBpf, lastPoll>>

After(at, b) == at # 0 /\ b >= at      \* the observation began after row `at` was stamped
PollRow ==
  /\ Row.e = "poll"
  /\ LET p == Row
         st == [m \in Modules |-> CASE m = "ProxyServer" -> p.ps [] m = "Redirector" -> p.rd [] OTHER -> p.kk]
         psFailed == After(retAt["ProxyServer"], p.b) /\ NOk = 0
         rdFailed == After(retAt["Redirector"], p.b) /\ ~seenRed /\ ~p.red
     IN
     /\ viol' = viol
          \cup If(p.b < 0 \/ p.b >= l \/ \E m \in Modules : st[m] \notin States, {"Inputs"})
          \cup If(p.ps = "RUNNING" /\ NOk = 0, {"ListenerRunningOnlyAfterBind"})
          \cup If(p.lis /\ (NOk = 0 \/ p.ps = "UNKNOWN"), {"ProvisionFlagOnlyAfterRunning"})
          \cup If(p.red /\ p.rd = "UNKNOWN", {"ProvisionFlagOnlyAfterRunning"})
          \cup If(psFailed /\ ~(p.ps = "STOPPED" /\ p.psm = "bindfail" /\ ~p.lis), {"ListenerFailureIsReported"})
          \cup If(rdFailed /\ ~(p.rdm = "failed" /\ ~p.bpf /\ p.rd # "RUNNING" /\ "RUNNING" \notin seenRd),
                  {"RedirectorFailureIsReported"})
          \cup If(\E m \in {"ProxyServer", "KeyKeeper"} : m \in seenStopped /\ st[m] # "STOPPED", {"NoRunningAfterStopped"})
          \cup If(\E m \in Modules : m \notin started /\ m # "Redirector" /\ st[m] # "UNKNOWN", {"Inputs"})
     /\ seenStopped' = seenStopped \cup {m \in Modules : st[m] = "STOPPED"}
     /\ seenRd' = seenRd \cup {p.rd}
     /\ seenRed' = (seenRed \/ p.red) /\ seenBpf' = (seenBpf \/ p.bpf)
     /\ stopSeenAt' = IF stopSeenAt = 0 /\ p.ps = "STOPPED" THEN l ELSE stopSeenAt
     /\ runSeenAt' = IF runSeenAt = 0 /\ p.ps = "RUNNING" /\ p.lis THEN l ELSE runSeenAt
     /\ lastPoll' = [ps |-> p.ps, rd |-> p.rd, kk |-> p.kk, psm |-> p.psm, rdm |-> p.rdm, lis |-> p.lis, red |-> p.red,
                     bpf |-> p.bpf]
  /\ Adv /\ UNCHANGED <<binds, nopen, started, retAt, stopAt>>

ProbeRow ==
  /\ Row.e = "probe"
  /\ viol' = viol
       \cup If(Row.b < 0 \/ Row.b >= l \/ Row.r \notin {"response", "refused", "closed", "silent"}, {"Inputs"})
       \cup If(After(stopSeenAt, Row.b) /\ Row.r = "response", {"NoAcceptAfterCancelProcessed"})
       \cup If(After(retAt["ProxyServer"], Row.b) /\ Row.r # "refused", {"NoAcceptAfterCancelProcessed"})
       \cup If(After(runSeenAt, Row.b) /\ stopAt = 0 /\ Row.r # "response", {"ListenerServesWhileRunning"})
  /\ Adv /\ UNCHANGED <<binds, nopen, started, retAt, stopAt, stopSeenAt, runSeenAt, seenStopped, seenRd, seenRed, seenBpf, lastPoll>>

AuditRow ==
  /\ Row.e = "audit"
  /\ viol' = viol \cup If(~seenBpf /\ ~(Row.lookup = "null_bpf" /\ Row.remove = "null_bpf"), {"NullBpfAfterStop"})
  /\ Adv /\ UNCHANGED <<binds, nopen, started, retAt, stopAt, stopSeenAt, runSeenAt, seenStopped, seenRd, seenRed, seenBpf, lastPoll>>

EndRow ==
  /\ Row.e = "end"
  /\ LET p == lastPoll
         stopOK ==
           /\ ~Row.timed_out
           /\ \A m \in started : retAt[m] # 0
           /\ "ProxyServer" \in started => p.ps = "STOPPED"
           /\ "KeyKeeper" \in started => p.kk = "STOPPED"
           /\ IF (retAt["Redirector"] # 0 /\ retAt["Redirector"] < stopAt) \/ "Redirector" \notin started
                THEN p.rd = "STOPPED" /\ ~p.bpf
                ELSE p.rd \in {"STOPPED", "RUNNING"}
     IN viol' = viol
          \cup If(stopAt # 0 /\ ~stopOK, {"StopStopsEverything"})
          \cup If(NOk > 0 /\ ~(p.psm = "started" /\ p.lis /\ p.ps # "UNKNOWN"), {"BindSucceedsLeadsToRunning"})
          \cup If(retAt["Redirector"] # 0 /\ ~seenRed /\ nopen # MaxRetries, {"RedirectorFailureIsReported"})
  /\ Adv /\ UNCHANGED <<binds, nopen, started, retAt, stopAt, stopSeenAt, runSeenAt, seenStopped, seenRd, seenRed, seenBpf, lastPoll>>

Known == {"reset", "start", "stop", "ret", "bind", "open", "poll", "probe", "audit", "end"}
Other ==
  /\ Row.e \notin Known /\ viol' = viol \cup {"Inputs"} /\ Adv
  /\ UNCHANGED <<binds, nopen, started, retAt, stopAt, stopSeenAt, runSeenAt, seenStopped, seenRd, seenRed, seenBpf, lastPoll>>

TNext == l <= Len(Rec) /\ (Reset \/ StartRow \/ StopRow \/ RetRow \/ BindRow \/ OpenRow \/ PollRow \/ ProbeRow \/ AuditRow
                           \/ EndRow \/ Other) /\ UNCHANGED vars
TSpec == TInit /\ [][TNext]_tvars

P_ListenerRunningOnlyAfterBind  == "ListenerRunningOnlyAfterBind" \notin viol
P_ListenerFailureIsReported     == "ListenerFailureIsReported" \notin viol
P_BindAttemptsBounded           == "BindAttemptsBounded" \notin viol
P_RetrySleepRespected           == "RetrySleepRespected" \notin viol
P_OtherErrorFailsAtOnce         == "OtherErrorFailsAtOnce" \notin viol
P_GivesUpOnlyAfterAllRetries    == "GivesUpOnlyAfterAllRetries" \notin viol
P_ProvisionFlagOnlyAfterRunning == "ProvisionFlagOnlyAfterRunning" \notin viol
P_BindSucceedsLeadsToRunning    == "BindSucceedsLeadsToRunning" \notin viol
P_RedirectorRetriesBounded      == "RedirectorRetriesBounded" \notin viol
P_RedirectorFailureIsReported   == "RedirectorFailureIsReported" \notin viol
P_NoRunningAfterStopped         == "NoRunningAfterStopped" \notin viol
P_NoAcceptAfterCancelProcessed  == "NoAcceptAfterCancelProcessed" \notin viol
P_ListenerServesWhileRunning    == "ListenerServesWhileRunning" \notin viol
P_StopStopsEverything           == "StopStopsEverything" \notin viol
P_NullBpfAfterStop              == "NullBpfAfterStop" \notin viol
T_Inputs                        == "Inputs" \notin viol

Accepted == IF TLCGet("stats").diameter - 1 = Len(Rec) THEN TRUE
            ELSE PrintT(<<"UNMATCHED", TLCGet("stats").diameter, Len(Rec)>>) /\ FALSE
=============================================================================
