--------------------------- MODULE HealthRateTrace ---------------------------
(* Trace validation of the notification rate limiter against C20's statement.
   Events: {"e":"reset"} | {"e":"notify","k":key,"v":value,"emit":true|false} *)
EXTENDS HealthRate, Json, IOUtils, Sequences

Rec == ndJsonDeserialize(IOEnv.TRACE)
VARIABLE l, bad
tvars == <<vars, l, bad>>

TInit == Init /\ l = 1 /\ bad = "none"

Reset == /\ l <= Len(Rec) /\ Rec[l].e = "reset"
         /\ entry' = [k \in Key |-> [v |-> "none", n |-> 0]]
         /\ emitted' = FALSE /\ gSince' = [k \in Key |-> 0] /\ gVal' = [k \in Key |-> "none"]
         /\ lastKey' = "none" /\ l' = l + 1 /\ UNCHANGED bad

Obs == /\ l <= Len(Rec) /\ Rec[l].e = "notify"
       /\ LET k == Rec[l].k  v == Rec[l].v  em == Rec[l].emit IN
          /\ GhostNotify(k, v, em)
          /\ bad' = IF gVal[k] # v /\ ~em THEN "EmitOnChange"
                    ELSE IF gVal[k] = v /\ em /\ gSince[k] < RateMax THEN "AtMostOncePerMax"
                    ELSE bad
       /\ UNCHANGED entry
       /\ l' = l + 1

TNext == Reset \/ Obs
TSpec == TInit /\ [][TNext]_tvars

P_EmitOnChange == bad # "EmitOnChange"
P_AtMostOncePerMax == bad # "AtMostOncePerMax"

Accepted == IF TLCGet("stats").diameter - 1 = Len(Rec) THEN TRUE
            ELSE PrintT(<<"UNMATCHED", TLCGet("stats").diameter, Len(Rec)>>) /\ FALSE
=============================================================================
