-------------------------- MODULE KeyKeeperTraceFs --------------------------
(***************************************************************************)
(* Trace validation for C08 against the *statement*, over the system calls *)
(* of real agent processes (strace logs translated by checks/kklib.py) and *)
(* the state of the real key directory and of the scripted host's latch    *)
(* when a process ended -- killed before its N-th file-system/socket call  *)
(* or not.  One case = one kill point: a first process (killed or not) and *)
(* a fresh process restarted on the same directory and host.               *)
(* Rows: {"e":"case","id"} {"e":"spawn"} {"e":"end"}                        *)
(*  {"e":"fs","op":create_tmp|write_tmp|close_tmp|rename|create_final|     *)
(*              open_final|read_final, "g"}     calls on <keys>/<guid>.*    *)
(*  {"e":"net","op":status|acquire|attest|signed,"g"}  requests sent        *)
(*  {"e":"exit","killed","restart","final","tmp","latched","damaged",       *)
(*   "latched0","good0","acquires","signedGuid","signedOk"}                 *)
(* Clauses (names printed in <<"VERDICT", json>> when a case ends):         *)
(*  AttestOnlyAfterStoreAndReadBack, TmpThenRename (a final name is only    *)
(*  ever produced by renaming a written and closed temporary file),         *)
(*  LatchedIsRecoverable, NoCorruptFinalName (C08_*On of KeyKeeper.tla on   *)
(*  the real directory), RestartUsesLocal (a restarted process whose host   *)
(*  latch has a good local file asks for no new key and signs with it),     *)
(*  RestartAuthenticates (a restarted process that ran to its end had a     *)
(*  signed request accepted under the key the host then regards as latched).*)
(***************************************************************************)
EXTENDS KeyKeeper, Json, IOUtils
FModeOf(r) == "audit"

Rec == ndJsonDeserialize(IOEnv.TRACE)
VARIABLES l, st, viol, caseid, nev
tvars == <<vars, l, st, viol, caseid, nev>>

SetOf(seq) == {seq[k] : k \in 1..Len(seq)}
Fresh == [g \in Guids |-> "none"]
Known(g) == g \in Guids

FsStep(op, g) ==
  CASE op = "create_tmp" -> [st EXCEPT ![g] = "tmp_open"]
    [] op = "write_tmp"  -> [st EXCEPT ![g] = IF @ \in {"tmp_open", "tmp_written"} THEN "tmp_written" ELSE @]
    [] op = "close_tmp"  -> [st EXCEPT ![g] = IF @ = "tmp_written" THEN "tmp_closed" ELSE @]
    [] op = "rename"     -> [st EXCEPT ![g] = "stored"]
    [] op = "open_final" -> [st EXCEPT ![g] = IF @ = "stored" THEN "reading" ELSE @]
    [] op = "read_final" -> [st EXCEPT ![g] = IF @ = "reading" THEN "readback" ELSE @]
    [] OTHER -> st
FsBad(op, g) ==
  (IF op = "create_final" \/ (op = "rename" /\ st[g] # "tmp_closed") THEN {"TmpThenRename"} ELSE {})

ExitBad(r) ==
  LET f == [final |-> r.final]
      dmg == SetOf(r.damaged) IN
  (IF ~C08_LatchedIsRecoverableOn(f, r.latched, dmg) THEN {"LatchedIsRecoverable"} ELSE {})
  \cup (IF ~C08_NoCorruptFinalNameOn(f, dmg) THEN {"NoCorruptFinalName"} ELSE {})
  \cup (IF r.restart /\ r.latched0 # "none" /\ r.good0
           /\ ~(r.acquires = 0 /\ r.signedOk /\ r.signedGuid = r.latched0) THEN {"RestartUsesLocal"} ELSE {})
  \cup (IF r.restart /\ ~r.killed /\ ~(r.signedOk /\ r.latched # "none" /\ r.signedGuid = r.latched)
        THEN {"RestartAuthenticates"} ELSE {})

TInit ==
  /\ host = 0 /\ fs = 0 /\ pc = "-" /\ loc = 0 /\ mem = 0 /\ policy = 0 /\ act = 0 /\ gh = 0
  /\ l = 1 /\ st = Fresh /\ viol = {} /\ caseid = 0 /\ nev = 0

Row == Rec[l]
Same == UNCHANGED vars
TCase  == /\ Row.e = "case" /\ caseid' = Row.id /\ viol' = {} /\ st' = Fresh /\ nev' = 0 /\ Same
TSpawn == /\ Row.e = "spawn" /\ st' = Fresh /\ UNCHANGED <<viol, caseid, nev>> /\ Same
TFs    == /\ Row.e = "fs"
          /\ IF Known(Row.g) THEN st' = FsStep(Row.op, Row.g) /\ viol' = viol \cup FsBad(Row.op, Row.g)
                             ELSE UNCHANGED <<st, viol>>
          /\ nev' = nev + 1 /\ UNCHANGED caseid /\ Same
TNet   == /\ Row.e = "net"
          /\ viol' = viol \cup (IF Row.op = "attest" /\ ~(Known(Row.g) /\ st[Row.g] = "readback")
                                THEN {"AttestOnlyAfterStoreAndReadBack"} ELSE {})
          /\ nev' = nev + 1 /\ UNCHANGED <<st, caseid>> /\ Same
TExit  == /\ Row.e = "exit" /\ viol' = viol \cup ExitBad(Row) /\ UNCHANGED <<st, caseid, nev>> /\ Same
TEnd   == /\ Row.e = "end"
          /\ PrintT(<<"VERDICT", ToJson([case |-> caseid, viol |-> viol, events |-> nev])>>)
          /\ UNCHANGED <<st, viol, caseid, nev>> /\ Same

TNext == l <= Len(Rec) /\ l' = l + 1 /\ (TCase \/ TSpawn \/ TFs \/ TNet \/ TExit \/ TEnd)
TSpec == TInit /\ [][TNext]_tvars

Accepted == IF TLCGet("stats").diameter - 1 = Len(Rec) THEN TRUE
            ELSE PrintT(<<"UNMATCHED", TLCGet("stats").diameter, Len(Rec)>>) /\ FALSE
=============================================================================
