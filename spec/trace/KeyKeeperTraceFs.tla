-------------------------- MODULE KeyKeeperTraceFs --------------------------
(***************************************************************************)
(* Trace validation for C08 against the *statement*, over the system calls *)
(* of real agent processes (strace logs translated by checks/kklib.py) and *)
(* the state of the real key directory and of the scripted host's latch    *)
(* when a process ended -- killed before its N-th file-system/socket call  *)
(* or not.  One case = one kill point: a first process (killed or not) and *)
(* a fresh process restarted on the same directory and host.               *)
(* Rows: {"e":"case","id","final0","latched0","damaged"} {"e":"spawn"}      *)
(*  {"e":"end"}  {"e":"host","op":"unlatch"} (the host drops its latch)     *)
(*  {"e":"fs","op":create_tmp|write_tmp|close_tmp|rename|create_final|     *)
(*     open_final|read_final|unlink_final, "g"}  calls on <keys>/<guid>.*   *)
(*  {"e":"net","op":status|acquire|attest|signed,"g","latches","file"}     *)
(*     file: state of <keys>/<g>.key as the HOST read it at the instant the *)
(*     attestation request arrived (key|none|corrupt; unknown otherwise);   *)
(*     requests sent; latches: the host committed the latch on that attestation      *)
(*     (its own record), whatever it then answered                          *)
(*  {"e":"exit","killed","restart","final","tmp","latched","damaged",       *)
(*   "latched0","good0","acquires","signedGuid","signedOk"}                 *)
(* Clauses (names printed in <<"VERDICT", json>> when a case ends):         *)
(*  AttestOnlyAfterStoreAndReadBack, AttestedKeyOnDisk (a complete file     *)
(*  equal to the issued key exists when the host receives the attestation), *)
(*  TmpThenRename (a final name is only ever                                *)
(*  produced by renaming a written and closed temporary file),         *)
(*  UsesLocalLatchedKey (no key request while the key the host has latched   *)
(*  and named to this process lies complete in the store),                  *)
(*  LatchedIsRecoverable, NoCorruptFinalName (C08_*On of KeyKeeper.tla on   *)
(*  the real directory when a process ends; LatchedIsRecoverable also after *)
(*  every system call, on the final names as the calls leave them and the   *)
(*  host's record of its latch), RestartUsesLocal (a restarted process whose host   *)
(*  latch has a good local file asks for no new key and signs with it),     *)
(*  RestartAuthenticates (a restarted process that ran to its end had a     *)
(*  signed request accepted under the key the host then regards as latched).*)
(***************************************************************************)
EXTENDS KeyKeeper, Json, IOUtils
ZeroInc(g) == 0
FModeOf(r) == "audit"

Rec == ndJsonDeserialize(IOEnv.TRACE)
VARIABLES l, st, viol, caseid, nev,
          ff,    \* the final names as the system calls leave them (rename / unlink / create), from the directory at the start
          lat,   \* the key the host regards as attested (the host's own record of each attestation request it served)
          dmg,   \* keys whose file was damaged from outside before the case started
          told   \* this process has sent a status request since the host's latch last changed (it has been told)
tvars == <<vars, l, st, viol, caseid, nev, ff, lat, dmg, told>>

SetOf(seq) == {seq[k] : k \in 1..Len(seq)}
Fresh == [g \in Guids |-> "none"]
Known(g) == g \in Guids

FsStep(op, g) ==
  CASE op = "create_tmp" -> [st EXCEPT ![g] = "tmp_open"]
    [] op = "write_tmp"  -> [st EXCEPT ![g] = IF @ \in {"tmp_open", "tmp_written"} THEN "tmp_written" ELSE @]
    [] op = "close_tmp"  -> [st EXCEPT ![g] = IF @ = "tmp_written" THEN "tmp_closed" ELSE @]
    [] op = "rename"     -> [st EXCEPT ![g] = "stored"]
    [] op = "open_final" -> [st EXCEPT ![g] = IF @ = "stored" THEN "reading" ELSE @]
    [] op = "read_final" -> [st EXCEPT ![g] = IF @ = "reading" THEN "readback" ELSE @]
    [] OTHER -> st
FfStep(op, g) ==
  CASE op = "rename"       -> [ff EXCEPT ![g] = "key"]
    [] op = "unlink_final" -> [ff EXCEPT ![g] = "none"]
    [] op = "create_final" -> [ff EXCEPT ![g] = "partial"]
    [] OTHER -> ff
\* the clause at every instant between two system calls, not only when a process ends
NowBad(f, la, d) == IF ~C08_LatchedIsRecoverableOn([final |-> f], la, d) THEN {"LatchedIsRecoverable"} ELSE {}
FsBad(op, g) ==
  (IF \/ op = "create_final" \/ op = "write_final"
      \/ (op = "rename" /\ st[g] # "tmp_closed")
      \/ (op = "write_tmp" /\ st[g] \in {"stored", "reading", "readback"})    \* written after it got its final name
   THEN {"TmpThenRename"} ELSE {})

ExitBad(r) ==
  LET f == [final |-> r.final]
      dm == SetOf(r.damaged) IN
  (IF ~C08_LatchedIsRecoverableOn(f, r.latched, dm) THEN {"LatchedIsRecoverable"} ELSE {})
  \cup (IF ~C08_NoCorruptFinalNameOn(f, dm) THEN {"NoCorruptFinalName"} ELSE {})
  \cup (IF r.restart /\ r.latched0 # "none" /\ r.good0
           /\ ~(r.acquires = 0 /\ r.signedOk /\ r.signedGuid = r.latched0) THEN {"RestartUsesLocal"} ELSE {})
  \cup (IF r.restart /\ ~r.killed /\ ~(r.signedOk /\ r.latched # "none" /\ r.signedGuid = r.latched)
        THEN {"RestartAuthenticates"} ELSE {})

TInit ==
  /\ host = 0 /\ fs = 0 /\ pc = "-" /\ loc = 0 /\ mem = 0 /\ policy = 0 /\ act = 0 /\ gh = 0
  /\ l = 1 /\ st = Fresh /\ viol = {} /\ caseid = 0 /\ nev = 0 /\ ff = Fresh /\ lat = "none" /\ dmg = {} /\ told = FALSE

Row == Rec[l]
Same == UNCHANGED vars
TCase  == /\ Row.e = "case" /\ caseid' = Row.id /\ viol' = {} /\ st' = Fresh /\ nev' = 0
          /\ ff' = [g \in Guids |-> Row.final0[g]] /\ lat' = Row.latched0 /\ dmg' = SetOf(Row.damaged) /\ told' = FALSE /\ Same
TSpawn == /\ Row.e = "spawn" /\ st' = Fresh /\ told' = FALSE /\ UNCHANGED <<viol, caseid, nev, ff, lat, dmg>> /\ Same
\* the host drops its latch on its own (rotation) while the process runs
THost  == /\ Row.e = "host" /\ lat' = "none" /\ told' = FALSE /\ UNCHANGED <<st, viol, caseid, nev, ff, dmg>> /\ Same
TFs    == /\ Row.e = "fs"
          /\ IF Known(Row.g)
             THEN /\ st' = FsStep(Row.op, Row.g) /\ ff' = FfStep(Row.op, Row.g)
                  /\ dmg' = IF Row.op = "rename" THEN dmg \ {Row.g} ELSE dmg
                  /\ viol' = viol \cup FsBad(Row.op, Row.g) \cup NowBad(ff', lat, dmg')
             ELSE UNCHANGED <<st, viol, ff, dmg>>
          /\ nev' = nev + 1 /\ UNCHANGED <<caseid, lat, told>> /\ Same
TNet   == /\ Row.e = "net"
          /\ lat' = IF Row.op = "attest" /\ Row.latches THEN Row.g ELSE lat
          /\ viol' = viol \cup (IF Row.op = "attest" /\ ~(Known(Row.g) /\ st[Row.g] = "readback")
                                THEN {"AttestOnlyAfterStoreAndReadBack"} ELSE {})
                           \* what the host itself saw in the key directory when the attestation request reached it
                           \cup (IF Row.op = "attest" /\ Row.file \in {"none", "corrupt"}
                                THEN {"AttestedKeyOnDisk"} ELSE {})
                           \cup NowBad(ff, lat', dmg)
                           \* a key the host has latched and named to this process, complete in its store, is used:
                           \* no new key is requested (at a restart and while running alike)
                           \cup (IF Row.op = "acquire" /\ told /\ lat # "none" /\ lat \notin dmg /\ Known(lat) /\ ff[lat] = "key"
                                THEN {"UsesLocalLatchedKey"} ELSE {})
          /\ told' = CASE Row.op = "attest" /\ Row.latches -> FALSE
                        [] Row.op = "status" -> TRUE
                        [] OTHER -> told
          /\ nev' = nev + 1 /\ UNCHANGED <<st, caseid, ff, dmg>> /\ Same
TExit  == /\ Row.e = "exit" /\ viol' = viol \cup ExitBad(Row) /\ UNCHANGED <<st, caseid, nev, ff, lat, dmg, told>> /\ Same
TEnd   == /\ Row.e = "end"
          /\ PrintT(<<"VERDICT", ToJson([case |-> caseid, viol |-> viol, events |-> nev])>>)
          /\ UNCHANGED <<st, viol, caseid, nev, ff, lat, dmg, told>> /\ Same

TNext == l <= Len(Rec) /\ l' = l + 1 /\ (TCase \/ TSpawn \/ THost \/ TFs \/ TNet \/ TExit \/ TEnd)
TSpec == TInit /\ [][TNext]_tvars

Accepted == IF TLCGet("stats").diameter - 1 = Len(Rec) THEN TRUE
            ELSE PrintT(<<"UNMATCHED", TLCGet("stats").diameter, Len(Rec)>>) /\ FALSE
=============================================================================
