----------------------------- MODULE LimitTrace -----------------------------
(***************************************************************************)
(* C15 on uploads observed one by one, whatever the history of their       *)
(* connection (a kept-alive connection of any age, earlier requests        *)
(* answered on it, the body arriving late):                                *)
(*  {"e":"upload","id":r,"len":n,"limit":m,"framing":"cl"|"chunked",       *)
(*   "answered":b,"status":s,"relayed":b,"hostBytes":k,"bodyIntact":b,     *)
(*   "age":seconds the connection had been open when the body ended}       *)
(* over the limit  -> a 4xx answer and no part of the body at the host;    *)
(* within the limit -> accepted and relayed intact.                        *)
(***************************************************************************)
EXTENDS Naturals, Sequences, TLC, Json, IOUtils

Rec == ndJsonDeserialize(IOEnv.TRACE)
VARIABLES l, last, oldest
tvars == <<l, last, oldest>>
Init == l = 1 /\ last = [e |-> "init"] /\ oldest = 0
Next == /\ l <= Len(Rec) /\ l' = l + 1 /\ last' = Rec[l]
        /\ oldest' = IF Rec[l].e = "upload" /\ Rec[l].age > oldest THEN Rec[l].age ELSE oldest
Spec == Init /\ [][Next]_tvars

IsUp == last.e = "upload"
P_C15_OverRefused == (IsUp /\ last.len > last.limit) =>
                        (last.answered /\ last.status >= 400 /\ last.status <= 499 /\ ~last.relayed /\ last.hostBytes = 0)
P_C15_WithinRelayed == (IsUp /\ last.len <= last.limit) => (last.relayed /\ last.bodyIntact)
Accepted == IF TLCGet("stats").diameter - 1 = Len(Rec) THEN TRUE
            ELSE PrintT(<<"UNMATCHED", TLCGet("stats").diameter, Len(Rec)>>) /\ FALSE
=============================================================================
