SPECIFICATION TSpec
CONSTANTS
  Key = {"k1", "k2"}
  Val = {"a", "b"}
  RateMax = 120
INVARIANTS P_EmitOnChange P_AtMostOncePerMax
POSTCONDITION Accepted
CHECK_DEADLOCK FALSE
