----------------------------- MODULE RelayTrace -----------------------------
(***************************************************************************)
(* C14 on observed executions.  One event per exchange, in the order the    *)
(* client READ the responses on each connection:                            *)
(*  {"e":"xchg","conn":c,"k":n, "req":id (the n-th request written on c),   *)
(*   "respFor":id (the request whose response arrived n-th, from the token  *)
(*   in the body), "hostConnOf": c' (client connection whose upstream       *)
(*   received it), "hostSeq":m (position at the host on that upstream),     *)
(*   facts about the bytes (computed by comparing raw captures):            *)
(*   reqLine, reqBody, reqHeaders (every non-owned client header arrived     *)
(*   unchanged, same multiplicity and per-name order), reqExtraOnlyOwned,   *)
(*   status, respHeaders, marker (exactly the marker header added),         *)
(*   respBody}                                                              *)
(***************************************************************************)
EXTENDS Naturals, Sequences, TLC, Json, IOUtils

Rec == ndJsonDeserialize(IOEnv.TRACE)
VARIABLES l, o
Init == l = 1 /\ o = [e |-> "init"]
Next == l <= Len(Rec) /\ l' = l + 1 /\ o' = Rec[l]
Spec == Init /\ [][Next]_<<l, o>>
X == o.e = "xchg"

P_C14_ReqFaithful == X => (o.reqLine /\ o.reqBody /\ o.reqHeaders /\ o.reqExtraOnlyOwned)
P_C14_RespFaithful == X => (o.status /\ o.respHeaders /\ o.marker /\ o.respBody)
P_C14_Order == X => (o.respFor = o.req /\ o.hostConnOf = o.conn /\ o.hostSeq = o.k)
\* a host that drops the connection after reading a request: the request reaches the host exactly once (no silent
\* re-delivery) and the client is told (5xx or a closed connection), never shown another request's answer
P_C14_NoDuplicateOnHostFault == (o.e = "xfault") => (o.hostCount <= 1 /\ (o.clientStatus >= 500 \/ o.clientStatus = 0))
\* an upload the client abandoned in the middle of a chunk is not relayed as if it were complete
P_C14_AbandonedNotRelayed == (o.e = "xabort") => ~o.hostComplete
\* after the host announced `Connection: close` and closed, a further request on the same client connection is either not
\* answered at all (the proxy closed that connection too) or answered by the host: {"e":"xafter","gotResponse":b,"fromHost":b}
P_C14_AfterHostClose == (o.e = "xafter") => (o.gotResponse => o.fromHost)
Accepted == IF TLCGet("stats").diameter - 1 = Len(Rec) THEN TRUE
            ELSE PrintT(<<"UNMATCHED", TLCGet("stats").diameter, Len(Rec)>>) /\ FALSE
=============================================================================
