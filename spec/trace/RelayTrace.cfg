SPECIFICATION Spec
INVARIANTS P_C14_ReqFaithful P_C14_RespFaithful P_C14_Order P_C14_NoDuplicateOnHostFault P_C14_AbandonedNotRelayed P_C14_AfterHostClose
POSTCONDITION Accepted
CHECK_DEADLOCK FALSE
