SPECIFICATION Spec
INVARIANTS P_C14_ReqFaithful P_C14_RespFaithful P_C14_Order
POSTCONDITION Accepted
CHECK_DEADLOCK FALSE
