SPECIFICATION TSpec
CONSTANTS
  Max = 65536
  Envelope <- TEnvelope
  MaxTries = 50
  Sizes = {}
  Classes = {}
  MaxFiles = 0
  MaxEv = 0
  MaxTotal = 0
INVARIANTS P_WellFormed P_AtMostOneBatch P_BatchBounded P_KnownIds P_OversizeNeverSent P_NotBlocked P_FilesRemoved P_Terminates P_PostsBounded
POSTCONDITION TAccepted
CHECK_DEADLOCK FALSE
