--------------------------- MODULE ExtHandlerTrace ---------------------------
(***************************************************************************)
(* Trace validation for X02 against the PROPERTIES of ExtHandler.tla (not  *)
(* its implementation shape).  Every row is what the orchestrator observed *)
(* of the REAL handler process / the REAL service loop: directory          *)
(* contents before and after, process table, the setup tool's argv log.    *)
(* The observable part of the state is loaded from the row, the ghosts     *)
(* (upd, Health's run lengths, pending / prev / credit) are advanced from  *)
(* the recorded INPUTS only (command names and exit codes, whether         *)
(* status.json named the packaged version, whether current_seq_no.txt      *)
(* changed), and the properties are evaluated in every state.  Any         *)
(* implementation that has the properties is accepted whatever its step    *)
(* order; one that does not is rejected at the first offending row.        *)
(*                                                                         *)
(* Rows (names of handlers / sequence numbers / versions are the model's;  *)
(* anything the orchestrator cannot map back is passed as "other:<text>"): *)
(*  {"e":"reset","installed":v,"backup":v}                                 *)
(*  {"e":"cmd","h","c","seq","exit", "pre_tag","pre_seq","pre_svc",        *)
(*     "tag","cur" (current_seq_no.txt of h after), "has_status",          *)
(*     "changed":[{"h","name","infolder","v"}]  status files created or    *)
(*        rewritten during the command (any handler's folder),             *)
(*     "nsvc","svc_same" (same process ids before and after),"svc" (owner  *)
(*     of the running service after),                                      *)
(*     "setup":[argv0..], "loop": a real service loop ran concurrently}    *)
(*  {"e":"iter","h","first","seq" (current_seq_no.txt when the iteration   *)
(*     began, "" if absent),"seq_changed","ok" (status.json named the      *)
(*     packaged version),"calls":[..],"report","changed":[..],             *)
(*     "installed","backup" (after)}                                       *)
(*  {"e":"external","installed":v}   {"e":"crash"}                         *)
(***************************************************************************)
EXTENDS ExtHandler, Json, IOUtils, Sequences

Rec == ndJsonDeserialize(IOEnv.TRACE)
VARIABLES l,        \* next row
          pp,       \* the value of `pending` before the row just consumed
          seen      \* sequence numbers the running service may legitimately report under: what current_seq_no.txt
                    \* held when this or the previous iteration began
tvars == <<vars, l, pp, seen>>

Range(f) == {f[i] : i \in DOMAIN f}
Row == Rec[l - 1]                    \* the row just consumed (l > 1)
Is(e) == l > 1 /\ Row.e = e

Frozen == /\ pp' = pending /\ hp' = Idle /\ wr' = NoWrite /\ hb' = hb /\ agentUp' = agentUp /\ aggVer' = aggVer
          /\ lpc' = "top" /\ decided' = decided /\ fc' = fc /\ sc' = sc

FreshGhosts(owner) ==
  /\ svc' = owner /\ cache' = Empty
  /\ st' = "transitioning" /\ gF' = 0 /\ gS' = 0 /\ lastObs' = "none"
  /\ credit' = IF owner = None THEN 0 ELSE 1
  /\ call' = None /\ seen' = {}

TInit ==
  /\ l = 1 /\ seen = {} /\ pp = FALSE
  /\ Init /\ installed = None

Reset ==
  /\ l <= Len(Rec) /\ Rec[l].e = "reset"
  /\ curSeq' = [h \in Handlers |-> Absent]
  /\ stf' = [h \in Handlers |-> [s \in Seqs |-> FALSE]] /\ stray' = [h \in Handlers |-> FALSE]
  /\ tag' = FALSE /\ upd' = FALSE
  /\ installed' = Rec[l].installed /\ backup' = Rec[l].backup
  /\ FreshGhosts(None)
  /\ pending' = FALSE /\ prev' = None
  /\ Frozen /\ l' = l + 1

\* files written: existence bits (a name that is not a delivered sequence number of a known handler is judged by
\* P_StatusForCurrentSeq on the row itself)
Mark(ch) ==
  /\ stf' = [h \in Handlers |-> [s \in Seqs |->
               stf[h][s] \/ \E i \in DOMAIN ch : ch[i].h = h /\ ch[i].infolder /\ ch[i].name = s]]
  /\ stray' = [h \in Handlers |-> stray[h] \/ \E i \in DOMAIN ch : ch[i].h = h /\ ~ch[i].infolder]

Cmd ==
  /\ l <= Len(Rec) /\ Rec[l].e = "cmd"
  /\ LET r == Rec[l] IN
       /\ curSeq' = [curSeq EXCEPT ![r.h] = r.cur]
       /\ Mark(r.changed)
       /\ tag' = r.tag
       /\ upd' = CASE r.exit = 0 /\ r.c = "update" -> TRUE
                   [] r.exit = 0 /\ r.c \in {"enable", "reset"} -> FALSE
                   [] OTHER -> upd
       /\ IF ~r.svc_same
          THEN FreshGhosts(r.svc)
          ELSE /\ UNCHANGED <<svc, cache, st, gF, gS, lastObs, call, seen>>
               /\ credit' = IF r.cur # r.pre_seq /\ svc = r.h THEN Min(credit + 1, 2) ELSE credit
       /\ UNCHANGED <<installed, backup, pending, prev>>
  /\ Frozen /\ l' = l + 1

\* one iteration of the real loop
Iter ==
  /\ l <= Len(Rec) /\ Rec[l].e = "iter"
  /\ LET r == Rec[l]
         inst == "install" \in Range(r.calls)
         \* Health's ghosts: an install counts as a failed observation (report_proxy_agent_service_status)
         f1 == IF inst THEN Min(gF + 1, GhostCap) ELSE gF
     IN
       /\ Mark(r.changed)
       /\ cache' = r.seq
       /\ seen' = {cache, r.seq}
       /\ gF' = IF r.ok THEN 0 ELSE Min(f1 + 1, GhostCap)
       /\ gS' = IF r.ok THEN Min((IF inst THEN 0 ELSE gS) + 1, GhostCap) ELSE 0
       /\ lastObs' = IF r.ok THEN "ok" ELSE "fail"
       /\ st' = r.report
       /\ credit' = IF inst THEN credit - 1 ELSE credit
       /\ prev' = IF "backup" \in Range(r.calls) THEN installed ELSE prev
       /\ pending' = IF "restore" \in Range(r.calls) \/ "purge" \in Range(r.calls) THEN FALSE
                     ELSE IF inst THEN TRUE ELSE pending
       /\ call' = IF "restore" \in Range(r.calls) THEN "restore"
                  ELSE IF "purge" \in Range(r.calls) THEN "purge" ELSE call
       /\ installed' = r.installed /\ backup' = r.backup
       /\ UNCHANGED <<curSeq, tag, upd, svc>>
  /\ Frozen /\ l' = l + 1

External ==
  /\ l <= Len(Rec) /\ Rec[l].e = "external"
  /\ installed' = Rec[l].installed
  /\ UNCHANGED <<curSeq, stf, stray, tag, upd, backup, svc, cache, st, gF, gS, lastObs, pending, prev, credit, call, seen>>
  /\ Frozen /\ l' = l + 1

CrashRow ==
  /\ l <= Len(Rec) /\ Rec[l].e = "crash"
  /\ FreshGhosts(None)
  /\ UNCHANGED <<curSeq, stf, stray, tag, upd, installed, backup, pending, prev>>
  /\ Frozen /\ l' = l + 1

TNext == Reset \/ Cmd \/ Iter \/ External \/ CrashRow
TSpec == TInit /\ [][TNext]_tvars

-----------------------------------------------------------------------------
\* The properties on the observed behaviour.

\* StatusForCurrentSeq: a command writes only <its seq>.status in its own handler's status folder (while a real
\* loop runs concurrently, also what the loop may write); an iteration only files named after a number
\* current_seq_no.txt held when this or the previous iteration began, in its own handler's folder
LoopMayWrite(c) == c.h = svc /\ c.infolder /\ c.name \in seen
P_StatusForCurrentSeq ==
  /\ Is("cmd") => \A i \in DOMAIN Row.changed :
        LET c == Row.changed[i] IN
          \/ ~c.infolder                     \* judged by P_StatusOnlyInFolder
          \/ c.h = Row.h /\ c.name = Row.seq
          \/ Row.loop /\ LoopMayWrite(c)
  /\ Is("iter") => \A i \in DOMAIN Row.changed :
        LET c == Row.changed[i] IN ~c.infolder \/ (c.h = Row.h /\ c.name \in seen \cup {Row.seq})
P_EnableReportsItsSeq ==
  (Is("cmd") /\ Row.c = "enable" /\ Row.exit = 0) => Row.cur = Row.seq /\ Row.has_status
\* only enable (and the unsupported-OS report, exit 6) write status files
P_OnlyEnableReports ==
  (Is("cmd") /\ ~Row.loop /\ Row.c # "enable" /\ Row.exit = 0) => Row.changed = << >>

\* EnableIdempotent
P_EnableIdempotent ==
  (Is("cmd") /\ Row.c = "enable" /\ Row.pre_seq = Row.seq /\ Row.pre_svc # None) =>
     /\ Row.cur = Row.pre_seq
     /\ Row.svc_same /\ Row.nsvc = 1
     /\ \A i \in DOMAIN Row.changed : Row.loop /\ LoopMayWrite(Row.changed[i])
P_EnableKeepsRunningService ==
  (Is("cmd") /\ Row.c = "enable" /\ Row.pre_svc # None) => Row.svc_same /\ Row.nsvc = 1
P_SingleService ==
  Is("cmd") => /\ Row.nsvc <= 1
               /\ (Row.c = "enable" /\ Row.exit = 0) => Row.nsvc = 1
               /\ (Row.c = "disable" /\ Row.exit = 0) => Row.nsvc = 0

\* UpdateTagLifecycle
P_UpdateTagLifecycle == UpdateTagLifecycle

\* UninstallGuard
P_UninstallGuard ==
  /\ (Is("cmd") /\ Row.c = "uninstall" /\ Row.exit = 0) => (("uninstall" \in Range(Row.setup)) = ~Row.pre_tag)
  /\ (Is("cmd") /\ Row.c # "uninstall") => Row.setup = << >>

\* UnsupportedOsOnlyReports
P_UnsupportedOs ==
  (Is("cmd") /\ Row.exit = 6) =>
     /\ Row.cur = Row.pre_seq /\ Row.tag = Row.pre_tag /\ Row.setup = << >> /\ Row.svc_same
     /\ \A i \in DOMAIN Row.changed :
          Row.changed[i].h = Row.h /\ Row.changed[i].name = Row.seq /\ Row.changed[i].v = "error"

\* RollbackOnError (Health's ghosts advanced from the recorded observations)
P_RollbackOnError ==
  Is("iter") =>
     /\ "restore" \in Range(Row.calls) => Row.report = "error" /\ gF >= Threshold /\ ~Row.ok
     /\ "purge" \in Range(Row.calls) => Row.report = "success" /\ Row.ok
     /\ Row.report = "transitioning" => ~("restore" \in Range(Row.calls)) /\ ~("purge" \in Range(Row.calls))
     /\ ~("restore" \in Range(Row.calls) /\ "purge" \in Range(Row.calls))
\* ... and the report itself is a C20 report for the observations the loop made
P_HealthReport ==
  svc # None => /\ H!ErrorOnlyAfterSustainedFailure /\ H!NeverErrorAfterSuccess /\ H!TwoSuccessesGiveSuccess

\* RestoreBringsBackPrevious: evaluated on the row of the restore (prev / pending are the values BEFORE it only if
\* the same iteration did not back up again; the orchestrator's scenarios never restore and back up in one iteration)
P_RestoreBringsBackPrevious ==
  (Is("iter") /\ "restore" \in Range(Row.calls) /\ ~("backup" \in Range(Row.calls)) /\ pp /\ prev # None)
     => installed = prev

\* NoUpgradeLoop
P_NoUpgradeLoop == credit >= 0
P_InstallOnlyWithBackup ==
  Is("iter") => ("install" \in Range(Row.calls) => "backup" \in Range(Row.calls) /\ installed = PkgOf(Row.h))

\* the two findings' properties
P_StatusOnlyInFolder == StatusOnlyInFolder
P_RollbackCoversEveryInstall == (Is("iter") /\ pending) => st = "transitioning"

Accepted == IF TLCGet("stats").diameter - 1 = Len(Rec) THEN TRUE
            ELSE PrintT(<<"UNMATCHED", TLCGet("stats").diameter, Len(Rec)>>) /\ FALSE
=============================================================================
