--------------------------- MODULE KeySecretTrace ---------------------------
(***************************************************************************)
(* C12 on observed executions.  Events:                                     *)
(*  {"e":"fs","op":"mkdir"|"restrict"|"create","mode":"0700"|..}  key-store  *)
(*      directory operations in the order strace saw them                    *)
(*  {"e":"sink","sink":s,"phase":p,"canary":b,"where":file}  after a phase   *)
(*      every output of the agent was scanned for every rendering of every   *)
(*      secret the host issued (canary); sink "keyfile" = a file inside the  *)
(*      key directory                                                        *)
(***************************************************************************)
EXTENDS Naturals, Sequences, TLC, Json, IOUtils
Rec == ndJsonDeserialize(IOEnv.TRACE)
VARIABLES l, o, restricted
Init == l = 1 /\ o = [e |-> "init"] /\ restricted = FALSE
Next == /\ l <= Len(Rec) /\ l' = l + 1 /\ o' = Rec[l]
        /\ restricted' = IF Rec[l].e = "fs" /\ Rec[l].op = "restrict" /\ Rec[l].mode = "0700" THEN TRUE
                         ELSE IF Rec[l].e = "fs" /\ Rec[l].op = "mkdir" THEN FALSE     \* a (re-)created directory is unrestricted
                         ELSE restricted
Spec == Init /\ [][Next]_<<l, o, restricted>>
P_C12_NoLeak == (o.e = "sink" /\ o.canary) => o.sink = "keyfile"
P_C12_AclBeforeFirstKeyFile == (o.e = "fs" /\ o.op = "create") => restricted
P_C12_DirMode == (o.e = "sink" /\ o.sink = "keydir") => o.mode = "0700"
Accepted == IF TLCGet("stats").diameter - 1 = Len(Rec) THEN TRUE
            ELSE PrintT(<<"UNMATCHED", TLCGet("stats").diameter, Len(Rec)>>) /\ FALSE
=============================================================================
