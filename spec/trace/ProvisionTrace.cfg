SPECIFICATION TSpec
CONSTANTS
  MaxClock = 1000
  MaxKK = 0
  MaxRd = 0
  NQ = 12
  MaxPolls = 1
  MaxLatch = 0
  FileSteps = FALSE
  QKinds = {}
  Fix = {}
  KKOps = {}
POSTCONDITION Accepted
CHECK_DEADLOCK FALSE
