SPECIFICATION TSpec
CONSTANTS
  MaxClock = 1000
  MaxKK = 0
  MaxRd = 0
  NQ = 8
  MaxLatch = 0
  FileSteps = FALSE
  QKinds = {}
  Fix = {}
  KKOps = {}
POSTCONDITION Accepted
CHECK_DEADLOCK FALSE
