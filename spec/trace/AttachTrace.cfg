SPECIFICATION TSpec
CONSTANTS
  MaxRetries = 1000
  Order <- HeadOrder
INVARIANTS P_C06_NeverDivertUnpublished
POSTCONDITION Accepted
CHECK_DEADLOCK FALSE
