--------------------------- MODULE KeyKeeperTrace ---------------------------
(***************************************************************************)
(* Trace validation for C09 against the *statement* (property level, not   *)
(* the implementation shape).  One row per poll of a recorded run of the   *)
(* real key keeper against the scripted host: what the host answered to    *)
(* each request of the poll, the document it served, the key it regards as *)
(* latched when the poll ended, and the agent's state read through the     *)
(* public getters + key directory + redirect-policy updates (H3) at the    *)
(* instant the NEXT status request reached the host (the key keeper is     *)
(* then parked on its socket).  The statement's clauses are the operators  *)
(* C09_*On of KeyKeeper.tla, evaluated here on the recorded values; nothing*)
(* about how the implementation got there is required.  The names of the   *)
(* clauses that fail in a run are printed when the run ends                *)
(* (<<"VERDICT", json>>), so one TLC run decides many recorded runs.       *)
(* Rows: {"e":"run","id":n,"obs":o}  {"e":"crash","obs":o}  {"e":"end"}    *)
(*  {"e":"poll","status","acquire","attest","mid","notify","doc","latched",*)
(*   "obs":{key,keyOk,state,ruleId,rules,final,tmp},"pol":{ep:on|off|none}, *)
(*   "npol":n}                                                              *)
(***************************************************************************)
EXTENDS KeyKeeper, Json, IOUtils
ZeroInc(g) == 0
TModeOf(r) == "audit"

Rec == ndJsonDeserialize(IOEnv.TRACE)
VARIABLES l, prev, viol, runid, polls, firstBad,
          cum     \* the interception in force: last redirect-policy update per endpoint since the process started
tvars == <<vars, l, prev, viol, runid, polls, firstBad, cum>>

\* "answered consistently and without errors for one complete poll"
Clean(r) == /\ r.status = "ok" /\ r.acquire \in {"-", "ok"} /\ r.attest \in {"-", "ok"} /\ ~r.mid /\ ~r.notify

\* a notification during the wait resets a disabled/unknown state to unknown; it is not part of the poll
AfterNotify(p, n) == IF n /\ p.state.k \in {"disabled", "Unknown"} THEN [p EXCEPT !.state = UnknownState] ELSE p

PolOf(r) == [e \in Eps |-> IF r.pol[e] = "none" THEN "unset" ELSE r.pol[e]]

CumAfter(r) == [e \in Eps |-> IF r.pol[e] = "none" THEN cum[e] ELSE r.pol[e]]

Failing(r, p) ==
  {n \in {"Rules", "Key", "KeyValue", "State", "Policy", "PolicyInForce", "FailedPollChangesNothing"} :
     CASE n = "Rules"    -> Clean(r) /\ ~C09_RulesOn(r.obs, r.doc)
       [] n = "Key"      -> Clean(r) /\ ~C09_KeyOn(r.obs, r.doc, r.latched)
       [] n = "KeyValue" -> Clean(r) /\ r.obs.key # "none" /\ ~r.obs.keyOk
       [] n = "State"    -> Clean(r) /\ ~C09_StateOn(r.obs, r.doc)
       [] n = "Policy"   -> Clean(r) /\ ~C09_PolicyOn(PolOf(r), r.obs.state # p.state, r.doc)
       [] n = "PolicyInForce" -> Clean(r) /\ ~C09_PolicyInForceOn(CumAfter(r), r.doc)
       [] n = "FailedPollChangesNothing" ->
            r.status \in {"fail", "invalid"} /\ ~(r.obs = AfterNotify(p, r.notify) /\ r.npol = 0)}

TInit ==
  /\ host = 0 /\ fs = 0 /\ pc = "-" /\ loc = 0 /\ mem = 0 /\ policy = 0 /\ act = 0 /\ gh = 0
  /\ l = 1 /\ prev = 0 /\ viol = {} /\ runid = 0 /\ polls = 0 /\ firstBad = 0 /\ cum = PolicyInit

Verdict == PrintT(<<"VERDICT", ToJson([run |-> runid, viol |-> viol, polls |-> polls, firstBad |-> firstBad])>>)

TRun == /\ l <= Len(Rec) /\ Rec[l].e = "run"
        /\ runid' = Rec[l].id /\ prev' = Rec[l].obs /\ viol' = {} /\ polls' = 0 /\ firstBad' = 0 /\ cum' = PolicyInit
        /\ l' = l + 1 /\ UNCHANGED vars

TEnd == /\ l <= Len(Rec) /\ Rec[l].e = "end"
        /\ Verdict
        /\ l' = l + 1 /\ UNCHANGED <<vars, prev, viol, runid, polls, firstBad, cum>>

TCrash == /\ l <= Len(Rec) /\ Rec[l].e = "crash"
          /\ prev' = Rec[l].obs /\ cum' = PolicyInit
          /\ l' = l + 1 /\ UNCHANGED <<vars, viol, runid, polls, firstBad>>

TPoll == /\ l <= Len(Rec) /\ Rec[l].e = "poll"
         /\ viol' = viol \cup Failing(Rec[l], prev)
         /\ prev' = Rec[l].obs /\ polls' = polls + 1 /\ cum' = CumAfter(Rec[l])
         /\ firstBad' = IF firstBad = 0 /\ Failing(Rec[l], prev) # {} THEN polls + 1 ELSE firstBad
         /\ l' = l + 1 /\ UNCHANGED <<vars, runid>>

TNext == TRun \/ TEnd \/ TCrash \/ TPoll
TSpec == TInit /\ [][TNext]_tvars

Accepted == IF TLCGet("stats").diameter - 1 = Len(Rec) THEN TRUE
            ELSE PrintT(<<"UNMATCHED", TLCGet("stats").diameter, Len(Rec)>>) /\ FALSE
=============================================================================
