----------------------------- MODULE AttachTrace -----------------------------
(***************************************************************************)
(* Property-level trace validation of the redirector's START-UP (C06): the  *)
(* REAL Redirector::start / attach_bpf_prog run on the tree's eBPF object   *)
(* (driver vdrv/realmaps.rs, mode "attach") under strace; the rows are      *)
(* derived from the system-call log alone (checks/realmaps.py):             *)
(*   {"e":"attempt"}                       a fresh object was loaded        *)
(*   {"e":"attach","hook":"publish"|"divert","ok":b}                        *)
(*        publish = the kprobe attach (kprobe PMU / perf_event_open /       *)
(*        kprobe_events ... PERF_EVENT_IOC_SET_BPF or a perf link),         *)
(*        divert  = bpf(BPF_LINK_CREATE | BPF_PROG_ATTACH) with attach type *)
(*        BPF_CGROUP_INET4_CONNECT, each with the kernel's answer           *)
(*   {"e":"detach"}                        the links of the object closed   *)
(* Only what the statement talks about is kept: which hooks are in force.   *)
(* Nothing is assumed about the order the agent uses or about retries: any  *)
(* start-up in which the diverting hook is never in force without the       *)
(* publishing hook is accepted (Attach!NeverDivertUnpublished on the        *)
(* observed attachment state, in every state of the trace).                 *)
(***************************************************************************)
EXTENDS Attach, Json, IOUtils, TLC

TRows == ndJsonDeserialize(IOEnv.TRACE)
VARIABLE l
tvars == <<avars, l>>

TInit == AInit /\ l = 1
Row == TRows[l]

TAttempt == /\ Row.e = "attempt" /\ tries' = tries + 1 /\ UNCHANGED <<pc, divert, publish, seen>>
TAttach == /\ Row.e = "attach"
           /\ publish' = (publish \/ (Row.hook = "publish" /\ Row.ok))
           /\ divert' = (divert \/ (Row.hook = "divert" /\ Row.ok))
           /\ UNCHANGED <<pc, tries, seen>>
TDetach == /\ Row.e = "detach" /\ divert' = FALSE /\ publish' = FALSE /\ UNCHANGED <<pc, tries, seen>>

TNext == /\ l <= Len(TRows) /\ l' = l + 1 /\ (TAttempt \/ TAttach \/ TDetach)
TSpec == TInit /\ [][TNext]_tvars

P_C06_NeverDivertUnpublished == NeverDivertUnpublished

Accepted == IF TLCGet("stats").diameter - 1 = Len(TRows) THEN TRUE
            ELSE PrintT(<<"UNMATCHED", TLCGet("stats").diameter, Len(TRows)>>) /\ FALSE
=============================================================================
