SPECIFICATION Spec
INVARIANTS P_C03_RootOnly P_ElevatedServed
POSTCONDITION Accepted
CHECK_DEADLOCK FALSE
