----------------------------- MODULE HealthLoop -----------------------------
(***************************************************************************)
(* C20 -- the health report as it LEAVES the extension.                    *)
(*                                                                         *)
(* Health.tla is the automaton (StatusState::update_state).  This module   *)
(* puts it into the monitor loop of service_main.rs (monitor_thread): every*)
(* poll reads the current sequence number (current_seq_no.txt, written by  *)
(* the enable handler), takes one health observation from the agent's      *)
(* aggregate status file, and writes the report to <statusFolder>/<seq>    *)
(* .status, the only thing the VM agent ever sees.  The enable handler     *)
(* (handler_main.rs enable_handler: update_current_seq_no +                *)
(* report_status_enable_command) moves the sequence number when a new goal *)
(* state arrives and puts its own 'transitioning' / 'Enabling the          *)
(* ProxyAgent Extension...' document into the NEW file.                    *)
(*                                                                         *)
(* C20 speaks about "the report": after a completed poll the file of the   *)
(* CURRENT sequence number has to carry the report of that poll -- the     *)
(* value the hysteresis allows for the observations so far --, never what  *)
(* the handler (or an earlier poll) left there.                            *)
(*                                                                         *)
(* Memo selects the design of the write:                                   *)
(*   "off"     every poll writes (the code as it is)                       *)
(*   "unkeyed" the write is skipped while the report equals the one written*)
(*             last, whatever file that was (rejected: SeqChange, then a   *)
(*             poll with an unchanged report leaves the handler's text)    *)
(*   "keyed"   skipped while (sequence number, report) equals the last     *)
(*             write (rejected too: two SeqChanges between two polls bring *)
(*             the old number back with the handler's text in its file)    *)
(***************************************************************************)
EXTENDS Health

CONSTANTS SeqNo,     \* sequence numbers (strings)
          Tags,    \* contents a healthy agent writes into its aggregate status file (a success observation)
          Fails,   \* ways the aggregate status file is not usable: missing / other version / not JSON (a failure)
          Memo

VARIABLES cur,     \* the current sequence number (current_seq_no.txt)
          file,    \* SeqNo -> document in <seq>.status
          agg,     \* what the agent's aggregate status file holds: a tag or a failure kind
          memo,    \* [seq, doc]: the last write of the loop (used by the Memo designs only)
          rep,     \* ghost: the report of the last completed poll
          polled   \* ghost: a poll has completed since the sequence number last changed

lvars == <<cur, file, agg, memo, rep, polled>>
allvars == <<vars, lvars>>

Absent  == [by |-> "absent",  st |-> "none",          obs |-> "none"]
Handler == [by |-> "handler", st |-> "transitioning", obs |-> "none"]
LoopDoc(s, o) == [by |-> "loop", st |-> s, obs |-> o]

LInit == /\ Init
         /\ cur \in SeqNo
         /\ file = [s \in SeqNo |-> IF s = cur THEN Handler ELSE Absent]   \* `enable` ran before the service started
         /\ agg \in Tags \cup Fails
         /\ memo = [seq |-> "none", doc |-> Absent]
         /\ rep = Absent
         /\ polled = FALSE

\* the environment: the agent rewrites its file (new content), or the file becomes unusable
AggChange(a) == /\ a # agg
                /\ agg' = a
                /\ UNCHANGED <<vars, cur, file, memo, rep, polled>>

\* a new goal state: the enable handler stores the number and reports 'transitioning' for it
SeqChange(s) == /\ s # cur
                /\ cur' = s
                /\ file' = [file EXCEPT ![s] = Handler]
                /\ polled' = FALSE
                /\ UNCHANGED <<vars, agg, memo, rep>>

\* one iteration of monitor_thread (no suspension point between reading the number and writing the file)
Poll == LET ok == agg \in Tags IN
        /\ Observe(ok)
        /\ LET r == LoopDoc(st', agg)
               skip == CASE Memo = "off"     -> FALSE
                         [] Memo = "unkeyed" -> memo.doc = r
                         [] Memo = "keyed"   -> memo.doc = r /\ memo.seq = cur
           IN /\ file' = IF skip THEN file ELSE [file EXCEPT ![cur] = r]
              /\ memo' = IF skip THEN memo ELSE [seq |-> cur, doc |-> r]
              /\ rep' = r
        /\ polled' = TRUE
        /\ UNCHANGED <<cur, agg>>

LNext == \/ Poll
         \/ \E a \in Tags \cup Fails : AggChange(a)
         \/ \E s \in SeqNo : SeqChange(s)
LSpec == LInit /\ [][LNext]_allvars

-----------------------------------------------------------------------------
LTypeOK == /\ cur \in SeqNo /\ agg \in Tags \cup Fails /\ polled \in BOOLEAN
           /\ \A s \in SeqNo : file[s].by \in {"absent", "handler", "loop"}

\* after every completed poll the status file of the current sequence number carries the report of that poll ...
CurrentSeqFileIsThisPollsReport == polled => file[cur] = rep
\* ... in particular never the handler's stale text
NoStaleHandlerText == polled => file[cur].by = "loop"
\* ... and so the hysteresis of C20 holds for what the VM agent reads (Health's invariants speak about st)
ReportedIsComputed == polled => file[cur].st = st
=============================================================================
