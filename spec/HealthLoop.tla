----------------------------- MODULE HealthLoop -----------------------------
(***************************************************************************)
(* C20 -- the health report as it LEAVES the extension.                    *)
(*                                                                         *)
(* Health.tla is the automaton (StatusState::update_state).  This module   *)
(* puts it into the monitor loop of service_main.rs (monitor_thread): every*)
(* poll reads the current sequence number (current_seq_no.txt, written by  *)
(* the enable handler), takes one health observation from the agent's      *)
(* aggregate status file, and writes the report to <statusFolder>/<seq>    *)
(* .status, the only thing the VM agent ever sees.  The enable handler     *)
(* (handler_main.rs enable_handler: update_current_seq_no +                *)
(* report_status_enable_command) moves the sequence number when a new goal *)
(* state arrives and puts its own 'transitioning' / 'Enabling the          *)
(* ProxyAgent Extension...' document into the NEW file.                    *)
(*                                                                         *)
(* C20 speaks about "the report": after a completed poll the file of the   *)
(* CURRENT sequence number has to carry the report of that poll -- the     *)
(* value the hysteresis allows for the observations so far --, never what  *)
(* the handler (or an earlier poll) left there.                            *)
(*                                                                         *)
(* Memo selects the design of the write:                                   *)
(*   "off"     every poll writes (the code as it is)                       *)
(*   "unkeyed" the write is skipped while the report equals the one written*)
(*             last, whatever file that was (rejected: SeqChange, then a   *)
(*             poll with an unchanged report leaves the handler's text)    *)
(*   "keyed"   skipped while (sequence number, report) equals the last     *)
(*             write (rejected too: two SeqChanges between two polls bring *)
(*             the old number back with the handler's text in its file)    *)
(*                                                                         *)
(* The install step: when the number the loop has cached differs from the  *)
(* current one AND the installed agent's version differs from the copy in  *)
(* the extension, the iteration first runs `<setup tool> install`          *)
(* (report_proxy_agent_service_status): status.code := its exit code (4 if *)
(* it cannot be started), and the state machine is fed ONE failed          *)
(* observation ("updated, not yet seen healthy"), whether the command       *)
(* succeeded or not.  status.code is never reset by a health observation.  *)
(* C20 speaks about observations only: the code of a failed install must   *)
(* not decide the report.  CodeOverride = TRUE is the design that reports  *)
(* 'error' while the code is non-zero (rejected: error directly after a    *)
(* success / before the threshold, and never success again).               *)
(*                                                                         *)
(* The file systems: SameFs says whether the status folder is on the file  *)
(* system of the process's temporary directory (an environment dimension:  *)
(* /tmp is a tmpfs or a partition of its own on many images).  TempRename  *)
(* = TRUE is the design that writes the document below the temporary       *)
(* directory and renames it into the status folder: across file systems    *)
(* the rename fails (EXDEV, only logged) and neither the handler's nor the *)
(* loop's document ever reaches the folder (rejected when ~SameFs).        *)
(***************************************************************************)
EXTENDS Health

CONSTANTS SeqNo,     \* sequence numbers (strings)
          Tags,    \* contents a healthy agent writes into its aggregate status file (a success observation)
          Fails,   \* ways the aggregate status file is not usable: missing / other version / not JSON (a failure)
          Memo,
          Codes,         \* exit codes of the install command (0 = success)
          CodeOverride,  \* design switch, see above
          SameFs,        \* environment: status folder and temporary directory on one file system
          TempRename     \* design switch, see above

VARIABLES cur,     \* the current sequence number (current_seq_no.txt)
          file,    \* SeqNo -> document in <seq>.status
          agg,     \* what the agent's aggregate status file holds: a tag or a failure kind
          memo,    \* [seq, doc]: the last write of the loop (used by the Memo designs only)
          rep,     \* ghost: the report of the last completed poll
          polled,  \* ghost: a poll has completed since the sequence number last changed
          cached,  \* cache_seq_no of the loop ("none" before the first iteration)
          mismatch,\* the installed agent's version differs from the extension's copy
          code     \* status.code of the long-lived StatusObj

lvars == <<cur, file, agg, memo, rep, polled, cached, mismatch, code>>
allvars == <<vars, lvars>>

Absent  == [by |-> "absent",  st |-> "none",          obs |-> "none"]
Handler == [by |-> "handler", st |-> "transitioning", obs |-> "none"]
LoopDoc(s, o) == [by |-> "loop", st |-> s, obs |-> o]

\* does a write of a status document reach the status folder?
Lands == ~TempRename \/ SameFs

LInit == /\ Init
         /\ cur \in SeqNo
         /\ file = [s \in SeqNo |-> IF s = cur /\ Lands THEN Handler ELSE Absent]   \* `enable` ran before the service started
         /\ agg \in Tags \cup Fails
         /\ memo = [seq |-> "none", doc |-> Absent]
         /\ rep = Absent
         /\ polled = FALSE
         /\ cached = "none"
         /\ mismatch \in BOOLEAN
         /\ code = 0

\* the environment: the agent rewrites its file (new content), or the file becomes unusable
AggChange(a) == /\ a # agg
                /\ agg' = a
                /\ UNCHANGED <<vars, cur, file, memo, rep, polled, cached, mismatch, code>>

\* a new goal state: the enable handler stores the number and reports 'transitioning' for it
SeqChange(s) == /\ s # cur
                /\ cur' = s
                /\ file' = IF Lands THEN [file EXCEPT ![s] = Handler] ELSE file
                /\ polled' = FALSE
                /\ UNCHANGED <<vars, agg, memo, rep, cached, mismatch, code>>

\* first half of an iteration that finds a new sequence number and a version mismatch: the install command
\* (its result n is the environment's choice; a successful install may or may not end the mismatch)
InstallPending == cached # cur /\ mismatch
Install(n) == /\ InstallPending
              /\ Observe(FALSE)
              /\ code' = n
              /\ cached' = cur
              /\ mismatch' \in (IF n = 0 THEN BOOLEAN ELSE {TRUE})
              /\ UNCHANGED <<cur, file, agg, memo, rep, polled>>

\* (the rest of) one iteration of monitor_thread: the health observation and the write
\* (no suspension point between reading the number and writing the file)
Poll == LET ok == agg \in Tags IN
        /\ ~InstallPending
        /\ Observe(ok)
        /\ LET r == LoopDoc(IF CodeOverride /\ code # 0 THEN "error" ELSE st', agg)
               skip == CASE Memo = "off"     -> FALSE
                         [] Memo = "unkeyed" -> memo.doc = r
                         [] Memo = "keyed"   -> memo.doc = r /\ memo.seq = cur
           IN /\ file' = IF skip \/ ~Lands THEN file ELSE [file EXCEPT ![cur] = r]
              /\ memo' = IF skip THEN memo ELSE [seq |-> cur, doc |-> r]
              /\ rep' = LoopDoc(st', agg)       \* what C20 allows: the automaton's value for the observations so far
        /\ polled' = TRUE
        /\ cached' = cur
        /\ UNCHANGED <<cur, agg, mismatch, code>>

LNext == \/ Poll
         \/ \E n \in Codes : Install(n)
         \/ \E a \in Tags \cup Fails : AggChange(a)
         \/ \E s \in SeqNo : SeqChange(s)
LSpec == LInit /\ [][LNext]_allvars

-----------------------------------------------------------------------------
LTypeOK == /\ cur \in SeqNo /\ agg \in Tags \cup Fails /\ polled \in BOOLEAN
           /\ cached \in SeqNo \cup {"none"} /\ mismatch \in BOOLEAN /\ code \in Codes
           /\ \A s \in SeqNo : file[s].by \in {"absent", "handler", "loop"}

\* after every completed poll the status file of the current sequence number carries the report of that poll ...
CurrentSeqFileIsThisPollsReport == polled => file[cur] = rep
\* ... in particular never the handler's stale text
NoStaleHandlerText == polled => file[cur].by = "loop"
\* ... and so the hysteresis of C20 holds for what the VM agent reads (Health's invariants speak about st)
ReportedIsComputed == polled => file[cur].st = st
=============================================================================
