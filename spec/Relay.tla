-------------------------------- MODULE Relay --------------------------------
(***************************************************************************)
(* C14 — the data path of the proxy for authorized requests.                *)
(* Per client connection: the requests the client has written (possibly     *)
(* pipelined), the one request hyper's HTTP/1 server is serving, the single *)
(* upstream connection of that client connection (TcpConnectionContext      *)
(* owns one sender guarded by a mutex), the host's responses and what the   *)
(* client reads.  A message is [id, conn]; "faithful" relaying of its       *)
(* content is a per-message fact checked on the observed bytes by           *)
(* trace/RelayTrace.tla; this module decides ordering and cross-talk.       *)
(***************************************************************************)
EXTENDS Naturals, Sequences, FiniteSets, TLC

CONSTANTS Conn, MaxReq

VARIABLES sent,      \* Conn -> Seq(id): requests written by the client, in order
          serving,   \* Conn -> 0 | id : the request being handled (one at a time per connection)
          lock,      \* Conn -> BOOLEAN : upstream sender mutex of that connection held
          hostq,     \* Conn -> Seq(id): what the host received on that connection's upstream, in order
          hostout,   \* Conn -> Seq(id): responses the host wrote (id = the request answered)
          got        \* Conn -> Seq([req, resp]): what the client read: k-th response, paired with its k-th request
vars == <<sent, serving, lock, hostq, hostout, got>>

Ids(c) == {c} \X (1..MaxReq)
Init == /\ sent = [c \in Conn |-> <<>>] /\ serving = [c \in Conn |-> 0] /\ lock = [c \in Conn |-> FALSE]
        /\ hostq = [c \in Conn |-> <<>>] /\ hostout = [c \in Conn |-> <<>>] /\ got = [c \in Conn |-> <<>>]

ClientSend(c) == /\ Len(sent[c]) < MaxReq
                 /\ sent' = [sent EXCEPT ![c] = Append(@, Len(@) + 1)]
                 /\ UNCHANGED <<serving, lock, hostq, hostout, got>>
\* hyper serves the next request of a connection only after the previous response has been written
Take(c) == /\ serving[c] = 0 /\ Len(got[c]) < Len(sent[c])
           /\ serving' = [serving EXCEPT ![c] = sent[c][Len(got[c]) + 1]]
           /\ UNCHANGED <<sent, lock, hostq, hostout, got>>
Forward(c) == /\ serving[c] # 0 /\ ~lock[c] /\ (IF hostq[c] = <<>> THEN TRUE ELSE hostq[c][Len(hostq[c])] # serving[c])
              /\ lock' = [lock EXCEPT ![c] = TRUE]
              /\ hostq' = [hostq EXCEPT ![c] = Append(@, serving[c])]
              /\ UNCHANGED <<sent, serving, hostout, got>>
HostRespond(c) == /\ Len(hostout[c]) < Len(hostq[c])
                  /\ hostout' = [hostout EXCEPT ![c] = Append(@, hostq[c][Len(@) + 1])]
                  /\ UNCHANGED <<sent, serving, lock, hostq, got>>
RelayResponse(c) == /\ serving[c] # 0 /\ lock[c] /\ Len(hostout[c]) = Len(hostq[c])
                    /\ got' = [got EXCEPT ![c] = Append(@, [req |-> serving[c], resp |-> hostout[c][Len(hostout[c])]])]
                    /\ serving' = [serving EXCEPT ![c] = 0] /\ lock' = [lock EXCEPT ![c] = FALSE]
                    /\ UNCHANGED <<sent, hostq, hostout>>
Next == \E c \in Conn : ClientSend(c) \/ Take(c) \/ Forward(c) \/ HostRespond(c) \/ RelayResponse(c)
Spec == Init /\ [][Next]_vars /\ WF_vars(Next)

\* responses on a connection are in request order, each is the response to the request that caused it
Order == \A c \in Conn : \A k \in 1..Len(got[c]) : got[c][k].req = sent[c][k] /\ got[c][k].resp = got[c][k].req
\* the host sees every request once, in order
HostSeesInOrder == \A c \in Conn : \A k \in 1..Len(hostq[c]) : hostq[c][k] = sent[c][k]
AllAnswered == <>(\A c \in Conn : Len(got[c]) = MaxReq)
=============================================================================
