----------------------------- MODULE HealthRate -----------------------------
(***************************************************************************)
(* C20, second half — rate limiting of repeated state notifications        *)
(* (ServiceState::update_service_state_entry, service_main.rs              *)
(* write_state_event with MAX_STATE_COUNT).                                 *)
(***************************************************************************)
EXTENDS Naturals, TLC

CONSTANTS Key, Val, RateMax   \* RateMax = 120

VARIABLES entry,    \* Key -> [v |-> "none"|Val, n |-> 0..RateMax]    (state_map; v = "none": no entry)
          emitted,  \* result of the last notification (TRUE = event written)
          gSince,   \* ghost: Key -> notifications of the current value since (and including) the last emission
          gVal,     \* ghost: Key -> value of the previous notification ("none" if none)
          lastKey

vars == <<entry, emitted, gSince, gVal, lastKey>>

Init == /\ entry = [k \in Key |-> [v |-> "none", n |-> 0]]
        /\ emitted = FALSE
        /\ gSince = [k \in Key |-> 0]
        /\ gVal = [k \in Key |-> "none"]
        /\ lastKey = "none"

\* ghost bookkeeping for a notification whose observed result is emit (shared with trace/HealthRateTrace.tla)
GhostNotify(k, v, emit) ==
     /\ emitted' = emit
     /\ gSince' = [gSince EXCEPT ![k] = IF emit THEN 1 ELSE @ + 1]
     /\ gVal' = [gVal EXCEPT ![k] = v]
     /\ lastKey' = k

Notify(k, v) ==
  LET e == entry[k]
      emit == IF e.v = "none" THEN TRUE ELSE (e.v # v \/ e.n >= RateMax)
      n1 == IF emit THEN 1 ELSE e.n + 1
  IN /\ entry' = [entry EXCEPT ![k] = [v |-> v, n |-> n1]]
     /\ GhostNotify(k, v, emit)

Next == \E k \in Key, v \in Val : Notify(k, v)
Spec == Init /\ [][Next]_vars

-----------------------------------------------------------------------------
\* emitted on change (first notification of a key counts as a change)
EmitOnChange == [][\A k \in Key, v \in Val : Notify(k, v) /\ gVal[k] # v => emitted']_vars
\* ... and then at most once per RateMax repetitions: an emission of an unchanged value comes only after
\* RateMax notifications of it since the previous emission
AtMostOncePerMax ==
  [][\A k \in Key, v \in Val : Notify(k, v) /\ gVal[k] = v /\ emitted' => gSince[k] >= RateMax]_vars
\* other keys are not disturbed
KeysIndependent == [][\A k \in Key, v \in Val : Notify(k, v) => \A j \in Key \ {k} : entry'[j] = entry[j]]_vars
=============================================================================
