------------------------------- MODULE KeyGen -------------------------------
(***************************************************************************)
(* C10 — one signer against the key keeper, reduced to the key actions of   *)
(* Proxy.tla (ReadKey1 / ReadKey2 / ReadKeyPair / Send, SetKey / ClearKey)  *)
(* with a history variable, so that every interleaving is printed as a      *)
(* schedule that the gates of hook H4 can force on the real code.           *)
(* Split = TRUE: the two reads are two actor messages (the code as found);  *)
(* Split = FALSE: one message returns the pair.                             *)
(***************************************************************************)
EXTENDS Naturals, Sequences, TLC, Json

CONSTANTS Split, MaxKeeper
VARIABLES key, pc, first, second, hist, nk

vars == <<key, pc, first, second, hist, nk>>
KeyVals == {"k1", "k2", "nokey"}

Init == key = "k1" /\ pc = "r1" /\ first = "nokey" /\ second = "nokey" /\ hist = <<>> /\ nk = 0

Read1 == /\ pc = "r1" /\ first' = key
         /\ IF Split THEN pc' = "r2" /\ UNCHANGED second ELSE pc' = "send" /\ second' = key
         /\ hist' = Append(hist, "R1") /\ UNCHANGED <<key, nk>>
Read2 == /\ pc = "r2" /\ second' = key /\ pc' = "send"
         /\ hist' = Append(hist, "R2") /\ UNCHANGED <<key, first, nk>>
Send ==  /\ pc = "send" /\ pc' = "done" /\ hist' = Append(hist, "SEND") /\ UNCHANGED <<key, first, second, nk>>
Keeper(v) == /\ pc # "done" /\ nk < MaxKeeper /\ v # key
             /\ key' = v /\ nk' = nk + 1
             /\ hist' = Append(hist, v) /\ UNCHANGED <<pc, first, second>>

Next == Read1 \/ Read2 \/ Send \/ \E v \in KeyVals : Keeper(v)
Spec == Init /\ [][Next]_vars

Signed == first # "nokey" /\ second # "nokey"
\* C10: a request is signed entirely with one key or not at all
KeyPairing == (pc = "done" /\ Signed) => first = second
Emit == pc = "done" => PrintT(<<"SCHED", ToJson([hist |-> hist, signed |-> Signed, first |-> first, second |-> second])>>)
=============================================================================
