------------------------------- MODULE Health -------------------------------
(***************************************************************************)
(* C20 — hysteresis of the VM extension's health report.                   *)
(*                                                                         *)
(* Implementation-shaped automaton of StatusState::update_state            *)
(* (proxy_agent_extension/src/common.rs) with its saturating counters,     *)
(* next to ghost run-lengths (gF, gS) that count the *true* number of      *)
(* consecutive failed / successful observations (capped at GhostCap, which *)
(* is above every constant the properties mention and above the counters'  *)
(* saturation point, so the cap loses nothing the properties can see).     *)
(* The properties are stated on the ghosts and the report only.            *)
(***************************************************************************)
EXTENDS Naturals, TLC

CONSTANTS Threshold,   \* 20   failed observations before Error
          MaxCount,    \* 10000 saturation point of both counters
          GhostCap     \* > MaxCount

VARIABLES st,      \* the report: "success" | "transitioning" | "error"
          fc, sc,  \* consecutive_fail_count, consecutive_success_count (saturating)
          gF, gS,  \* ghost: true run lengths (capped at GhostCap)
          last     \* ghost: last observation "none" | "ok" | "fail"

vars == <<st, fc, sc, gF, gS, last>>

Min(a, b) == IF a < b THEN a ELSE b

Init == /\ st = "transitioning" /\ fc = 0 /\ sc = 0
        /\ gF = 0 /\ gS = 0 /\ last = "none"

\* The next report as update_state computes it from the *updated* counters.
NextReport(s, f, c) ==
  CASE s = "success"       -> IF f >= 1 THEN "transitioning" ELSE s
    [] s = "transitioning" -> IF c >= 1 THEN "success"
                              ELSE IF f >= Threshold THEN "error" ELSE s
    [] s = "error"         -> IF c >= 1 THEN "transitioning" ELSE s
    [] OTHER               -> "transitioning"

\* ghost bookkeeping, shared with the trace specification (trace/HealthTrace.tla)
GhostStep(ok) ==
     /\ gF' = IF ok THEN 0 ELSE Min(gF + 1, GhostCap)
     /\ gS' = IF ok THEN Min(gS + 1, GhostCap) ELSE 0
     /\ last' = IF ok THEN "ok" ELSE "fail"

Observe(ok) ==
  LET f1 == IF ok THEN 0 ELSE IF fc < MaxCount THEN fc + 1 ELSE fc
      c1 == IF ok THEN (IF sc < MaxCount THEN sc + 1 ELSE sc) ELSE 0
  IN /\ fc' = f1 /\ sc' = c1
     /\ st' = NextReport(st, f1, c1)
     /\ GhostStep(ok)

ObserveOk   == Observe(TRUE)
ObserveFail == Observe(FALSE)
Next == ObserveOk \/ ObserveFail
Spec == Init /\ [][Next]_vars

-----------------------------------------------------------------------------
\* Properties, from the statement of C20 (ghosts and report only).

TypeOK == /\ st \in {"success", "transitioning", "error"}
          /\ fc \in 0..MaxCount /\ sc \in 0..MaxCount

\* Error only after at least Threshold consecutive failed observations ...
ErrorOnlyAfterSustainedFailure == st = "error" => gF >= Threshold
\* ... never directly after a success
NeverErrorAfterSuccess == last = "ok" => st # "error"
\* a single successful observation always moves the report away from Error (same as above, as a step property)
SuccessLeavesError == [][ObserveOk => st' # "error"]_vars
\* two consecutive successes always yield Success
TwoSuccessesGiveSuccess == gS >= 2 => st = "success"
\* No wedge: sustained failure is always reported, whatever happened before (including saturated counters):
\* after Threshold + 1 consecutive failures the report is Error (the +1 covers a run that starts in "success",
\* whose first failure only moves the report to "transitioning" -- it then still needs fc >= Threshold, which
\* the same run provides; see NoWedgeExact for the exact count)
NoWedge == gF >= Threshold + 1 => st = "error"
\* the counters are the ghosts, saturated
CountersTrackGhosts == fc = Min(gF, MaxCount) /\ sc = Min(gS, MaxCount)
=============================================================================
