-------------------------------- MODULE Canon --------------------------------
(***************************************************************************)
(* C04 — the string that is signed, as a function of the request the host  *)
(* receives.  Strings are sequences of byte values (TLC has no order on     *)
(* strings), so the result is the exact byte string to MAC.                 *)
(*                                                                         *)
(*   StringToSign = Method LF Body LF CanonicalizedHeaders Path LF Params   *)
(*   CanonicalizedHeaders: EVERY header received except the authorization   *)
(*     header, ordered by lower-cased name (equal names keep arrival order),*)
(*     each rendered  lower(name) ":" trim(value) LF                        *)
(*   Params: EVERY query parameter with a non-empty key, key lower-cased,   *)
(*     ordered, rendered key "=" value (key alone when the value is empty), *)
(*     joined with "&".  The statement does not fix the order; the scheme's *)
(*     comment says "by parameter name and value" (order "kv"); the code    *)
(*     orders by the concatenation key ++ value (order "concat").  Both     *)
(*     cover every parameter and are accepted by the check.                 *)
(*                                                                         *)
(* Request == [method: bytes, path: bytes, query: Seq([k, v]),              *)
(*             headers: Seq([n, v]), body: bytes]                           *)
(***************************************************************************)
EXTENDS Naturals, Sequences, SequencesExt, FiniteSets, TLC

LF == 10
COLON == 58
EQ == 61
AMP == 38

LowerB(b) == IF b >= 65 /\ b <= 90 THEN b + 32 ELSE b
LowerS(s) == [i \in 1..Len(s) |-> LowerB(s[i])]
IsBlank(b) == b = 32 \/ b = 9

RECURSIVE TrimL(_), TrimR(_)
TrimL(s) == IF s # <<>> /\ IsBlank(Head(s)) THEN TrimL(Tail(s)) ELSE s
TrimR(s) == IF s # <<>> /\ IsBlank(s[Len(s)]) THEN TrimR(SubSeq(s, 1, Len(s) - 1)) ELSE s
Trim(s) == TrimR(TrimL(s))

\* lexicographic order on byte strings
RECURSIVE Less(_, _)
Less(a, b) == IF a = <<>> THEN b # <<>>
              ELSE IF b = <<>> THEN FALSE
              ELSE IF Head(a) # Head(b) THEN Head(a) < Head(b)
              ELSE Less(Tail(a), Tail(b))
Leq(a, b) == a = b \/ Less(a, b)

\* stable insertion sort of a sequence of records [key, item] by key
RECURSIVE InsertRec(_, _), SortRecs(_)
InsertRec(x, s) == IF s = <<>> THEN <<x>>
                   ELSE IF Less(x.key, Head(s).key) THEN <<x>> \o s
                   ELSE <<Head(s)>> \o InsertRec(x, Tail(s))
SortRecs(s) == IF s = <<>> THEN <<>> ELSE InsertRec(s[Len(s)], SortRecs(SubSeq(s, 1, Len(s) - 1)))
\* (inserting the last element after its equals keeps arrival order among equal keys)
Items(s) == [i \in 1..Len(s) |-> s[i].item]

AuthName == <<120,45,109,115,45,97,122,117,114,101,45,104,111,115,116,45,97,117,116,104,111,114,105,122,97,116,105,111,110>>

RECURSIVE Concat(_)
Concat(ss) == IF ss = <<>> THEN <<>> ELSE Head(ss) \o Concat(Tail(ss))

HeaderLine(h) == LowerS(h.n) \o <<COLON>> \o Trim(h.v) \o <<LF>>
NameKey(h) == LowerS(h.n)
CanonHeaders(hs) ==
  LET kept == SelectSeq(hs, LAMBDA h : LowerS(h.n) # AuthName)
      sorted == Items(SortRecs([i \in 1..Len(kept) |-> [key |-> NameKey(kept[i]), item |-> kept[i]]]))
  IN Concat([i \in 1..Len(sorted) |-> HeaderLine(sorted[i])])

KvKey(p) == LowerS(p.k) \o <<0>> \o p.v            \* (key, value): 0 sorts before every byte of a key
ConcatKey(p) == LowerS(p.k) \o p.v
Param(p) == IF p.v = <<>> THEN LowerS(p.k) ELSE LowerS(p.k) \o <<EQ>> \o p.v
RECURSIVE Join(_)
Join(ps) == IF ps = <<>> THEN <<>> ELSE IF Len(ps) = 1 THEN Param(ps[1]) ELSE Param(ps[1]) \o <<AMP>> \o Join(Tail(ps))
CanonParams(q, order) ==
  LET kept == SelectSeq(q, LAMBDA p : p.k # <<>>)
      bykv == Items(SortRecs([i \in 1..Len(kept) |-> [key |-> KvKey(kept[i]), item |-> kept[i]]]))
      \* "concat": by key ++ value, equal concatenations (a=b / ab) in (key, value) order -- stable second pass
      sorted == IF order = "kv" THEN bykv
                ELSE Items(SortRecs([i \in 1..Len(bykv) |-> [key |-> ConcatKey(bykv[i]), item |-> bykv[i]]]))
  IN Join(sorted)

StringToSign(r, order) ==
  r.method \o <<LF>> \o r.body \o <<LF>> \o CanonHeaders(r.headers) \o r.path \o <<LF>> \o CanonParams(r.query, order)
=============================================================================
