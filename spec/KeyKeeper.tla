------------------------------ MODULE KeyKeeper ------------------------------
(***************************************************************************)
(* Negotiating a key with the host and following its secure-channel status *)
(* (C08, C09; the histories of C12).                                       *)
(*                                                                         *)
(* One action per host call or file-system call of                         *)
(* key_keeper.rs::poll_secure_channel_status / loop_poll, in the order of  *)
(* the code; the environment is the host (status document, key issue,      *)
(* attestation = latch, failures at each step), the process being killed   *)
(* at any instant (Crash is enabled in EVERY control state; the key store  *)
(* and the host survive, everything else is lost) and damage to a local    *)
(* key file while the agent is down.                                       *)
(*                                                                         *)
(* The statements are written twice: as operators over explicit arguments  *)
(* (C09_*, C08_* ...On) so that the property-level trace specifications in *)
(* spec/trace evaluate exactly the same text on recorded executions, and   *)
(* as invariants/properties of this design.                                *)
(***************************************************************************)
EXTENDS Naturals, FiniteSets, Sequences, TLC

CONSTANTS
  Guids,               \* guids of the keys the host may issue
  RuleIds,             \* ids of rule documents (per endpoint); "" may be included (corner)
  Contents,            \* versions of what a rule document lists (privileges, identities, assignments) under one id and mode
  Versions,            \* subset of {"1.0", "2.0"}
  ModeOf(_),           \* mode of the rule document with a given id (used when IdsIdentifyContent)
  IdsIdentifyContent,  \* TRUE: the host changes the id whenever the content (here: the mode) of a document changes
  RulesKey,            \* when an endpoint's rules are replaced: "id" -- only when the rule id changes (the design before the
                       \* repair); "idmode" -- also when the mode under the same id changes; "item" -- whenever the stored
                       \* item differs from the one in the document (same id with another mode or other content, an item
                       \* with the empty id, an item with the empty id that was removed)
  IncOf(_),            \* incarnation number the host gives the key with a guid (0: none)
  StatusInc,           \* incarnation number the status document carries for the latched key (0: none); the host may state it
                       \* in the status document, in the key document, in both, or number them differently
  SearchOnlyWhenEmpty, \* TRUE: a design variant that looks for the named key in the local store only while no key is in memory
  HostSpellsOddly,     \* TRUE: the host writes its guids in a legal spelling other than lower case with hyphens
  FetchCanonicalises,  \* TRUE: a design variant whose look-up of the local key rewrites the guid to the canonical
                       \* spelling while the store keeps the host's spelling
  PrunesOnStart,       \* TRUE: a design variant that, at start-up, removes key files beyond the MaxKept "most recent" ones
  MaxKept,             \* (which files count as most recent is the clock's business, i.e. the environment's)
  LocalNeedsIncarnationMatch, \* TRUE: a design variant that uses a local key file only if its incarnation equals StatusInc
  KeepHigherIncarnation, \* TRUE: a design variant in which the key in memory is not replaced by one of a lower incarnation
  ReuseUnattested,     \* TRUE: a design variant that keeps an acquired, not yet attested key across polls and goes
                       \* straight to the attestation with it on the next poll (no store, no read-back again)
  ReadBackFailOpen,    \* TRUE: a design variant whose read-back gives up after failed attempts and reports success
  StateEarly,          \* TRUE: a design variant that stores the reported state before the key step of a poll
  InitScenarios,       \* subset of {"fresh", "haskey", "unreadable", "rotated"}
  InitDocs,            \* status documents the host may start with
  MaxReconf, MaxFaults, MaxCrash, MaxDamage, MaxNotify,
  FsFaults,            \* TRUE: creating the temporary key file may fail
  AcquireMayRepeat     \* TRUE: the host may hand out a guid it issued before (same key)

VARIABLES
  host,    \* [doc, named, latched, issued]
  fs,      \* [dir, final : Guids -> FileSt, tmp : Guids -> FileSt]
  pc,      \* control state of the poll loop ("Dead": no process)
  loc,     \* locals of one iteration: [status : [doc, named], key, rulesChanged, changed]
  mem,     \* key-keeper actor: [key, state, ruleId : Eps -> id, rules : Eps -> item]
  policy,  \* last redirect-policy update per endpoint: "unset" | "on" | "off"
  act,     \* the action that led here: [a, o, g]   (for action-level properties and binding)
  gh       \* ghosts: [faults, reconfs, crashes, damages, notifies, damaged, clean, readback]

vars == <<host, fs, pc, loc, mem, policy, act, gh>>

Eps == {"ws", "imds", "ga"}
Modes == {"disabled", "audit", "enforce"}
Foreign == "gx"                      \* a guid this guest never held and cannot be given
NoItem == [id |-> "", mode |-> "-", c |-> "-"]  \* no rule document for an endpoint (the code's rule id is then "")
C1 == CHOOSE x \in Contents : TRUE
Items == IF IdsIdentifyContent THEN {[id |-> r, mode |-> ModeOf(r), c |-> C1] : r \in RuleIds}
         ELSE [id : RuleIds, mode : Modes, c : Contents]
ItemMode(it) == IF it = NoItem THEN "disabled" ELSE it.mode
NoRules == [e \in Eps |-> NoItem]

V1Chans == {"disabled", "wireserver", "wireserverandimds"}
V2Chans == {"disabled", "enabled"}
WellFormedDoc(d) ==
  /\ d.ver \in {"1.0", "2.0"}
  /\ (d.ver = "1.0" => d.chan \in V1Chans)
  /\ (d.ver = "2.0" => d.chan \in V2Chans)
  /\ d.hasRules \in BOOLEAN
  /\ d.rules \in [Eps -> Items \cup {NoItem}]
  /\ (~d.hasRules => d.rules = NoRules)

\* ---- what a status document says (key.rs: get_secure_channel_state, get_*_mode) -------------------
St(k, w, i) == [k |-> k, ws |-> w, imds |-> i]
UnknownState == St("Unknown", "-", "-")
DisabledState == St("disabled", "-", "-")
StateOf(d) ==
  IF d.ver = "2.0"
  THEN IF d.chan = "enabled" /\ d.hasRules
       THEN St("v2", ItemMode(d.rules["ws"]), ItemMode(d.rules["imds"]))
       ELSE DisabledState
  ELSE St(d.chan, "-", "-")
IsDisabled(st) == st.k = "disabled"
Mode(d, ep) ==
  IF d.ver = "2.0"
  THEN IF ep = "imds" THEN ItemMode(d.rules["imds"]) ELSE ItemMode(d.rules["ws"])    \* HostGA follows WireServer
  ELSE IF ep = "imds" THEN (IF d.chan = "wireserverandimds" THEN "enforce" ELSE "audit")
       ELSE (IF d.chan \in {"wireserver", "wireserverandimds"} THEN "enforce" ELSE "audit")
Intercept(d, ep) == IF Mode(d, ep) # "disabled" THEN "on" ELSE "off"

\* ---- the statements over explicit arguments (shared with spec/trace) ------------------------------
\* C09: after a clean poll of document d (host names `latched` as the attested key)
C09_RulesOn(m, d) == \A e \in Eps : m.rules[e] = d.rules[e]
C09_KeyOn(m, d, latched) ==
  IF IsDisabled(StateOf(d)) THEN m.key = "none" ELSE (latched # "none" /\ m.key = latched)
C09_StateOn(m, d) == m.state = StateOf(d)
C09_PolicyOn(pol, changed, d) == changed => \A e \in Eps : pol[e] = Intercept(d, e)
\* the interception in force (last update per endpoint) is the one prescribed for the reported state in force.  The
\* modes are a function of every state but "disabled" (documents that report the channel disabled may differ in them,
\* and the statement ties the policy to the changes of the state): there it must at least have been applied
C09_PolicyInForceOn(pol, d) ==
  IF IsDisabled(StateOf(d)) THEN \A e \in Eps : pol[e] # "unset"
  ELSE \A e \in Eps : pol[e] = Intercept(d, e)
\* C08
FileIn(f, g) == IF g \in DOMAIN f.final THEN f.final[g] ELSE "none"
C08_LatchedIsRecoverableOn(f, latched, damaged) ==
  (latched # "none" /\ latched \notin damaged) => FileIn(f, latched) = "key"
C08_NoCorruptFinalNameOn(f, damaged) ==
  \A g \in DOMAIN f.final : f.final[g] \in {"none", "key"} \/ g \in damaged

\* ---- initial states -----------------------------------------------------------------------------
G1 == CHOOSE g \in Guids : TRUE
NoFiles == [g \in Guids |-> "none"]
MemInit == [key |-> "none", state |-> UnknownState, ruleId |-> [e \in Eps |-> ""], rules |-> NoRules,
            pending |-> "none"]     \* pending: loop-local across polls, used only by the ReuseUnattested variant
DummyDoc == [ver |-> "1.0", chan |-> "disabled", hasRules |-> FALSE, rules |-> NoRules]
LocInit == [status |-> [doc |-> DummyDoc, named |-> "none"], key |-> "none", rulesChanged |-> FALSE, changed |-> FALSE]
PolicyInit == [e \in Eps |-> "unset"]
GhInit == [faults |-> 0, reconfs |-> 0, crashes |-> 0, damages |-> 0, notifies |-> 0,
           damaged |-> {}, clean |-> FALSE, readback |-> {}]
NoAct == [a |-> "Init", o |-> "-", g |-> "none"]

ScenarioInit(sc, d) ==
  /\ host = CASE sc = "fresh"      -> [doc |-> d, named |-> "none", latched |-> "none", issued |-> {}]
              [] sc = "haskey"     -> [doc |-> d, named |-> G1, latched |-> G1, issued |-> {G1}]
              [] sc = "unreadable" -> [doc |-> d, named |-> G1, latched |-> G1, issued |-> {G1}]
              [] sc = "rotated"    -> [doc |-> d, named |-> Foreign, latched |-> "none", issued |-> {G1}]
  /\ fs = CASE sc = "fresh"      -> [dir |-> "absent", final |-> NoFiles, tmp |-> NoFiles]
            [] sc = "haskey"     -> [dir |-> "acled", final |-> [NoFiles EXCEPT ![G1] = "key"], tmp |-> NoFiles]
            [] sc = "unreadable" -> [dir |-> "acled", final |-> [NoFiles EXCEPT ![G1] = "corrupt"], tmp |-> NoFiles]
            [] sc = "rotated"    -> [dir |-> "acled", final |-> [NoFiles EXCEPT ![G1] = "key"], tmp |-> NoFiles]
  /\ gh = [GhInit EXCEPT !.damaged = IF sc = "unreadable" THEN {G1} ELSE {}]

Init ==
  /\ \E sc \in InitScenarios, d \in InitDocs : ScenarioInit(sc, d)
  /\ pc = "MkKeyDir" /\ loc = LocInit /\ mem = MemInit /\ policy = PolicyInit /\ act = NoAct

\* ---- helpers -------------------------------------------------------------------------------------
Did(a, o, g) == act' = [a |-> a, o |-> o, g |-> g]
Fault == gh.faults < MaxFaults
Faulted == gh' = [gh EXCEPT !.faults = @ + 1, !.clean = FALSE]
Status == loc.status
RuleIdPc == [ws |-> "RuleId_ws", imds |-> "RuleId_imds", ga |-> "RuleId_ga"]
SetRulesPc == [ws |-> "SetRules_ws", imds |-> "SetRules_imds", ga |-> "SetRules_ga"]
PolicyPc == [ws |-> "Policy_ws", imds |-> "Policy_imds", ga |-> "Policy_ga"]
AfterRules(ep, changed) ==
  CASE ep = "ws" -> "RuleId_imds" [] ep = "imds" -> "RuleId_ga"
    [] ep = "ga" -> IF changed THEN "DumpRules" ELSE "NeedKey"

\* the key the actor holds after being told to use g
Published(g) ==
  IF KeepHigherIncarnation /\ mem.key # "none" /\ IncOf(g) # 0 /\ IncOf(mem.key) # 0 /\ IncOf(g) < IncOf(mem.key)
  THEN mem.key ELSE g

\* ---- the poll loop ---------------------------------------------------------------------------------
MkKeyDir ==
  /\ pc = "MkKeyDir"
  /\ fs' = [fs EXCEPT !.dir = IF @ = "absent" THEN "created" ELSE @]
  /\ pc' = "AclKeyDir" /\ Did("MkKeyDir", "-", "none")
  /\ UNCHANGED <<host, loc, mem, policy, gh>>

AclKeyDir ==
  /\ pc = "AclKeyDir"
  /\ fs' = [fs EXCEPT !.dir = "acled"]
  /\ pc' = (IF PrunesOnStart THEN "Prune" ELSE "GetStatus") /\ Did("AclKeyDir", "-", "none")
  /\ UNCHANGED <<host, loc, mem, policy, gh>>

Prune ==         \* (variant) start-up housekeeping of the key directory
  /\ pc = "Prune"
  /\ IF Cardinality({g \in Guids : fs.final[g] # "none"}) > MaxKept
     THEN \E g \in Guids : fs.final[g] # "none" /\ fs' = [fs EXCEPT !.final[g] = "none"] /\ Did("Prune", "-", g)
     ELSE UNCHANGED fs /\ Did("Prune", "-", "none")
  /\ pc' = "GetStatus"
  /\ UNCHANGED <<host, loc, mem, policy, gh>>

\* GET /secure-channel/status.  fail: no 2xx answer; invalid: 2xx with a body that is not a valid document
GetStatus(o) ==
  /\ pc = "GetStatus"
  /\ \/ /\ o = "ok"
        /\ loc' = [LocInit EXCEPT !.status = [doc |-> host.doc, named |-> host.named]]
        /\ pc' = "RuleId_ws"
        /\ gh' = [gh EXCEPT !.clean = TRUE]
     \/ /\ o \in {"fail", "invalid"} /\ Fault /\ Faulted
        /\ pc' = "Sleep" /\ loc' = LocInit
  /\ Did("GetStatus", o, "none")
  /\ UNCHANGED <<host, fs, mem, policy>>

UpdRuleId(ep) ==
  /\ pc = RuleIdPc[ep]
  /\ LET id == Status.doc.rules[ep].id IN
       IF mem.ruleId[ep] # id
          \/ (RulesKey = "item" /\ mem.rules[ep] # Status.doc.rules[ep])
          \/ (RulesKey = "idmode" /\ (mem.rules[ep].id # id \/ mem.rules[ep].mode # Status.doc.rules[ep].mode))
       THEN mem' = [mem EXCEPT !.ruleId[ep] = id] /\ pc' = SetRulesPc[ep] /\ UNCHANGED loc
       ELSE pc' = AfterRules(ep, loc.rulesChanged) /\ UNCHANGED <<mem, loc>>
  /\ Did("UpdRuleId", ep, "none")
  /\ UNCHANGED <<host, fs, policy, gh>>

SetRules(ep) ==
  /\ pc = SetRulesPc[ep]
  /\ mem' = [mem EXCEPT !.rules[ep] = Status.doc.rules[ep]]
  /\ loc' = [loc EXCEPT !.rulesChanged = TRUE]
  /\ pc' = AfterRules(ep, TRUE) /\ Did("SetRules", ep, "none")
  /\ UNCHANGED <<host, fs, policy, gh>>

DumpRules ==     \* the rule documents are written to the log directory
  /\ pc = "DumpRules" /\ pc' = "NeedKey" /\ Did("DumpRules", "-", "none")
  /\ UNCHANGED <<host, fs, loc, mem, policy, gh>>

NeedKey ==
  /\ pc = "NeedKey"
  /\ LET st == StateOf(Status.doc)
         ng == Status.named IN
       pc' = IF ~IsDisabled(st) /\ (ng = "none" \/ ng # mem.key)
             THEN (IF ng # "none" /\ (SearchOnlyWhenEmpty => mem.key = "none") THEN "FetchLocal" ELSE "Acquire")
             ELSE "UpdChannelState"
  /\ IF StateEarly
     THEN /\ mem' = [mem EXCEPT !.state = StateOf(Status.doc)]
          /\ loc' = [loc EXCEPT !.changed = (mem.state # StateOf(Status.doc))]
     ELSE UNCHANGED <<mem, loc>>
  /\ Did("NeedKey", "-", "none")
  /\ UNCHANGED <<host, fs, policy, gh>>

FetchLocal ==    \* look for <named guid>.key in the key directory, read and parse it
  /\ pc = "FetchLocal"
  /\ IF /\ FileIn(fs, Status.named) = "key" /\ (LocalNeedsIncarnationMatch => IncOf(Status.named) = StatusInc)
        /\ ~(FetchCanonicalises /\ HostSpellsOddly)
     THEN loc' = [loc EXCEPT !.key = Status.named] /\ pc' = "UpdateKeyLocal" /\ Did("FetchLocal", "ok", Status.named)
     ELSE pc' = "Acquire" /\ UNCHANGED loc /\ Did("FetchLocal", "absent", Status.named)
  /\ UNCHANGED <<host, fs, mem, policy, gh>>

UpdateKeyLocal ==
  /\ pc = "UpdateKeyLocal"
  /\ mem' = [mem EXCEPT !.key = Published(loc.key), !.pending = "none"]
  /\ pc' = "UpdChannelState" /\ Did("UpdateKeyMem", "local", loc.key)
  /\ UNCHANGED <<host, fs, loc, policy, gh>>

\* POST /secure-channel/key
Acquire(o, g) ==
  /\ pc = "Acquire"
  /\ \/ /\ o = "ok" /\ g \in Guids /\ (AcquireMayRepeat \/ g \notin host.issued)
        /\ host' = [host EXCEPT !.issued = @ \cup {g}]
        /\ loc' = [loc EXCEPT !.key = g]
        /\ gh' = [gh EXCEPT !.readback = @ \ {g}]
        /\ mem' = IF ReuseUnattested THEN [mem EXCEPT !.pending = g] ELSE mem
        /\ pc' = "StoreCreateTmp"
     \/ /\ o \in {"err", "malformed"} /\ g = "none" /\ Fault /\ Faulted
        /\ pc' = "Sleep" /\ UNCHANGED <<host, loc, mem>>
  /\ (ReuseUnattested => mem.pending = "none")
  /\ Did("Acquire", o, g)
  /\ UNCHANGED <<fs, policy>>

ReusePending ==  \* (variant) the key acquired on an earlier poll is taken instead of a new one; "it went to the disk then"
  /\ pc = "Acquire" /\ ReuseUnattested /\ mem.pending # "none"
  /\ loc' = [loc EXCEPT !.key = mem.pending]
  /\ pc' = "Attest" /\ Did("ReusePending", "-", mem.pending)
  /\ UNCHANGED <<host, fs, mem, policy, gh>>

\* json_write_to_file: create <guid>.tmp, write the body, rename onto <guid>.key
StoreCreateTmp(o) ==
  /\ pc = "StoreCreateTmp"
  /\ \/ /\ o = "ok" /\ fs' = [fs EXCEPT !.tmp[loc.key] = "partial"] /\ pc' = "StoreWriteTmp" /\ UNCHANGED gh
     \/ /\ o = "err" /\ FsFaults /\ Fault /\ Faulted /\ pc' = "Sleep" /\ UNCHANGED fs
  /\ Did("StoreCreateTmp", o, loc.key)
  /\ UNCHANGED <<host, loc, mem, policy>>

StoreWriteTmp(o) ==
  /\ pc = "StoreWriteTmp"
  /\ \/ /\ o = "ok" /\ fs' = [fs EXCEPT !.tmp[loc.key] = "key"] /\ pc' = "StoreRename" /\ UNCHANGED gh
     \/ /\ o = "err" /\ FsFaults /\ Fault /\ Faulted /\ pc' = "Sleep" /\ UNCHANGED fs     \* the temporary file stays partial
  /\ Did("StoreWriteTmp", o, loc.key)
  /\ UNCHANGED <<host, loc, mem, policy>>

StoreRename(o) ==
  /\ pc = "StoreRename"
  /\ \/ /\ o = "ok"
        /\ fs' = [fs EXCEPT !.final[loc.key] = fs.tmp[loc.key], !.tmp[loc.key] = "none"]
        /\ gh' = [gh EXCEPT !.damaged = @ \ {loc.key}]
        /\ pc' = "ReadBack"
     \/ /\ o = "err" /\ FsFaults /\ Fault /\ Faulted /\ pc' = "Sleep" /\ UNCHANGED fs
  /\ Did("StoreRename", o, loc.key)
  /\ UNCHANGED <<host, loc, mem, policy>>

\* check_key: read <guid>.key again and compare guid and key value.  fail: the file cannot be read this time
ReadBack(o) ==
  /\ pc = "ReadBack"
  /\ \/ /\ o = "ok"
        /\ IF fs.final[loc.key] = "key"
           THEN gh' = [gh EXCEPT !.readback = @ \cup {loc.key}] /\ pc' = "Attest" /\ Did("ReadBack", "ok", loc.key)
           ELSE gh' = [gh EXCEPT !.clean = FALSE] /\ pc' = "Sleep" /\ Did("ReadBack", "mismatch", loc.key)
     \/ /\ o = "fail" /\ FsFaults /\ Fault /\ Faulted /\ Did("ReadBack", "fail", loc.key)
        /\ pc' = IF ReadBackFailOpen THEN "Attest" ELSE "Sleep"
  /\ UNCHANGED <<host, fs, loc, mem, policy>>

\* POST /secure-channel/key/{guid}/key-attestation.  ok: the host latches and says so; lost: the host latches
\* and the answer never arrives; err: the host refuses or is not reached
Attest(o) ==
  /\ pc = "Attest"
  /\ \/ /\ o = "ok" /\ host' = [host EXCEPT !.latched = loc.key, !.named = loc.key]
        /\ pc' = "UpdateKeyMem" /\ UNCHANGED gh
     \/ /\ o = "lost" /\ Fault /\ Faulted /\ host' = [host EXCEPT !.latched = loc.key, !.named = loc.key]
        /\ pc' = "Sleep"
     \/ /\ o = "err" /\ Fault /\ Faulted /\ pc' = "Sleep" /\ UNCHANGED host
  /\ Did("Attest", o, loc.key)
  /\ UNCHANGED <<fs, loc, mem, policy>>

UpdateKeyMem ==
  /\ pc = "UpdateKeyMem"
  /\ mem' = [mem EXCEPT !.key = Published(loc.key), !.pending = "none"]
  /\ pc' = "UpdChannelState" /\ Did("UpdateKeyMem", "attested", loc.key)
  /\ UNCHANGED <<host, fs, loc, policy, gh>>

UpdChannelState ==
  /\ pc = "UpdChannelState"
  /\ LET st == StateOf(Status.doc) IN
       IF StateEarly
       THEN pc' = (IF loc.changed THEN "Policy_ws" ELSE "Sleep") /\ UNCHANGED <<mem, loc>>
       ELSE IF mem.state # st
            THEN mem' = [mem EXCEPT !.state = st] /\ loc' = [loc EXCEPT !.changed = TRUE] /\ pc' = "Policy_ws"
            ELSE pc' = "Sleep" /\ UNCHANGED <<mem, loc>>
  /\ Did("UpdChannelState", "-", "none")
  /\ UNCHANGED <<host, fs, policy, gh>>

UpdPolicy(ep) ==
  /\ pc = PolicyPc[ep]
  /\ policy' = [policy EXCEPT ![ep] = Intercept(Status.doc, ep)]
  /\ pc' = CASE ep = "ws" -> "Policy_imds" [] ep = "imds" -> "Policy_ga"
             [] ep = "ga" -> IF IsDisabled(StateOf(Status.doc)) THEN "ClearKey" ELSE "Sleep"
  /\ Did("UpdPolicy", ep, "none")
  /\ UNCHANGED <<host, fs, loc, mem, gh>>

ClearKey ==
  /\ pc = "ClearKey"
  /\ mem' = [mem EXCEPT !.key = "none"]
  /\ pc' = "Sleep" /\ Did("ClearKey", "-", "none")
  /\ UNCHANGED <<host, fs, loc, policy, gh>>

\* the wait between two polls (1 s while the state is unknown, the configured interval otherwise); a
\* notification during the wait resets the state to unknown when it is unknown or disabled
Sleep(notified) ==
  /\ pc = "Sleep"
  /\ IF notified
     THEN /\ gh.notifies < MaxNotify
          /\ gh' = [gh EXCEPT !.notifies = @ + 1, !.clean = FALSE]
          /\ mem' = IF mem.state.k \in {"disabled", "Unknown"} THEN [mem EXCEPT !.state = UnknownState] ELSE mem
     ELSE UNCHANGED <<mem, gh>>
  /\ pc' = "GetStatus" /\ Did("Sleep", IF notified THEN "notified" ELSE "-", "none")
  /\ UNCHANGED <<host, fs, loc, policy>>

AgentInternal ==
  \/ MkKeyDir \/ AclKeyDir \/ Prune \/ DumpRules \/ NeedKey \/ FetchLocal \/ UpdateKeyLocal
  \/ ReusePending \/ UpdateKeyMem \/ UpdChannelState \/ ClearKey
  \/ \E ep \in Eps : UpdRuleId(ep) \/ SetRules(ep) \/ UpdPolicy(ep)

AgentOk ==       \* the agent's steps when nothing fails (used for fairness)
  \/ AgentInternal \/ GetStatus("ok") \/ (\E g \in Guids : Acquire("ok", g)) \/ StoreCreateTmp("ok")
  \/ StoreWriteTmp("ok") \/ StoreRename("ok") \/ ReadBack("ok")
  \/ Attest("ok") \/ Sleep(FALSE)

\* ---- the environment -------------------------------------------------------------------------------
\* one aspect of the status document changes
NextDocs(d) ==
  {x \in
     {[d EXCEPT !.chan = c] : c \in (IF d.ver = "1.0" THEN V1Chans ELSE V2Chans)}
     \cup {[d EXCEPT !.ver = v, !.chan = c] : v \in Versions \ {d.ver},
             c \in IF d.chan = "disabled" THEN {"disabled"}
                   ELSE IF d.ver = "1.0" THEN {"enabled"} ELSE {"wireserver", "wireserverandimds"}}
     \cup {[d EXCEPT !.hasRules = ~d.hasRules, !.rules = NoRules]}
     \cup (IF d.hasRules THEN {[d EXCEPT !.rules[e] = it] : e \in Eps, it \in Items \cup {NoItem}} ELSE {})
   : x # d}

\* the host moves between two of its answers (not between two steps of the agent that do not involve it:
\* those commute with the host)
HostTurn == pc \in {"GetStatus", "Acquire", "Attest"}

Reconfigure ==
  /\ HostTurn /\ gh.reconfs < MaxReconf
  /\ \E d \in NextDocs(host.doc) : host' = [host EXCEPT !.doc = d]
  /\ gh' = [gh EXCEPT !.reconfs = @ + 1, !.clean = FALSE]
  /\ Did("Reconfigure", "-", "none")
  /\ UNCHANGED <<fs, pc, loc, mem, policy>>

\* the host forgets the latch: it names no key, or a key this guest does not hold
Rotate ==
  /\ HostTurn /\ gh.reconfs < MaxReconf
  /\ \E n \in {"none", Foreign} : n # host.named /\ host' = [host EXCEPT !.named = n, !.latched = "none"]
  /\ gh' = [gh EXCEPT !.reconfs = @ + 1, !.clean = FALSE]
  /\ Did("Rotate", "-", "none")
  /\ UNCHANGED <<fs, pc, loc, mem, policy>>

\* the host goes back to a key it issued earlier and the guest still holds
Relatch ==
  /\ HostTurn /\ gh.reconfs < MaxReconf
  /\ \E g \in host.issued : /\ g # host.latched /\ fs.final[g] = "key" /\ g \notin gh.damaged
                             /\ host' = [host EXCEPT !.named = g, !.latched = g]
                             /\ Did("Relatch", "-", g)
  /\ gh' = [gh EXCEPT !.reconfs = @ + 1, !.clean = FALSE]
  /\ UNCHANGED <<fs, pc, loc, mem, policy>>

\* the process dies at any instant: volatile state is lost, the key store and the host are kept
Crash ==
  /\ pc # "Dead" /\ gh.crashes < MaxCrash
  /\ pc' = "Dead" /\ mem' = MemInit /\ loc' = LocInit /\ policy' = PolicyInit
  /\ gh' = [gh EXCEPT !.crashes = @ + 1, !.clean = FALSE, !.readback = {}]
  /\ Did("Crash", pc, "none")
  /\ UNCHANGED <<host, fs>>

Damage ==        \* a stored key file becomes unreadable while the agent is down
  /\ pc = "Dead" /\ gh.damages < MaxDamage
  /\ \E g \in Guids : /\ fs.final[g] = "key"
                      /\ fs' = [fs EXCEPT !.final[g] = "corrupt"]
                      /\ gh' = [gh EXCEPT !.damages = @ + 1, !.damaged = @ \cup {g}]
                      /\ Did("Damage", "-", g)
  /\ UNCHANGED <<host, pc, loc, mem, policy>>

Restart ==
  /\ pc = "Dead" /\ pc' = "MkKeyDir" /\ Did("Restart", "-", "none")
  /\ UNCHANGED <<host, fs, loc, mem, policy, gh>>

Next ==
  \/ AgentInternal
  \/ \E o \in {"ok", "fail", "invalid"} : GetStatus(o)
  \/ \E o \in {"ok", "err", "malformed"}, g \in Guids \cup {"none"} : Acquire(o, g)
  \/ \E o \in {"ok", "err"} : StoreCreateTmp(o) \/ StoreWriteTmp(o) \/ StoreRename(o)
  \/ \E o \in {"ok", "fail"} : ReadBack(o)
  \/ \E o \in {"ok", "err", "lost"} : Attest(o)
  \/ \E n \in BOOLEAN : Sleep(n)
  \/ Reconfigure \/ Rotate \/ Relatch \/ Crash \/ Damage \/ Restart

Spec == Init /\ [][Next]_vars
FairSpec == Spec /\ WF_vars(AgentOk) /\ WF_vars(Restart)

\* ---- properties --------------------------------------------------------------------------------------
FileSt == {"none", "partial", "key", "corrupt"}
Pcs == {"Dead", "MkKeyDir", "AclKeyDir", "Prune", "GetStatus", "RuleId_ws", "RuleId_imds", "RuleId_ga", "SetRules_ws",
        "SetRules_imds", "SetRules_ga", "DumpRules", "NeedKey", "FetchLocal", "UpdateKeyLocal", "Acquire",
        "StoreCreateTmp", "StoreWriteTmp", "StoreRename", "ReadBack", "Attest", "UpdateKeyMem", "UpdChannelState",
        "Policy_ws", "Policy_imds", "Policy_ga", "ClearKey", "Sleep"}
TypeOK ==
  /\ WellFormedDoc(host.doc) /\ host.named \in Guids \cup {"none", Foreign} /\ host.latched \in Guids \cup {"none"}
  /\ host.issued \subseteq Guids
  /\ fs.dir \in {"absent", "created", "acled"} /\ fs.final \in [Guids -> FileSt] /\ fs.tmp \in [Guids -> FileSt]
  /\ pc \in Pcs
  /\ mem.key \in Guids \cup {"none"} /\ mem.rules \in [Eps -> Items \cup {NoItem}]
  /\ policy \in [Eps -> {"unset", "on", "off"}]

\* C08 ------------------------------------------------------------------------------------------------
\* a key the host regards as attested is present and complete in the key store (unless damaged from outside)
LatchedIsRecoverable == C08_LatchedIsRecoverableOn(fs, host.latched, gh.damaged)
\* no truncated or corrupt file under a key's final name (unless damaged from outside)
NoCorruptFinalName == C08_NoCorruptFinalNameOn(fs, gh.damaged)
\* the host is asked to latch a key only after the key was stored and read back identically by this process
AttestOnlyAfterStoreAndReadBack == act.a = "Attest" => act.g \in gh.readback
AttestStep == [][(host'.latched # host.latched /\ host'.latched # "none" /\ act'.a # "Relatch")
                    => host'.latched \in gh.readback]_vars
\* a good local copy of the key the host names is used; no new key is requested
RestartUsesLocal == pc = "Acquire" => (Status.named = "none" \/ FileIn(fs, Status.named) # "key")
\* temp-then-rename: a final name only ever receives a complete file
RenameOnlyComplete == [][\A g \in Guids : fs'.final[g] # fs.final[g] => (fs'.final[g] = "key" \/ act'.a = "Damage")]_vars

\* C09 ------------------------------------------------------------------------------------------------
\* at the end of a poll during which the host answered every request without error and did not change its
\* mind, the agent's state is a function of that answer
AtCleanSleep == pc = "Sleep" /\ gh.clean
Converged ==
  AtCleanSleep =>
    /\ C09_RulesOn(mem, host.doc)
    /\ C09_KeyOn(mem, host.doc, host.latched)
    /\ C09_StateOn(mem, host.doc)
    /\ C09_PolicyOn(policy, loc.changed, host.doc)
    /\ C09_PolicyInForceOn(policy, host.doc)
\* a poll whose status request fails or returns an invalid document changes nothing
FailedPollChangesNothing ==
  [][(pc = "GetStatus" /\ pc' = "Sleep") => UNCHANGED <<mem, fs, policy>>]_vars
\* while the channel is reported disabled and the agent has acted on it, it holds no key
NoKeyWhenDisabled == (pc = "Sleep" /\ IsDisabled(mem.state)) => mem.key = "none"

\* liveness: once the environment leaves the agent alone it settles on the host's view
Settled == pc = "Sleep" =>
             /\ C09_RulesOn(mem, host.doc) /\ C09_KeyOn(mem, host.doc, host.latched) /\ C09_StateOn(mem, host.doc)
             /\ C09_PolicyInForceOn(policy, host.doc)
EventuallySettled == <>[]Settled
EventuallyPolls == []<>(pc = "Sleep")
=============================================================================
