-------------------------------- MODULE Ebpf --------------------------------
(***************************************************************************)
(* C06 -- the kernel hook: cgroup/connect4 + kprobe(tcp_connect) and the   *)
(* four maps they share with the user-space agent.                         *)
(*                                                                         *)
(* The design that C06 requires, written to be bound step by step to       *)
(* /repo/linux-ebpf/ebpf_cgroup.c: one action per hook invocation          *)
(* (Connect4 = authorize_v4, TcpConnect = trace_v4), one per user-space    *)
(* map operation of the agent (PolicyAdd/PolicyRemove = update_redirect_   *)
(* policy, SkipAdd = update_skip_process_map, Release = remove_audit_map_  *)
(* entry: the proxy consumed the record of the connection it accepted).    *)
(* The end of a connection is a step of its own: EndUnconsumed = the       *)
(* connection on a source port ends (the client went away between its SYN  *)
(* and the proxy's accept, or nobody ever looks the port up) and the audit *)
(* map is NOT touched, so a record may outlive its connection (a leftover) *)
(* and the kernel may hand its source port to a later connect.  Threads    *)
(* interleave freely between the two hook points.  The maps are the        *)
(* program's: policy and skip (hash), localMap and auditMap (LRU, least    *)
(* recently used first, capacity K).                                       *)
(*                                                                         *)
(* Ghost variables (cur, truth, left) remember, per pending connect and    *)
(* per source port, what is *true* about the caller and the connection and *)
(* which map entries are leftovers (and what they truthfully said when     *)
(* they were written); the properties compare the maps and the rewritten   *)
(* address with them.                                                      *)
(*                                                                         *)
(* Environment assumptions (from the property's quantifier):               *)
(*  - Bounded: the LRU map never evicts a record that is still needed: a   *)
(*    connect is admitted only if, with every connect between the hooks    *)
(*    publishing a record, the entries the map would evict are leftovers   *)
(*    (at most K connections hooked or recorded-and-live; leftovers count  *)
(*    unless they are the least recently used entries);                    *)
(*  - a connect that passes the cgroup hook reaches tcp_connect (the       *)
(*    non-gating configuration mc/EbpfAbort.cfg lifts this, AllowAbort);   *)
(*  - the agent registers its pid while none of its threads is mid-connect;*)
(*  - a source port is reused only after its connection ended (Release or  *)
(*    EndUnconsumed) -- its record may still be in the map.                *)
(***************************************************************************)
EXTENDS Naturals, Sequences, FiniteSets, TLC

CONSTANTS Threads,     \* set of records [pid, tid, uid, gid]
          AgentPids,   \* pids the agent may put in the skip map
          Ips, Ports, Protos, TCP,
          Listable,    \* subset of Ips \X Ports the agent may list in the policy
          SPorts,      \* local source ports
          Proxy,       \* [ip |-> .., port |-> ..] of the proxy listener
          K,           \* capacity of the LRU maps
          Bounded,     \* BOOLEAN: the environment keeps at most K connections in flight
          AllowDirect, \* BOOLEAN: tcp_connect may be reached by a socket the cgroup hook never saw (fallback path)
          AllowAbort,  \* BOOLEAN: a connect may fail between the two hooks (non-gating exploration)
          MaxLeft      \* at most this many leftover records at a time (bounds EndUnconsumed; 0 = never)

VARIABLES policy,    \* hash map: [ip, port, proto] -> [ip, port]   (policy_map)
          skip,      \* set of pids                                  (skip_process_map)
          localMap,  \* LRU map  <<pid, tid>> -> pending entry       (local_map)
          auditMap,  \* LRU map  [proto, sport] -> record            (audit_map)
          pc,        \* thread -> "idle" | "hooked" (between connect4 and tcp_connect)
          cur,       \* ghost: thread -> the connect4 outcome of its pending TCP attempt (Idle otherwise)
          lastOther, \* ghost: outcome of the most recent non-TCP connect4: [div, same]
          truth,     \* ghost: sport -> what is true about the connection using it; None when the port is free
                     \*        or its connection never had a listed destination (then it produces no record)
          left       \* ghost: sport -> the record a connection that ended unconsumed left under this port (what
                     \*        was true of THAT connection), while it is still in the map; None otherwise

vars == <<policy, skip, localMap, auditMap, pc, cur, lastOther, truth, left>>

None == [none |-> TRUE]
EmptyMap == [k \in {} |-> None]
Idle == [ip |-> "-", port |-> "-", proto |-> "-", nip |-> "-", nport |-> "-",
         listed |-> FALSE, agent |-> FALSE, div |-> FALSE]

Key(ip, port, proto) == [ip |-> ip, port |-> port, proto |-> proto]
TKey(t) == <<t.pid, t.tid>>                       \* bpf_get_current_pid_tgid(): tgid << 32 | tid
AKey(proto, s) == [proto |-> proto, sport |-> s]
\* the record C06 demands for caller t and original destination ip:port
TrueRecord(t, ip, port) == [logon |-> t.uid, pid |-> t.pid, root |-> (t.uid = 0), ip |-> ip, port |-> port]
ListedAddrs == {<<k.ip, k.port>> : k \in DOMAIN policy}

\* ---- LRU maps: sequences of [k, v], least recently used first ------------
Has(m, k) == \E i \in 1..Len(m) : m[i].k = k
Get(m, k) == m[CHOOSE i \in 1..Len(m) : m[i].k = k].v
Without(m, k) == SelectSeq(m, LAMBDA e : e.k # k)
Put(m, k, v) == LET m1 == Without(m, k)
                    m2 == IF ~Has(m, k) /\ Len(m) >= K THEN Tail(m1) ELSE m1    \* full: evict the LRU entry
                IN  Append(m2, [k |-> k, v |-> v])

InFlight == Cardinality({t \in Threads : pc[t] = "hooked"}) + Len(auditMap)
\* one more connect may enter: the evictions that can follow (every hooked connect publishing under a fresh port)
\* fall on the least recently used entries, which must all be leftovers
Room == Bounded => \A i \in 1..(InFlight + 1 - K) :
                      i <= Len(auditMap) /\ auditMap[i].k.proto = TCP /\ left[auditMap[i].k.sport] # None
NLeft == Cardinality({s \in SPorts : left[s] # None})

Init == /\ policy = EmptyMap /\ skip = {} /\ localMap = <<>> /\ auditMap = <<>>
        /\ pc = [t \in Threads |-> "idle"] /\ cur = [t \in Threads |-> Idle]
        /\ lastOther = [div |-> FALSE, same |-> TRUE]
        /\ truth = [s \in SPorts |-> None] /\ left = [s \in SPorts |-> None]

\* ---- the agent (user space) ----------------------------------------------
PolicyAdd(d) == /\ d \in Listable /\ Key(d[1], d[2], TCP) \notin DOMAIN policy
                /\ policy' = policy @@ (Key(d[1], d[2], TCP) :> Proxy)
                /\ UNCHANGED <<skip, localMap, auditMap, pc, cur, lastOther, truth, left>>

PolicyRemove(d) == /\ Key(d[1], d[2], TCP) \in DOMAIN policy
                   /\ policy' = [k \in DOMAIN policy \ {Key(d[1], d[2], TCP)} |-> policy[k]]
                   /\ UNCHANGED <<skip, localMap, auditMap, pc, cur, lastOther, truth, left>>

SkipAdd(p) == /\ p \in AgentPids \ skip
              /\ \A t \in Threads : t.pid = p => pc[t] = "idle"
              /\ skip' = skip \cup {p}
              /\ UNCHANGED <<policy, localMap, auditMap, pc, cur, lastOther, truth, left>>

\* the proxy consumed the record (remove_audit_map_entry(sport)) of the connection on this port, which then ends
Release(s) == /\ truth[s] # None
              /\ auditMap' = Without(auditMap, AKey(TCP, s))
              /\ truth' = [truth EXCEPT ![s] = None]
              /\ left' = [left EXCEPT ![s] = None]
              /\ UNCHANGED <<policy, skip, localMap, pc, cur, lastOther>>

\* the connection on this port ends and nobody consumed its record (the client gave up between its SYN and the
\* proxy's accept; or the connection was never the proxy's): the audit map is not touched.  A record of this
\* connection becomes a leftover; a leftover already lying under the port (the connection wrote nothing) stays one.
EndUnconsumed(s) ==
  /\ truth[s] # None
  /\ LET mine == Has(auditMap, AKey(TCP, s)) /\ left[s] = None IN
     /\ mine => NLeft < MaxLeft
     /\ left' = [left EXCEPT ![s] = IF mine THEN TrueRecord(truth[s].t, truth[s].ip, truth[s].port) ELSE @]
  /\ truth' = [truth EXCEPT ![s] = None]
  /\ UNCHANGED <<policy, skip, localMap, auditMap, pc, cur, lastOther>>

\* ---- cgroup/connect4: authorize_v4 ---------------------------------------
Connect4(t, ip, port, proto) ==
  /\ pc[t] = "idle"
  /\ proto = TCP => Room
  /\ LET key   == Key(ip, port, proto)
         agent == t.pid \in skip
         div   == key \in DOMAIN policy /\ ~agent
         nip   == IF div THEN policy[key].ip ELSE ip
         nport == IF div THEN policy[key].port ELSE port
     IN  /\ localMap' = IF div THEN Put(localMap, TKey(t), [logon |-> t.uid, pid |-> t.pid, root |-> (t.uid = 0),
                                                             ip |-> ip, port |-> port, proto |-> proto])
                        ELSE localMap
         /\ IF proto = TCP                               \* only TCP goes on to tcp_connect
            THEN /\ cur' = [cur EXCEPT ![t] = [ip |-> ip, port |-> port, proto |-> proto, nip |-> nip, nport |-> nport,
                                               listed |-> <<ip, port>> \in ListedAddrs, agent |-> agent, div |-> div]]
                 /\ pc' = [pc EXCEPT ![t] = "hooked"]
                 /\ UNCHANGED lastOther
            ELSE /\ lastOther' = [div |-> div, same |-> (nip = ip /\ nport = port)]
                 /\ UNCHANGED <<pc, cur>>
  /\ UNCHANGED <<policy, skip, auditMap, truth, left>>

\* ---- kprobe tcp_connect: trace_v4 ------------------------------------------
\* (dip, dport) is the destination the socket carries at that point (the rewritten one after a diversion)
Publish(t, s, dip, dport) ==
  IF t.pid \in skip THEN UNCHANGED <<localMap, auditMap>>
  ELSE IF Has(localMap, TKey(t))
       THEN LET e == Get(localMap, TKey(t)) IN
            /\ auditMap' = Put(auditMap, AKey(e.proto, s),
                               [logon |-> e.logon, pid |-> e.pid, root |-> e.root, ip |-> e.ip, port |-> e.port])
            /\ localMap' = Without(localMap, TKey(t))
       ELSE /\ localMap' = localMap                     \* fallback: the cgroup hook left nothing for this thread
            /\ auditMap' = IF Key(dip, dport, TCP) \in DOMAIN policy
                           THEN Put(auditMap, AKey(TCP, s), TrueRecord(t, dip, dport))
                           ELSE auditMap

\* does trace_v4 write a record for this connect?  (then it replaces whatever lay under the port)
Writes(t, dip, dport) == t.pid \notin skip /\ (Has(localMap, TKey(t)) \/ Key(dip, dport, TCP) \in DOMAIN policy)
\* leftovers after a publication under port s: overwritten under s, or evicted by the LRU map
LeftAfter(t, s, dip, dport) ==
  left' = [x \in SPorts |-> IF ~Has(auditMap', AKey(TCP, x)) \/ (x = s /\ Writes(t, dip, dport)) THEN None ELSE left[x]]

TcpConnectAt(t, s) ==
  /\ pc[t] = "hooked" /\ truth[s] = None
  /\ Publish(t, s, cur[t].nip, cur[t].nport)
  /\ LeftAfter(t, s, cur[t].nip, cur[t].nport)
  /\ LET listedK == <<cur[t].nip, cur[t].nport>> \in ListedAddrs IN
     truth' = [truth EXCEPT ![s] = IF cur[t].listed \/ listedK
                                   THEN [t |-> t, ip |-> cur[t].ip, port |-> cur[t].port, div |-> cur[t].div,
                                         listedK |-> listedK, agent |-> t.pid \in skip]
                                   ELSE None]
  /\ pc' = [pc EXCEPT ![t] = "idle"] /\ cur' = [cur EXCEPT ![t] = Idle]
  /\ UNCHANGED <<policy, skip, lastOther>>

\* the port is one nothing lies under / one that still carries the record of an earlier connection (the same step,
\* named apart so that the coverage of the exhaustive runs shows that ports of leftovers are handed out again)
TcpConnect(t, s) == left[s] = None /\ TcpConnectAt(t, s)
TcpConnectReuse(t, s) == left[s] # None /\ TcpConnectAt(t, s)

\* a TCP connect by a socket the cgroup hook never ran for (not diverted; recorded by the fallback path)
TcpConnectDirect(t, ip, port, s) ==
  /\ AllowDirect /\ pc[t] = "idle" /\ truth[s] = None /\ Room
  /\ Publish(t, s, ip, port)
  /\ LeftAfter(t, s, ip, port)
  /\ truth' = [truth EXCEPT ![s] = IF <<ip, port>> \in ListedAddrs
                                   THEN [t |-> t, ip |-> ip, port |-> port, div |-> FALSE, listedK |-> TRUE,
                                         agent |-> t.pid \in skip]
                                   ELSE None]
  /\ UNCHANGED <<policy, skip, pc, cur, lastOther>>

\* non-gating: the connect fails after the cgroup hook and never reaches tcp_connect
Abort(t) == /\ AllowAbort /\ pc[t] = "hooked"
            /\ pc' = [pc EXCEPT ![t] = "idle"] /\ cur' = [cur EXCEPT ![t] = Idle]
            /\ UNCHANGED <<policy, skip, localMap, auditMap, lastOther, truth, left>>

AgentPolicy == \E d \in Listable : PolicyAdd(d) \/ PolicyRemove(d)
Next == \/ AgentPolicy
        \/ \E p \in AgentPids : SkipAdd(p)
        \/ \E s \in SPorts : Release(s)
        \/ \E s \in SPorts : EndUnconsumed(s)
        \/ \E t \in Threads, ip \in Ips, port \in Ports, proto \in Protos : Connect4(t, ip, port, proto)
        \/ \E t \in Threads, s \in SPorts : TcpConnect(t, s) \/ TcpConnectReuse(t, s)
        \/ \E t \in Threads, ip \in Ips, port \in Ports, s \in SPorts : TcpConnectDirect(t, ip, port, s)
        \/ \E t \in Threads : Abort(t)
Spec == Init /\ [][Next]_vars

-----------------------------------------------------------------------------
\* Properties, from the statement of C06 (ghosts against maps and rewritten addresses).

HasRec(s) == Has(auditMap, AKey(TCP, s))
Rec(s) == Get(auditMap, AKey(TCP, s))

\* diverted exactly when TCP, address listed at that moment, caller not the agent; diverted = to the proxy listener,
\* otherwise the address is untouched
RedirectExactly ==
  /\ \A t \in Threads : cur[t] # Idle =>
        /\ cur[t].div <=> (cur[t].proto = TCP /\ cur[t].listed /\ ~cur[t].agent)
        /\ cur[t].div => cur[t].nip = Proxy.ip /\ cur[t].nport = Proxy.port
        /\ ~cur[t].div => cur[t].nip = cur[t].ip /\ cur[t].nport = cur[t].port
  /\ ~lastOther.div /\ lastOther.same                 \* a non-TCP connect is never diverted

\* the entry under port s is a leftover of an earlier connection, not a record of the connection now using s
Leftover(s) == left[s] # None

\* every diverted connect has its record under (TCP, local source port) -- its own, also when the port was handed
\* out again while an earlier connection's record still lay there; every record of a live connection states the
\* caller's uid, pid, uid = 0 and the original destination
RecordTruth ==
  \A s \in SPorts : truth[s] # None =>
     /\ truth[s].div => HasRec(s) /\ ~Leftover(s)
     /\ HasRec(s) /\ ~Leftover(s) => Rec(s) = TrueRecord(truth[s].t, truth[s].ip, truth[s].port)

\* no record is produced by anything else: every entry of the audit map is either the record of the live TCP
\* connection on that port, of a non-agent caller whose destination was listed when a hook looked, or a leftover:
\* the unaltered record of an earlier such connection, which stated the truth when it was written
NoRecordOtherwise ==
  /\ \A i \in 1..Len(auditMap) :
       LET k == auditMap[i].k IN
       /\ k.proto = TCP /\ k.sport \in SPorts
       /\ \/ Leftover(k.sport) /\ auditMap[i].v = left[k.sport]
          \/ /\ ~Leftover(k.sport) /\ truth[k.sport] # None
             /\ ~truth[k.sport].agent
             /\ truth[k.sport].div \/ truth[k.sport].listedK
  /\ \A s \in SPorts : Leftover(s) => HasRec(s)

\* the agent's own connects are not diverted and write nothing (a leftover under the port they were given stays as it is)
AgentUntouched ==
  /\ \A t \in Threads : cur[t] # Idle /\ cur[t].agent =>
        ~cur[t].div /\ cur[t].nip = cur[t].ip /\ cur[t].nport = cur[t].port
  /\ \A s \in SPorts : truth[s] # None /\ truth[s].agent => ~HasRec(s) \/ Leftover(s)

\* mechanism invariants: nothing stale is left for a later connect of the same thread; the bound is respected
NoStaleLocal == \A i \in 1..Len(localMap) :
                   \E t \in Threads : TKey(t) = localMap[i].k /\ pc[t] = "hooked" /\ cur[t].div
WithinCapacity == Len(auditMap) <= K /\ Len(localMap) <= K

-----------------------------------------------------------------------------
\* Constants of the model-checking / generator configurations (records cannot be written in a .cfg file).
MC_Threads == { [pid |-> 1, tid |-> 1, uid |-> 0, gid |-> 5],      \* root whose primary group is not 0
                [pid |-> 2, tid |-> 3, uid |-> 7, gid |-> 0],      \* non-root in group 0, pid # tid
                [pid |-> 2, tid |-> 4, uid |-> 7, gid |-> 0],      \* a second thread of the same process
                [pid |-> 9, tid |-> 9, uid |-> 0, gid |-> 0] }     \* the agent
MC_AgentPids == {9}
\* mc/EbpfLeft.cfg (leftover records and reuse of their source ports): two callers that differ in uid, pid and
\* uid = 0, and the agent
MC_ThreadsLeft == { [pid |-> 1, tid |-> 1, uid |-> 0, gid |-> 5],
                    [pid |-> 2, tid |-> 3, uid |-> 7, gid |-> 0],
                    [pid |-> 9, tid |-> 9, uid |-> 0, gid |-> 0] }
MC_Listable == {<<"A", "p">>, <<"B", "p">>}
SymSPorts == Permutations(SPorts)      \* source ports are only ever compared for equality (mc/EbpfLeft.cfg: model values)
MC_Proxy == [ip |-> "L", port |-> "lp"]

GEN_Threads == { [pid |-> 1, tid |-> 1, uid |-> 0, gid |-> 5],
                 [pid |-> 2, tid |-> 2, uid |-> 7, gid |-> 0],
                 [pid |-> 2, tid |-> 3, uid |-> 7, gid |-> 0],     \* two threads of one process
                 [pid |-> 4, tid |-> 5, uid |-> 6, gid |-> 6],
                 [pid |-> 6, tid |-> 7, uid |-> 8, gid |-> 7],
                 [pid |-> 9, tid |-> 9, uid |-> 0, gid |-> 0],     \* the agent, two threads
                 [pid |-> 9, tid |-> 10, uid |-> 0, gid |-> 0] }
GEN_Listable == {<<"A", "p">>, <<"A", "q">>, <<"B", "p">>}
=============================================================================
