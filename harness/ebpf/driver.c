/* C06 harness driver: a user-space model of the BPF run-time (maps + helpers, man-page semantics) around the
 * unmodified program in prog_tu.c.  Reads a line-oriented script on stdin, executes one step per line and prints
 * one JSON object per step with the step's result and (unless "dump off") the raw contents of all four maps.
 *
 * Script lines (all numbers decimal unless stated; <hex> = raw memory bytes):
 *   thread <tgid> <tid> <uid> <gid>        set the ids the current-task helpers report
 *   put <map> <keyhex> <valhex>            user-space bpf_map_update_elem(BPF_ANY)  (map: skip|policy|audit|local)
 *   del <map> <keyhex>                     user-space bpf_map_delete_elem
 *   get <map> <keyhex>                     user-space bpf_map_lookup_elem (does not touch LRU order)
 *   connect4 <ip4hex> <port4hex> <protocol> <family> <socktype> [<bound source ip4hex>]
 *   tcp <family> <daddrhex4> <dporthex2> <sport> <saddrhex4>
 *   nop                                    nothing happens in the program (a step of the environment); maps are dumped
 *   reset                                  empty all maps
 *   dump on|off                            include full map dumps in every reply (default on)
 *   layout                                 sizeof/offsetof of the C structs, map declarations
 */
#include <stdarg.h>
#include <stdint.h>
#include <stdio.h>
#include <stdlib.h>
#include <string.h>

#define BPF_MAP_TYPE_HASH 1
#define BPF_MAP_TYPE_LRU_HASH 9
#define MAXMAPS 8
#define E2BIG 7
#define ENOENT 2
#define EEXIST 17
#define EINVAL 22

struct entry { unsigned char *key, *val; uint64_t stamp; };
struct map {
    const char *name; void *addr; unsigned type, ks, vs, max; unsigned n; struct entry *e; unsigned evictions;
};
static struct map maps[MAXMAPS];
static unsigned nmaps;
static uint64_t clock_;
static uint32_t cur_tgid, cur_tid, cur_uid, cur_gid;
static unsigned printk_calls;
static int dump_on = 1;

/* ---- glue called from prog_tu.c ----------------------------------------------------------------------------- */
void verif_prog_init(void);
void verif_prog_layout(void);
int verif_connect4(const unsigned char ip4[4], const unsigned char port4[4], unsigned protocol, unsigned family,
                   unsigned type, const unsigned char bound_ip4[4], unsigned char out_ip4[4], unsigned char out_port4[4]);
int verif_tcp_connect(unsigned family, const unsigned char daddr[4], const unsigned char dport[2],
                      unsigned short sport_host, const unsigned char saddr[4]);

void verif_register_map(const char *name, void *addr, unsigned type, unsigned ks, unsigned vs, unsigned max)
{
    if (nmaps == MAXMAPS) { fprintf(stderr, "too many maps\n"); exit(3); }
    if (type != BPF_MAP_TYPE_HASH && type != BPF_MAP_TYPE_LRU_HASH) {
        fprintf(stderr, "map %s: type %u is not modelled\n", name, type); exit(3);
    }
    struct map *m = &maps[nmaps++];
    m->name = name; m->addr = addr; m->type = type; m->ks = ks; m->vs = vs; m->max = max; m->n = 0;
    m->e = calloc(max ? max : 1, sizeof(struct entry));
    for (unsigned i = 0; i < max; i++) { m->e[i].key = malloc(ks); m->e[i].val = malloc(vs); }
}

static int layout_first;
void verif_layout_struct(const char *st, unsigned size)
{
    printf("%s{\"struct\":\"%s\",\"size\":%u}", layout_first ? "" : ",", st, size); layout_first = 0;
}
void verif_layout_field(const char *st, const char *f, unsigned off, unsigned size)
{
    printf(",{\"struct\":\"%s\",\"field\":\"%s\",\"off\":%u,\"size\":%u}", st, f, off, size);
}

/* ---- map run-time --------------------------------------------------------------------------------------------- */
static struct map *by_addr(void *a)
{
    for (unsigned i = 0; i < nmaps; i++) if (maps[i].addr == a) return &maps[i];
    fprintf(stderr, "helper called with an unknown map pointer\n"); exit(3);
}
static struct map *by_name(const char *n)
{
    for (unsigned i = 0; i < nmaps; i++) if (!strcmp(maps[i].name, n)) return &maps[i];
    fprintf(stderr, "unknown map %s\n", n); exit(3);
}
static int find(struct map *m, const void *key)
{
    for (unsigned i = 0; i < m->n; i++) if (!memcmp(m->e[i].key, key, m->ks)) return (int)i;
    return -1;
}
static void *m_lookup(struct map *m, const void *key, int touch)
{
    int i = find(m, key);
    if (i < 0) return NULL;
    if (touch) m->e[i].stamp = ++clock_;
    return m->e[i].val;
}
static long m_update(struct map *m, const void *key, const void *val)
{
    int i = find(m, key);
    if (i < 0) {
        if (m->n == m->max) {
            if (m->type != BPF_MAP_TYPE_LRU_HASH) return -E2BIG;
            unsigned v = 0;                               /* evict the least recently used entry */
            for (unsigned j = 1; j < m->n; j++) if (m->e[j].stamp < m->e[v].stamp) v = j;
            struct entry t = m->e[v]; m->e[v] = m->e[m->n - 1]; m->e[m->n - 1] = t; m->n--; m->evictions++;
        }
        i = (int)m->n++;
        memcpy(m->e[i].key, key, m->ks);
    }
    memcpy(m->e[i].val, val, m->vs);
    m->e[i].stamp = ++clock_;
    return 0;
}
static long m_delete(struct map *m, const void *key)
{
    int i = find(m, key);
    if (i < 0) return -ENOENT;
    struct entry t = m->e[i]; m->e[i] = m->e[m->n - 1]; m->e[m->n - 1] = t; m->n--;
    return 0;
}

/* ---- helpers (bpf-helpers(7)) --------------------------------------------------------------------------------- */
void *bpf_map_lookup_elem(void *map, const void *key) { return m_lookup(by_addr(map), key, 1); }
long bpf_map_update_elem(void *map, const void *key, const void *value, uint64_t flags)
{
    /* bpf(2): BPF_ANY 0, BPF_NOEXIST 1 (create only), BPF_EXIST 2 (update only); anything else is EINVAL */
    struct map *m = by_addr(map);
    if (flags > 2) return -EINVAL;
    if (flags == 1 && find(m, key) >= 0) return -EEXIST;
    if (flags == 2 && find(m, key) < 0) return -ENOENT;
    return m_update(m, key, value);
}
long bpf_map_delete_elem(void *map, const void *key) { return m_delete(by_addr(map), key); }
uint64_t bpf_get_current_pid_tgid(void) { return (uint64_t)cur_tgid << 32 | cur_tid; }
uint64_t bpf_get_current_uid_gid(void) { return (uint64_t)cur_gid << 32 | cur_uid; }
long bpf_probe_read(void *dst, uint32_t size, const void *p) { memcpy(dst, p, size); return 0; }
long bpf_probe_read_kernel(void *dst, uint32_t size, const void *p) { memcpy(dst, p, size); return 0; }
uint64_t bpf_get_socket_cookie(void *ctx) { (void)ctx; return 0x5eed0000u + cur_tid; }
void verif_printk(const char *fmt, ...) { (void)fmt; printk_calls++; }

/* ---- script --------------------------------------------------------------------------------------------------- */
static int hexval(int c) { return c >= '0' && c <= '9' ? c - '0' : c >= 'a' && c <= 'f' ? c - 'a' + 10 : c >= 'A' && c <= 'F' ? c - 'A' + 10 : -1; }
static void unhex(const char *s, unsigned char *out, unsigned n, const char *what)
{
    if (strlen(s) != 2 * n) { fprintf(stderr, "%s: expected %u hex bytes, got '%s'\n", what, n, s); exit(3); }
    for (unsigned i = 0; i < n; i++) {
        int a = hexval(s[2 * i]), b = hexval(s[2 * i + 1]);
        if (a < 0 || b < 0) { fprintf(stderr, "%s: bad hex '%s'\n", what, s); exit(3); }
        out[i] = (unsigned char)(a << 4 | b);
    }
}
static void puthex(const unsigned char *p, unsigned n) { for (unsigned i = 0; i < n; i++) printf("%02x", p[i]); }

static int cmp_stamp(const void *a, const void *b)
{
    const struct entry *x = a, *y = b;
    return x->stamp < y->stamp ? -1 : x->stamp > y->stamp;
}
static void dump_maps(void)
{
    printf(",\"maps\":{");
    for (unsigned i = 0; i < nmaps; i++) {
        struct map *m = &maps[i];
        struct entry *tmp = malloc(sizeof(struct entry) * (m->n ? m->n : 1));
        memcpy(tmp, m->e, sizeof(struct entry) * m->n);
        qsort(tmp, m->n, sizeof(struct entry), cmp_stamp);       /* oldest use first */
        printf("%s\"%s\":[", i ? "," : "", m->name);
        for (unsigned j = 0; j < m->n; j++) {
            printf("%s[\"", j ? "," : ""); puthex(tmp[j].key, m->ks); printf("\",\""); puthex(tmp[j].val, m->vs); printf("\"]");
        }
        printf("]");
        free(tmp);
    }
    printf("},\"evictions\":{");
    for (unsigned i = 0; i < nmaps; i++) printf("%s\"%s\":%u", i ? "," : "", maps[i].name, maps[i].evictions);
    printf("}");
}

int main(void)
{
    char line[4096], a[8][1024];
    unsigned long step = 0;
    verif_prog_init();
    while (fgets(line, sizeof line, stdin)) {
        int n = sscanf(line, "%1023s %1023s %1023s %1023s %1023s %1023s %1023s", a[0], a[1], a[2], a[3], a[4], a[5], a[6]);
        if (n <= 0 || a[0][0] == '#') continue;
        step++;
        int full = dump_on;
        printf("{\"n\":%lu,\"op\":\"%s\"", step, a[0]);
        if (!strcmp(a[0], "thread") && n == 5) {
            cur_tgid = (uint32_t)strtoul(a[1], 0, 10); cur_tid = (uint32_t)strtoul(a[2], 0, 10);
            cur_uid = (uint32_t)strtoul(a[3], 0, 10); cur_gid = (uint32_t)strtoul(a[4], 0, 10);
            full = 0;
        } else if (!strcmp(a[0], "put") && n == 4) {
            struct map *m = by_name(a[1]);
            unsigned char *k = malloc(m->ks), *v = malloc(m->vs);
            unhex(a[2], k, m->ks, "put key"); unhex(a[3], v, m->vs, "put value");
            printf(",\"ret\":%ld", m_update(m, k, v));
            free(k); free(v);
        } else if (!strcmp(a[0], "del") && n == 3) {
            struct map *m = by_name(a[1]);
            unsigned char *k = malloc(m->ks);
            unhex(a[2], k, m->ks, "del key");
            printf(",\"ret\":%ld", m_delete(m, k));
            free(k);
        } else if (!strcmp(a[0], "get") && n == 3) {
            struct map *m = by_name(a[1]);
            unsigned char *k = malloc(m->ks);
            unhex(a[2], k, m->ks, "get key");
            unsigned char *v = m_lookup(m, k, 0);
            if (v) { printf(",\"val\":\""); puthex(v, m->vs); printf("\""); } else printf(",\"val\":null");
            free(k);
            full = 0;
        } else if (!strcmp(a[0], "connect4") && (n == 6 || n == 7)) {
            unsigned char ip[4], port[4], oip[4], oport[4], bound[4] = {0, 0, 0, 0};
            unhex(a[1], ip, 4, "connect4 ip"); unhex(a[2], port, 4, "connect4 port");
            if (n == 7) unhex(a[6], bound, 4, "connect4 bound source");
            unsigned pk = printk_calls;
            int r = verif_connect4(ip, port, (unsigned)strtoul(a[3], 0, 10), (unsigned)strtoul(a[4], 0, 10),
                                   (unsigned)strtoul(a[5], 0, 10), bound, oip, oport);
            printf(",\"ret\":%d,\"ip\":\"", r); puthex(oip, 4); printf("\",\"port\":\""); puthex(oport, 4);
            printf("\",\"printk\":%u", printk_calls - pk);
        } else if (!strcmp(a[0], "tcp") && n == 6) {
            unsigned char da[4], dp[2], sa[4];
            unhex(a[2], da, 4, "tcp daddr"); unhex(a[3], dp, 2, "tcp dport"); unhex(a[5], sa, 4, "tcp saddr");
            unsigned pk = printk_calls;
            int r = verif_tcp_connect((unsigned)strtoul(a[1], 0, 10), da, dp, (unsigned short)strtoul(a[4], 0, 10), sa);
            printf(",\"ret\":%d,\"printk\":%u", r, printk_calls - pk);
        } else if (!strcmp(a[0], "nop") && n == 1) {
            /* e.g. a connection ends and nobody consumed its record: no hook runs, no map operation */
        } else if (!strcmp(a[0], "reset") && n == 1) {
            for (unsigned i = 0; i < nmaps; i++) { maps[i].n = 0; maps[i].evictions = 0; }
        } else if (!strcmp(a[0], "dump") && n == 2) {
            dump_on = !strcmp(a[1], "on"); full = 0;
        } else if (!strcmp(a[0], "layout") && n == 1) {
            printf(",\"layout\":["); layout_first = 1; verif_prog_layout(); printf("],\"decl\":[");
            for (unsigned i = 0; i < nmaps; i++)
                printf("%s{\"map\":\"%s\",\"type\":%u,\"key_size\":%u,\"value_size\":%u,\"max_entries\":%u}", i ? "," : "",
                       maps[i].name, maps[i].type, maps[i].ks, maps[i].vs, maps[i].max);
            printf("]"); full = 0;
        } else {
            fprintf(stderr, "bad script line %lu: %s", step, line); return 3;
        }
        if (full) dump_maps();
        printf("}\n");
        fflush(stdout);                    /* the driver is used interactively: one reply per request */
    }
    fflush(stdout);
    return 0;
}
