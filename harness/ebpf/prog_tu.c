/* C06 harness: the translation unit that holds the UNMODIFIED eBPF program.
 * Built with:  gcc -I shim -I <dir of socket.h> -DVERIF_EBPF_C='"<path>/ebpf_cgroup.c"' -c prog_tu.c
 * socket.h has no include guard and #defines IPPROTO_TCP / AF_INET, so nothing from libc's networking headers may
 * be included here; everything the driver needs is exported through the small glue below. */
#include VERIF_EBPF_C

#define memcpy __builtin_memcpy
#define memset __builtin_memset

/* ---- glue: not part of the program under test ------------------------------------------------------------- */
void verif_register_map(const char *name, void *addr, unsigned type, unsigned key_size, unsigned value_size,
                        unsigned max_entries);
void verif_layout_field(const char *st, const char *field, unsigned off, unsigned size);
void verif_layout_struct(const char *st, unsigned size);

#define VERIF_REG(m, nm)                                                                      \
    verif_register_map(nm, &(m), sizeof(*(m).type) / sizeof(int), sizeof(*(m).key),           \
                       sizeof(*(m).value), sizeof(*(m).max_entries) / sizeof(int))

void verif_prog_init(void)
{
    VERIF_REG(skip_process_map, "skip");
    VERIF_REG(policy_map, "policy");
    VERIF_REG(audit_map, "audit");
    VERIF_REG(local_map, "local");
}

#define F(st, f) verif_layout_field(#st, #f, offsetof(st, f), sizeof(((st *)0)->f))
void verif_prog_layout(void)
{
    verif_layout_struct("sock_addr_skip_process_entry", sizeof(sock_addr_skip_process_entry));
    F(sock_addr_skip_process_entry, pid);
    verif_layout_struct("destination_entry", sizeof(destination_entry));
    F(destination_entry, destination_ip);
    F(destination_entry, destination_port);
    F(destination_entry, protocol);
    verif_layout_struct("sock_addr_audit_key", sizeof(sock_addr_audit_key));
    F(sock_addr_audit_key, protocol);
    F(sock_addr_audit_key, source_port);
    verif_layout_struct("sock_addr_audit_entry", sizeof(sock_addr_audit_entry));
    F(sock_addr_audit_entry, logon_id);
    F(sock_addr_audit_entry, process_id);
    F(sock_addr_audit_entry, is_root);
    F(sock_addr_audit_entry, destination_ipv4);
    F(sock_addr_audit_entry, destination_port);
}

/* cgroup/connect4: ctx fields are given / returned as raw memory bytes (user_ip4, user_port are documented
 * "stored in network byte order").  Returns the program's verdict. */
int verif_connect4(const unsigned char ip4[4], const unsigned char port4[4], unsigned protocol, unsigned family,
                   unsigned type, const unsigned char bound_ip4[4], unsigned char out_ip4[4], unsigned char out_port4[4])
{
    struct bpf_sock_addr ctx;
    static struct bpf_sock sock;          /* ctx->sk: the socket that connects; src_ip4 is the address it was bound to (0: unbound) */
    memset(&ctx, 0, sizeof ctx);
    memset(&sock, 0, sizeof sock);
    sock.family = family;
    sock.type = type;
    sock.protocol = protocol;
    memcpy(&sock.src_ip4, bound_ip4, 4);
    ctx.sk = &sock;
    ctx.user_family = family;
    ctx.family = family;
    ctx.type = type;
    ctx.protocol = protocol;
    memcpy(&ctx.user_ip4, ip4, 4);
    memcpy(&ctx.user_port, port4, 4);
    int r = connect4(&ctx);
    memcpy(out_ip4, &ctx.user_ip4, 4);
    memcpy(out_port4, &ctx.user_port, 4);
    return r;
}

/* kprobe on tcp_connect(struct sock *sk): first argument in rdi.  skc_daddr / skc_dport are big-endian on the
 * wire (raw bytes given), skc_num is the local port in host byte order. */
int verif_tcp_connect(unsigned family, const unsigned char daddr[4], const unsigned char dport[2],
                      unsigned short sport_host, const unsigned char saddr[4])
{
    struct probe_sock sk;
    struct pt_regs regs;
    memset(&sk, 0, sizeof sk);
    memset(&regs, 0, sizeof regs);
    sk.__sk_common.skc_family = (unsigned short)family;
    memcpy(&sk.__sk_common.skc_daddr, daddr, 4);
    memcpy(&sk.__sk_common.skc_rcv_saddr, saddr, 4);
    memcpy(&sk.__sk_common.skc_dport, dport, 2);
    sk.__sk_common.skc_num = sport_host;
    regs.rdi = (unsigned long)&sk;
    return tcp_v4_connect(&regs);
}
