/* C06 harness: user-space stand-in for libbpf's <bpf/bpf_tracing.h> (x86-64 only).
 * BPF_KPROBE(name, arg1): the first argument of the probed kernel function is in pt_regs->rdi
 * (user-space uapi spelling of the kernel's ->di). */
#ifndef VERIF_BPF_TRACING_H
#define VERIF_BPF_TRACING_H
#ifndef __x86_64__
#error "the C06 harness models the x86-64 kprobe calling convention only"
#endif
#define PT_REGS_PARM1(x) ((x)->rdi)
#define BPF_KPROBE(name, arg1)                                                        \
    name(struct pt_regs *ctx);                                                        \
    static inline int ____##name(struct pt_regs *ctx, arg1);                          \
    int name(struct pt_regs *ctx) { return ____##name(ctx, (void *)PT_REGS_PARM1(ctx)); } \
    static inline int ____##name(struct pt_regs *ctx, arg1)
#endif
