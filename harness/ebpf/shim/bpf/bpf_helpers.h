/* C06 harness: user-space stand-in for libbpf's <bpf/bpf_helpers.h>.
 * The program under test (/repo/linux-ebpf/ebpf_cgroup.c + socket.h) is compiled UNMODIFIED against this file.
 * <linux/bpf.h> and <asm/ptrace.h> are the system's uapi headers (struct bpf_sock_addr, BPF_MAP_TYPE_*, pt_regs).
 * Helper semantics follow bpf-helpers(7); the implementations live in ../driver.c. */
#ifndef VERIF_BPF_HELPERS_H
#define VERIF_BPF_HELPERS_H
#include <stddef.h>
#include <linux/types.h>

#define SEC(name) __attribute__((used))
#ifndef __always_inline
#define __always_inline inline __attribute__((always_inline))
#endif

/* BTF-style map declarations, exactly as libbpf defines them: the declared type / sizes are recovered with
 * sizeof() by the glue in ../prog_tu.c and handed to the user-space map runtime. */
#define __uint(name, val) int (*name)[val]
#define __type(name, val) typeof(val) *name

void *bpf_map_lookup_elem(void *map, const void *key);
long bpf_map_update_elem(void *map, const void *key, const void *value, __u64 flags);
long bpf_map_delete_elem(void *map, const void *key);
__u64 bpf_get_current_pid_tgid(void);  /* tgid << 32 | tid */
__u64 bpf_get_current_uid_gid(void);   /* gid  << 32 | uid */
long bpf_probe_read(void *dst, __u32 size, const void *unsafe_ptr);
long bpf_probe_read_kernel(void *dst, __u32 size, const void *unsafe_ptr);
__u64 bpf_get_socket_cookie(void *ctx);
void verif_printk(const char *fmt, ...);
#define bpf_printk(fmt, ...) verif_printk(fmt, ##__VA_ARGS__)

#endif
