// C06 codec build script: lifts the *text* of the items C06 names out of the repository's redirector.rs /
// redirector/linux.rs (both depend on the whole agent crate and cannot be compiled stand-alone) so that rustc
// compiles the repository's own code, not a re-implementation:
//   redirector.rs : pub struct AuditEntry, impl AuditEntry, pub fn ip_to_string, pub fn string_to_ip
//   linux.rs      : the `AuditEntry { .. }` literal of BpfObject::lookup_audit (u32 -> u64 / i32 / u16 casts)
use std::{env, fs, path::PathBuf};

/// text of the brace-delimited item starting at `needle`
fn item(src: &str, needle: &str) -> Option<String> {
    let start = src.find(needle)?;
    let open = start + src[start..].find('{')?;
    let mut depth = 0usize;
    for (i, ch) in src[open..].char_indices() {
        match ch {
            '{' => depth += 1,
            '}' => {
                depth -= 1;
                if depth == 0 {
                    return Some(src[start..open + i + 1].to_string());
                }
            }
            _ => {}
        }
    }
    None
}

fn main() {
    let dir = PathBuf::from(env::var("CARGO_MANIFEST_DIR").unwrap()).join("src/repo");
    let out = PathBuf::from(env::var("OUT_DIR").unwrap());
    for f in ["redirector.rs", "linux.rs", "ebpf_obj.rs", "constants.rs"] {
        println!("cargo:rerun-if-changed={}", dir.join(f).display());
    }
    let red = fs::read_to_string(dir.join("redirector.rs")).expect("read redirector.rs");
    let mut text = String::new();
    for needle in [
        "pub struct AuditEntry",
        "impl AuditEntry",
        "pub fn ip_to_string",
        "pub fn string_to_ip",
    ] {
        let it = item(&red, needle).unwrap_or_else(|| panic!("item `{needle}` not found in redirector.rs"));
        text.push_str(&it);
        text.push_str("\n\n");
    }
    fs::write(out.join("redirector_items.rs"), text).unwrap();

    let lin = fs::read_to_string(dir.join("linux.rs")).expect("read linux.rs");
    let cast = lin
        .find("fn lookup_audit")
        .and_then(|p| lin[p..].find("Ok(AuditEntry {").map(|q| p + q + 3))
        .and_then(|p| item(&lin[p..], "AuditEntry"));
    let body = match cast {
        Some(lit) => format!(
            "pub const CAST_FROM_SOURCE: bool = true;\n\
             pub fn lookup_cast(audit_value: sock_addr_audit_entry) -> AuditEntry {{\n{lit}\n}}\n"
        ),
        // stand-in (reported by the codec's `hello`, listed as an assumption by the check)
        None => "pub const CAST_FROM_SOURCE: bool = false;\n\
                 pub fn lookup_cast(audit_value: sock_addr_audit_entry) -> AuditEntry {\n\
                 AuditEntry { logon_id: audit_value.logon_id as u64, process_id: audit_value.process_id,\n\
                 is_admin: audit_value.is_root as i32, destination_ipv4: audit_value.destination_ipv4,\n\
                 destination_port: audit_value.destination_port as u16 }\n}\n"
            .to_string(),
    };
    fs::write(out.join("lookup_cast.rs"), body).unwrap();
}
