// C06 codec: the agent's side of the kernel/user-space map ABI, compiled from the repository's own sources.
//   ebpf_obj   = /repo/proxy_agent/src/redirector/linux/ebpf_obj.rs   (whole file, via symlink)
//   constants  = /repo/proxy_agent/src/common/constants.rs            (whole file, via symlink)
//   redirector = AuditEntry + accessors, ip_to_string, string_to_ip   (items lifted by build.rs)
//   lookup_cast= the AuditEntry literal of BpfObject::lookup_audit    (lifted by build.rs)
// Keys/values cross the boundary the way aya moves a `[u32; N]` Pod: native-endian memory image.
// Line protocol on stdin, one JSON object per line on stdout:
//   hello | dest <dotted ip> <port> | destu <u32 ip> <port> | skip <pid> | akey <sport> | akeydec <hex8>
//   aval <hex20> | ip <dotted ip>
#![allow(dead_code)]

#[path = "repo/ebpf_obj.rs"]
mod ebpf_obj;

#[path = "repo/constants.rs"]
mod constants;

// stand-in for crate::common::logger (string_to_ip logs a warning on malformed input)
mod logger {
    pub fn write_warning(_message: String) {}
}

mod redirector {
    use super::logger;
    use std::net::Ipv4Addr;
    include!(concat!(env!("OUT_DIR"), "/redirector_items.rs"));
}

mod cast {
    use super::ebpf_obj::sock_addr_audit_entry;
    use super::redirector::AuditEntry;
    include!(concat!(env!("OUT_DIR"), "/lookup_cast.rs"));
}

use std::io::{BufRead, Write};

fn hex(words: &[u32]) -> String {
    let mut s = String::new();
    for w in words {
        for b in w.to_ne_bytes() {
            s.push_str(&format!("{:02x}", b));
        }
    }
    s
}

fn words<const N: usize>(h: &str) -> Result<[u32; N], String> {
    if h.len() != N * 8 {
        return Err(format!("expected {} hex bytes, got {:?}", N * 4, h));
    }
    let mut out = [0u32; N];
    for (i, w) in out.iter_mut().enumerate() {
        let mut b = [0u8; 4];
        for (j, x) in b.iter_mut().enumerate() {
            let p = i * 8 + j * 2;
            *x = u8::from_str_radix(&h[p..p + 2], 16).map_err(|e| e.to_string())?;
        }
        *w = u32::from_ne_bytes(b);
    }
    Ok(out)
}

fn num<T: std::str::FromStr>(a: Option<&&str>) -> Result<T, String> {
    a.ok_or("missing argument".to_string())?
        .parse::<T>()
        .map_err(|_| "bad number".to_string())
}

fn handle(line: &str) -> Result<String, String> {
    let a: Vec<&str> = line.split_whitespace().collect();
    match a.first().copied() {
        Some("hello") => Ok(format!(
            "{{\"cast_from_source\":{},\"endian\":\"{}\",\"tcp\":{},\"proxy_ip\":\"{}\",\"proxy_port\":{},\"endpoints\":[\
             {{\"name\":\"wireserver\",\"ip\":\"{}\",\"port\":{},\"nbo\":{}}},\
             {{\"name\":\"hostga\",\"ip\":\"{}\",\"port\":{},\"nbo\":{}}},\
             {{\"name\":\"imds\",\"ip\":\"{}\",\"port\":{},\"nbo\":{}}}],\"proxy_nbo\":{}}}",
            cast::CAST_FROM_SOURCE,
            if cfg!(target_endian = "little") { "little" } else { "big" },
            ebpf_obj::IPPROTO_TCP,
            constants::PROXY_AGENT_IP,
            constants::PROXY_AGENT_PORT,
            constants::WIRE_SERVER_IP,
            constants::WIRE_SERVER_PORT,
            constants::WIRE_SERVER_IP_NETWORK_BYTE_ORDER,
            constants::GA_PLUGIN_IP,
            constants::GA_PLUGIN_PORT,
            constants::GA_PLUGIN_IP_NETWORK_BYTE_ORDER,
            constants::IMDS_IP,
            constants::IMDS_PORT,
            constants::IMDS_IP_NETWORK_BYTE_ORDER,
            constants::PROXY_AGENT_IP_NETWORK_BYTE_ORDER,
        )),
        // policy key / value exactly as update_policy_elem_bpf_map / update_redirect_policy build them
        Some("dest") => {
            let ip = redirector::string_to_ip(a.get(1).ok_or("missing ip")?);
            let port: u16 = num(a.get(2))?;
            let e = ebpf_obj::destination_entry::from_ipv4(ip, port);
            Ok(format!("{{\"hex\":\"{}\",\"ipu32\":{}}}", hex(&e.to_array()), ip))
        }
        Some("destu") => {
            let ip: u32 = num(a.get(1))?;
            let port: u16 = num(a.get(2))?;
            let e = ebpf_obj::destination_entry::from_ipv4(ip, port);
            Ok(format!("{{\"hex\":\"{}\",\"ipu32\":{}}}", hex(&e.to_array()), ip))
        }
        Some("skip") => {
            let pid: u32 = num(a.get(1))?;
            let e = ebpf_obj::sock_addr_skip_process_entry::from_pid(pid);
            Ok(format!("{{\"hex\":\"{}\"}}", hex(&e.to_array())))
        }
        Some("akey") => {
            let port: u16 = num(a.get(1))?;
            let k = ebpf_obj::sock_addr_audit_key::from_source_port(port);
            Ok(format!("{{\"hex\":\"{}\"}}", hex(&k.to_array())))
        }
        Some("akeydec") => {
            let k = ebpf_obj::sock_addr_audit_key::from_array(words::<2>(a.get(1).ok_or("missing hex")?)?);
            Ok(format!("{{\"protocol\":{},\"source_port\":{}}}", k.protocol, k.source_port))
        }
        // audit value: from_array -> the lookup_audit cast -> AuditEntry accessors, as the proxy consumes it
        Some("aval") => {
            let v = ebpf_obj::sock_addr_audit_entry::from_array(words::<5>(a.get(1).ok_or("missing hex")?)?);
            let raw_port = v.destination_port;
            let e = cast::lookup_cast(v);
            Ok(format!(
                "{{\"logon_id\":{},\"process_id\":{},\"is_admin\":{},\"ip\":\"{}\",\"ip_str\":\"{}\",\"port\":{},\"raw_port\":{}}}",
                e.logon_id,
                e.process_id,
                e.is_admin,
                e.destination_ipv4_addr(),
                redirector::ip_to_string(e.destination_ipv4),
                e.destination_port_in_host_byte_order(),
                raw_port
            ))
        }
        Some("ip") => {
            let ip = redirector::string_to_ip(a.get(1).ok_or("missing ip")?);
            Ok(format!("{{\"u32\":{},\"back\":\"{}\",\"hex\":\"{}\"}}", ip, redirector::ip_to_string(ip), hex(&[ip])))
        }
        _ => Err(format!("unknown command {:?}", line)),
    }
}

fn main() {
    let stdin = std::io::stdin();
    let stdout = std::io::stdout();
    let mut out = stdout.lock();
    for line in stdin.lock().lines() {
        let line = line.expect("stdin");
        if line.trim().is_empty() {
            continue;
        }
        match handle(&line) {
            Ok(s) => writeln!(out, "{}", s).unwrap(),
            Err(e) => {
                eprintln!("codec error: {} (line {:?})", e, line);
                std::process::exit(3);
            }
        }
    }
}
