/* Stand-in for libbpf's <bpf/bpf_helpers.h> (libbpf headers are not installed in the sandbox): exactly what
 * /repo/linux-ebpf/ebpf_cgroup.c uses when it is compiled for the bpf target by checks/realmaps.py.  Helper numbers
 * are those of include/uapi/linux/bpf.h (enum bpf_func_id); map definitions use the BTF-defined form libbpf documents
 * (__uint/__type), which is what aya's loader parses from the .maps section. */
#ifndef VERIF_BPFINC_BPF_HELPERS_H
#define VERIF_BPFINC_BPF_HELPERS_H
#define SEC(name) __attribute__((section(name), used))
#define __uint(name, val) int(*name)[val]
#define __type(name, val) typeof(val) *name
#ifndef __always_inline
#define __always_inline inline __attribute__((always_inline))
#endif
#ifndef NULL
#define NULL ((void *)0)
#endif
static void *(*bpf_map_lookup_elem)(void *map, const void *key) = (void *)1;
static long (*bpf_map_update_elem)(void *map, const void *key, const void *value, __u64 flags) = (void *)2;
static long (*bpf_map_delete_elem)(void *map, const void *key) = (void *)3;
static long (*bpf_probe_read)(void *dst, __u32 size, const void *unsafe_ptr) = (void *)4;
static __u64 (*bpf_ktime_get_ns)(void) = (void *)5;
static long (*bpf_trace_printk)(const char *fmt, __u32 fmt_size, ...) = (void *)6;
static __u64 (*bpf_get_current_pid_tgid)(void) = (void *)14;
static __u64 (*bpf_get_current_uid_gid)(void) = (void *)15;
static __u64 (*bpf_get_socket_cookie)(void *ctx) = (void *)46;
static long (*bpf_probe_read_kernel)(void *dst, __u32 size, const void *unsafe_ptr) = (void *)113;
#define bpf_printk(fmt, ...)                                       \
    ({                                                             \
        char ____fmt[] = fmt;                                      \
        bpf_trace_printk(____fmt, sizeof(____fmt), ##__VA_ARGS__); \
    })
#endif
