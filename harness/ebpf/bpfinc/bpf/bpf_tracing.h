/* Stand-in for libbpf's <bpf/bpf_tracing.h>, x86-64 only (first kprobe argument in rdi). */
#ifndef VERIF_BPFINC_BPF_TRACING_H
#define VERIF_BPFINC_BPF_TRACING_H
#define PT_REGS_PARM1(x) ((x)->rdi)
#define BPF_KPROBE(name, args...)                                       \
    name(struct pt_regs *ctx);                                          \
    static __always_inline int ____##name(struct pt_regs *ctx, ##args); \
    int name(struct pt_regs *ctx)                                       \
    {                                                                   \
        return ____##name(ctx, (void *)PT_REGS_PARM1(ctx));             \
    }                                                                   \
    static __always_inline int ____##name(struct pt_regs *ctx, ##args)
#endif
