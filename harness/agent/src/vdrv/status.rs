//! X01_STATUS driver (VERIF_CMD=status): JSON lines on stdin -> one JSON line per command in the file named by
//! VERIF_OUT.  Drives the REAL AgentStatusSharedState actor and the REAL ProxyAgentStatusTask (only `new` and
//! `start` are public: the loop is driven from outside, never re-implemented here).
//!
//! The first line chooses the mode:
//!
//! `{"op":"init","mode":"lockstep","dir":D,"events":E,"interval_ms":I,"clock_file":F}`
//!   current-thread runtime with the tokio clock PAUSED.  The status task sleeps with tokio::time::sleep(I); the
//!   driver stays half an interval out of phase, so `tick` (= sleep(I) in the driver) returns when exactly one
//!   iteration of loop_status has run to completion (the paused clock only auto-advances when every task is idle;
//!   the task's file IO is synchronous).  The two deadlines of loop_status (15 min event, 24 h clear) are measured
//!   with std::time::Instant, which the tokio clock does not move: `advance` adds seconds to the offset file read
//!   by the LD_PRELOAD clock shim the check builds (checks/x01_status.py); without the shim `advance` reports
//!   `"shim":false`.  The real telemetry event logger runs with interval I/5 into E; every answer carries the
//!   events flushed since the previous answer.
//!   ops: set_state, set_msg, add, inc_http, inc_tcp, get_status, advance, tick, fs_block, restart, quit.
//!
//! `{"op":"init","mode":"stress","dir":D,"interval_ms":I,"tasks":[{"ops":[...]}, ...],"settle_ms":S,"forever":b}`
//!   multi-thread runtime, real time.  Every task runs its ops in order against the shared actor (each op may
//!   carry "sleep_us"); every call and every return takes a ticket from one global counter.  A reader thread polls
//!   status.json (ticket before the open, ticket after the read) and records every change of content, whether the
//!   bytes parse as the real GuestProxyAgentAggregateStatus, and the ticket of the last read that still saw the
//!   previous content.  Rows are written sorted by ticket.  With "forever" the tasks repeat their ops until the
//!   process is killed (crash experiments).
use crate::proxy::proxy_summary::ProxySummary;
use crate::proxy_agent_status::ProxyAgentStatusTask;
use crate::shared_state::agent_status_wrapper::{AgentStatusModule, AgentStatusSharedState};
use crate::shared_state::key_keeper_wrapper::KeyKeeperSharedState;
use proxy_agent_shared::proxy_agent_aggregate_status::{GuestProxyAgentAggregateStatus, ModuleState};
use proxy_agent_shared::telemetry::event_logger;
use serde_json::{json, Value};
use std::io::{BufRead, Write};
use std::os::unix::fs::MetadataExt;
use std::path::{Path, PathBuf};
use std::sync::atomic::{AtomicBool, AtomicU64, Ordering};
use std::sync::{Arc, Mutex};
use std::time::Duration;
use tokio_util::sync::CancellationToken;

fn module_of(name: &str) -> Option<AgentStatusModule> {
    Some(match name {
        "KeyKeeper" => AgentStatusModule::KeyKeeper,
        "TelemetryReader" => AgentStatusModule::TelemetryReader,
        "TelemetryLogger" => AgentStatusModule::TelemetryLogger,
        "Redirector" => AgentStatusModule::Redirector,
        "ProxyServer" => AgentStatusModule::ProxyServer,
        "ProxyAgentStatus" => AgentStatusModule::ProxyAgentStatus,
        _ => return None,
    })
}

fn state_of(name: &str) -> Option<ModuleState> {
    Some(match name {
        "UNKNOWN" => ModuleState::UNKNOWN,
        "RUNNING" => ModuleState::RUNNING,
        "STOPPED" => ModuleState::STOPPED,
        _ => return None,
    })
}

fn summary_of(v: &Value) -> Result<ProxySummary, String> {
    // every field of ProxySummary may be given; the ones that make the key have defaults
    let mut full = json!({
        "id": 1, "method": "GET", "url": "/x", "clientIp": "127.0.0.1", "clientPort": 1000, "ip": "168.63.129.16",
        "port": 80, "userId": 0, "userName": "root", "userGroups": ["root"], "processFullPath": "/usr/bin/x",
        "processCmdLine": "x", "runAsElevated": true, "responseStatus": "200 OK", "elapsedTime": 1,
        "errorDetails": ""
    });
    if let (Some(dst), Some(src)) = (full.as_object_mut(), v.as_object()) {
        for (k, val) in src {
            dst.insert(k.clone(), val.clone());
        }
    }
    serde_json::from_value::<ProxySummary>(full).map_err(|e| e.to_string())
}

/// one operation on the real actor; the answer is what the real call returned
async fn do_op(st: &AgentStatusSharedState, cmd: &Value) -> Value {
    match cmd["op"].as_str().unwrap_or("") {
        "set_state" => {
            let (m, s) = match (
                module_of(cmd["module"].as_str().unwrap_or("")),
                state_of(cmd["state"].as_str().unwrap_or("")),
            ) {
                (Some(m), Some(s)) => (m, s),
                _ => return json!({"error": "bad module/state"}),
            };
            match st.set_module_state(s, m).await {
                Ok(r) => json!({"ok": true, "r": format!("{:?}", r)}),
                Err(e) => json!({"ok": false, "err": e.to_string()}),
            }
        }
        "set_msg" => {
            let m = match module_of(cmd["module"].as_str().unwrap_or("")) {
                Some(m) => m,
                None => return json!({"error": "bad module"}),
            };
            match st
                .set_module_status_message(cmd["text"].as_str().unwrap_or("").to_string(), m)
                .await
            {
                Ok(r) => json!({"ok": true, "r": r}),
                Err(e) => json!({"ok": false, "err": e.to_string()}),
            }
        }
        "add" => {
            let s = match summary_of(&cmd["summary"]) {
                Ok(s) => s,
                Err(e) => return json!({"error": format!("bad summary: {}", e)}),
            };
            let key = s.to_key_string();
            let r = if cmd["bag"].as_str() == Some("fail") {
                st.add_one_failed_connection_summary(s).await
            } else {
                st.add_one_connection_summary(s).await
            };
            match r {
                Ok(()) => json!({"ok": true, "key": key}),
                Err(e) => json!({"ok": false, "err": e.to_string()}),
            }
        }
        "inc_http" => match st.increase_connection_count().await {
            Ok(n) => json!({"ok": true, "r": n as u64}),
            Err(e) => json!({"ok": false, "err": e.to_string()}),
        },
        "inc_tcp" => match st.increase_tcp_connection_count().await {
            Ok(n) => json!({"ok": true, "r": n as u64}),
            Err(e) => json!({"ok": false, "err": e.to_string()}),
        },
        "get_status" => {
            let m = match module_of(cmd["module"].as_str().unwrap_or("")) {
                Some(m) => m,
                None => return json!({"error": "bad module"}),
            };
            let d = st.get_module_status(m).await;
            json!({"ok": true, "status": format!("{:?}", d.status), "message": d.message})
        }
        other => json!({"error": format!("unknown op '{}'", other)}),
    }
}

struct Session {
    status: AgentStatusSharedState,
    token: CancellationToken,
    handle: tokio::task::JoinHandle<()>,
}

fn start_session(dir: &Path, interval: Duration) -> Session {
    let status = AgentStatusSharedState::start_new();
    let token = CancellationToken::new();
    let task = ProxyAgentStatusTask::new(
        interval,
        dir.to_path_buf(),
        token.clone(),
        KeyKeeperSharedState::start_new(),
        status.clone(),
    );
    let handle = tokio::spawn(async move { task.start().await });
    Session { status, token, handle }
}

/// events flushed by the real event logger since the last call (files are consumed)
fn drain_events(dir: &Path) -> Vec<Value> {
    let mut out = Vec::new();
    let mut files: Vec<PathBuf> = match std::fs::read_dir(dir) {
        Ok(rd) => rd.filter_map(|e| e.ok().map(|e| e.path())).collect(),
        Err(_) => return out,
    };
    files.sort();
    for p in files {
        if p.extension().map(|e| e == "json").unwrap_or(false) {
            if let Ok(bytes) = std::fs::read(&p) {
                if let Ok(Value::Array(a)) = serde_json::from_slice::<Value>(&bytes) {
                    for e in a {
                        out.push(json!({"task": e["TaskName"], "op": e["OperationId"], "level": e["EventLevel"],
                                        "message": e["Message"]}));
                    }
                }
            }
            let _ = std::fs::remove_file(&p);
        }
    }
    out
}

struct Watch {
    held: Option<std::fs::File>, // keeps the inode of the last seen status.json alive: a new file has a new inode
    ino: u64,
}

fn observe(dir: &Path, events: &Path, w: &mut Watch) -> Value {
    let path = dir.join("status.json");
    let tmp = dir.join("status.tmp");
    let tmp_state = match std::fs::symlink_metadata(&tmp) {
        Ok(m) if m.is_dir() => "dir",
        Ok(_) => "file",
        Err(_) => "absent",
    };
    let mut o = json!({"tmp": tmp_state, "events": drain_events(events)});
    match std::fs::File::open(&path) {
        Err(_) => {
            o["file"] = json!("absent");
        }
        Ok(f) => {
            let ino = f.metadata().map(|m| m.ino()).unwrap_or(0);
            o["fresh"] = json!(w.held.is_none() || ino != w.ino);
            let raw = std::fs::read(&path).unwrap_or_default();
            o["real_ok"] = json!(serde_json::from_slice::<GuestProxyAgentAggregateStatus>(&raw).is_ok());
            match serde_json::from_slice::<Value>(&raw) {
                Ok(v) => {
                    o["file"] = json!("doc");
                    o["doc"] = v;
                    // serde_json::Value sorts object keys: the text keeps the order the task wrote
                    o["raw"] = json!(String::from_utf8_lossy(&raw).to_string());
                }
                Err(e) => {
                    o["file"] = json!("bad");
                    o["bad"] = json!(e.to_string());
                    o["raw"] = json!(String::from_utf8_lossy(&raw).to_string());
                }
            }
            w.held = Some(f);
            w.ino = ino;
        }
    }
    o
}

fn clock_advance(file: &Option<PathBuf>, total: &mut i64, secs: i64) -> bool {
    *total += secs;
    match file {
        Some(p) => {
            use std::os::unix::fs::FileExt;
            match std::fs::OpenOptions::new().write(true).open(p) {
                Ok(f) => f.write_all_at(&total.to_le_bytes(), 0).is_ok(),
                Err(_) => false,
            }
        }
        None => false,
    }
}

fn lockstep(init: &Value, out: &mut std::fs::File) -> i32 {
    let dir = PathBuf::from(init["dir"].as_str().unwrap_or("status"));
    let events = PathBuf::from(init["events"].as_str().unwrap_or("events"));
    let interval = Duration::from_millis(init["interval_ms"].as_u64().unwrap_or(1000));
    let clock_file = init["clock_file"].as_str().map(PathBuf::from);
    let rt = match tokio::runtime::Builder::new_current_thread()
        .enable_all()
        .start_paused(true)
        .build()
    {
        Ok(r) => r,
        Err(e) => {
            eprintln!("status: runtime: {}", e);
            return 2;
        }
    };
    rt.block_on(async move {
        let _ = std::fs::create_dir_all(&events);
        tokio::spawn(event_logger::start(events.clone(), interval / 5, 1_000_000, |_| async {}));
        // does the monotonic clock follow the offset file?  (only with the LD_PRELOAD shim)
        let mut offset: i64 = 0;
        let shim = {
            let t0 = std::time::Instant::now();
            let ok = clock_advance(&clock_file, &mut offset, 1000);
            ok && t0.elapsed() >= Duration::from_secs(999)
        };
        let mut sess = start_session(&dir, interval);
        let mut watch = Watch { held: None, ino: 0 };
        tokio::time::sleep(interval / 2).await;
        let mut first = observe(&dir, &events, &mut watch);
        first["shim"] = json!(shim);
        first["op"] = json!("init");
        if writeln!(out, "{}", first).is_err() {
            return 2;
        }
        let stdin = std::io::stdin();
        let mut line = String::new();
        loop {
            line.clear();
            match stdin.lock().read_line(&mut line) {
                Ok(0) => break,
                Ok(_) => {}
                Err(_) => return 2,
            }
            if line.trim().is_empty() {
                continue;
            }
            let cmd: Value = match serde_json::from_str(&line) {
                Ok(v) => v,
                Err(e) => {
                    eprintln!("status: bad command: {}", e);
                    return 2;
                }
            };
            let mut ans = match cmd["op"].as_str().unwrap_or("") {
                "quit" => break,
                "tick" => {
                    for _ in 0..cmd["n"].as_u64().unwrap_or(1).max(1) {
                        tokio::time::sleep(interval).await;
                    }
                    observe(&dir, &events, &mut watch)
                }
                "advance" => {
                    let ok = clock_advance(&clock_file, &mut offset, cmd["secs"].as_i64().unwrap_or(0));
                    json!({"ok": ok, "shim": shim})
                }
                "fs_block" => {
                    // status.tmp as a directory: File::create fails, the error path of write_aggregate_status_to_file
                    let tmp = dir.join("status.tmp");
                    let r = if cmd["on"].as_bool().unwrap_or(true) {
                        let _ = std::fs::remove_file(&tmp);
                        std::fs::create_dir(&tmp)
                    } else {
                        std::fs::remove_dir(&tmp)
                    };
                    json!({"ok": r.is_ok()})
                }
                "restart" => {
                    // the process "dies": task cancelled, actor dropped; the files stay.  A new actor and task start.
                    sess.token.cancel();
                    let _ = (&mut sess.handle).await;
                    sess = start_session(&dir, interval);
                    tokio::time::sleep(interval / 2).await;
                    observe(&dir, &events, &mut watch)
                }
                _ => do_op(&sess.status, &cmd).await,
            };
            ans["op"] = cmd["op"].clone();
            if writeln!(out, "{}", ans).is_err() || out.flush().is_err() {
                return 2;
            }
        }
        0
    })
}

fn stress(init: &Value, out: &mut std::fs::File) -> i32 {
    let dir = PathBuf::from(init["dir"].as_str().unwrap_or("status"));
    let interval = Duration::from_millis(init["interval_ms"].as_u64().unwrap_or(1));
    let settle = Duration::from_millis(init["settle_ms"].as_u64().unwrap_or(30));
    let forever = init["forever"].as_bool().unwrap_or(false);
    let tasks: Vec<Value> = init["tasks"].as_array().cloned().unwrap_or_default();
    let rt = match tokio::runtime::Builder::new_multi_thread()
        .worker_threads(4)
        .enable_all()
        .build()
    {
        Ok(r) => r,
        Err(e) => {
            eprintln!("status: runtime: {}", e);
            return 2;
        }
    };
    let ticket = Arc::new(AtomicU64::new(1));
    let rows: Arc<Mutex<Vec<Value>>> = Arc::new(Mutex::new(Vec::new()));
    let stop = Arc::new(AtomicBool::new(false));
    // the reader: an independent thread, like the extension's monitor reading the file
    let reader = {
        let (ticket, rows, stop, path) = (ticket.clone(), rows.clone(), stop.clone(), dir.join("status.json"));
        std::thread::spawn(move || {
            let mut last: Option<Vec<u8>> = None; // None: absent
            let mut seen_any = false;
            let mut last_same_r0: u64 = 0;
            let mut reads: u64 = 0;
            while !stop.load(Ordering::SeqCst) {
                let r0 = ticket.fetch_add(1, Ordering::SeqCst);
                let cur = std::fs::read(&path).ok();
                let r1 = ticket.fetch_add(1, Ordering::SeqCst);
                reads += 1;
                if cur == last {
                    last_same_r0 = r0;
                    continue;
                }
                let mut row = json!({"e": "pub", "seq": r1, "r0": r0, "prev_r0": last_same_r0});
                match &cur {
                    None => {
                        row["kind"] = json!(if seen_any { "vanished" } else { "absent" });
                    }
                    Some(bytes) => {
                        seen_any = true;
                        let real_ok = serde_json::from_slice::<GuestProxyAgentAggregateStatus>(bytes).is_ok();
                        match serde_json::from_slice::<Value>(bytes) {
                            Ok(v) if real_ok => {
                                row["kind"] = json!("doc");
                                row["doc"] = v;
                            }
                            _ => {
                                row["kind"] = json!("bad");
                                row["raw"] = json!(String::from_utf8_lossy(bytes).to_string());
                            }
                        }
                    }
                }
                rows.lock().unwrap().push(row);
                last = cur;
                last_same_r0 = r0;
            }
            reads
        })
    };
    let code = rt.block_on(async {
        let sess = start_session(&dir, interval);
        let mut handles = Vec::new();
        for (ti, t) in tasks.iter().enumerate() {
            let ops: Vec<Value> = t["ops"].as_array().cloned().unwrap_or_default();
            let (st, ticket, rows) = (sess.status.clone(), ticket.clone(), rows.clone());
            handles.push(tokio::spawn(async move {
                let mut n = 0u64;
                loop {
                    for op in ops.iter() {
                        if let Some(us) = op["sleep_us"].as_u64() {
                            if us > 0 {
                                tokio::time::sleep(Duration::from_micros(us)).await;
                            } else {
                                tokio::task::yield_now().await;
                            }
                        }
                        n += 1;
                        let id = format!("{}.{}", ti, n);
                        let t0 = ticket.fetch_add(1, Ordering::SeqCst);
                        let r = do_op(&st, op).await;
                        let t1 = ticket.fetch_add(1, Ordering::SeqCst);
                        let mut v = rows.lock().unwrap();
                        v.push(json!({"e": "call", "seq": t0, "i": id, "t": ti, "cmd": op}));
                        v.push(json!({"e": "ret", "seq": t1, "i": id, "t": ti, "ans": r}));
                    }
                    if !forever {
                        break;
                    }
                }
            }));
        }
        for h in handles {
            if h.await.is_err() {
                return 2;
            }
        }
        // let the last state be published and seen
        tokio::time::sleep(interval * 4 + settle).await;
        sess.token.cancel();
        let _ = sess.handle.await;
        0
    });
    stop.store(true, Ordering::SeqCst);
    let reads = reader.join().unwrap_or(0);
    let mut v = rows.lock().unwrap();
    v.sort_by_key(|r| r["seq"].as_u64().unwrap_or(0));
    for r in v.iter() {
        if writeln!(out, "{}", r).is_err() {
            return 2;
        }
    }
    let _ = writeln!(out, "{}", json!({"e": "done", "reads": reads, "rows": v.len()}));
    code
}

pub fn main() -> i32 {
    let out_path = match std::env::var("VERIF_OUT") {
        Ok(p) => p,
        Err(_) => {
            eprintln!("status: VERIF_OUT not set");
            return 2;
        }
    };
    let mut out = match std::fs::File::create(&out_path) {
        Ok(f) => f,
        Err(e) => {
            eprintln!("status: cannot create {}: {}", out_path, e);
            return 2;
        }
    };
    let mut line = String::new();
    if std::io::stdin().lock().read_line(&mut line).unwrap_or(0) == 0 {
        eprintln!("status: no init line");
        return 2;
    }
    let init: Value = match serde_json::from_str(&line) {
        Ok(v) => v,
        Err(e) => {
            eprintln!("status: bad init: {}", e);
            return 2;
        }
    };
    match init["mode"].as_str().unwrap_or("") {
        "lockstep" => lockstep(&init, &mut out),
        "stress" => stress(&init, &mut out),
        other => {
            eprintln!("status: unknown mode '{}'", other);
            2
        }
    }
}
