//! driver stub (VERIF_CMD=telemetry)
pub fn main() -> i32 {
    eprintln!("not built yet");
    2
}
