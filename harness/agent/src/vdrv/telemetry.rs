//! C18 driver (VERIF_CMD=telemetry): one pass of the real `EventReader` over a set of event files, per case.
//!
//! Inputs : VERIF_SCRIPT = JSON {"events_dir": dir, "cases": [case...]},  VERIF_OUT = output directory.
//!   case = {"id": str,
//!           "files": [{"name": "0001.json", "raw": str | null,            // raw: written verbatim (unreadable file)
//!                      "events": [{"level","message","version","task","pid","tid","op","ts"}]}],
//!           "replies": ["ok"|"503"|"500"|"400"|"429"|"reset"|"close", ...],     // n-th telemetry POST gets replies[n]
//!           "default_reply": "ok", "post_limit": N,
//!           "passes": 1,                                   // reader passes the case lasts
//!           "publish_at_post": {"n": k, "from": "0002.tmp", "to": "0002.json"}}   // the event logger's rename, during the k-th POST
//!   every text field is a recipe [[string, repeat], ...] (keeps scripts small for 64 KiB messages).
//! The files are written with the repository's own `Event` type and `misc_helpers::json_write_to_file` (what
//! `event_logger` does).  Mock hosts (std threads, this file) listen on the REAL endpoints 168.63.129.16:80 and
//! 169.254.169.254:80 (the check runs us inside a private network namespace) and serve goal state, shared config
//! and IMDS instance info; the telemetry endpoint records the raw body of every POST and answers as scripted.
//! `EventReader::start` is the highest public entry (process_events_and_clean is private): it runs passes
//! forever, so the pass is delimited by the mock host: the SECOND goal-state GET means the first pass is over
//! (loop_reader went round) and the host thread cancels the reader's token.  The tokio clock is paused
//! (`start_paused`): the 15 s back-offs and the inter-pass sleep auto-advance; no timer is pending while a socket
//! operation is in flight (hyper_client has no time-outs), so auto-advance cannot fire during IO.
//! Outputs: <out>/results.ndjson (one line per case: posts with body files, remaining files, termination),
//!          <out>/<case>_p<k>.bin raw POSTed bodies, <out>/trace.ndjson (panic records).
use super::env;
use crate::shared_state::agent_status_wrapper::AgentStatusSharedState;
use crate::shared_state::key_keeper_wrapper::KeyKeeperSharedState;
use crate::shared_state::telemetry_wrapper::TelemetrySharedState;
use crate::telemetry::event_reader::EventReader;
use crate::verif;
use once_cell::sync::Lazy;
use proxy_agent_shared::misc_helpers;
use proxy_agent_shared::telemetry::Event;
use serde_json::{json, Value};
use std::io::{Read, Write};
use std::net::{TcpListener, TcpStream};
use std::os::fd::AsRawFd;
use std::path::PathBuf;
use std::sync::Mutex;
use std::time::Duration;
use tokio_util::sync::CancellationToken;

const WS: &str = "168.63.129.16:80";
const IMDS: &str = "169.254.169.254:80";

#[derive(Default)]
struct CaseState {
    id: String,
    out_dir: PathBuf,
    replies: Vec<String>,
    default_reply: String,
    post_limit: usize,
    posts: Vec<Value>,
    last_body: Option<Vec<u8>>,
    goalstate_gets: u32,
    config_gets: u32,
    imds_gets: u32,
    other: Vec<String>,
    token: Option<CancellationToken>,
    reason: String,
    started: Option<std::time::Instant>,
    passes: u32,                              // reader passes the case lasts (default 1)
    publish: Option<(usize, PathBuf, PathBuf)>, // at the n-th POST the writer's rename happens: (n, from, to)
}

static STATE: Lazy<Mutex<CaseState>> = Lazy::new(|| Mutex::new(CaseState::default()));
static RESULTS: Lazy<Mutex<Option<std::fs::File>>> = Lazy::new(|| Mutex::new(None));

fn write_result(line: &Value) {
    if let Some(f) = RESULTS.lock().unwrap().as_mut() {
        let _ = writeln!(f, "{}", line);
        let _ = f.flush();
    }
}

fn find(hay: &[u8], needle: &[u8], from: usize) -> Option<usize> {
    if hay.len() < needle.len() || from > hay.len() - needle.len() {
        return None;
    }
    (from..=hay.len() - needle.len()).find(|&i| &hay[i..i + needle.len()] == needle)
}

struct Req {
    method: String,
    target: String,
    headers: Vec<(String, String)>,
    body: Vec<u8>,
}

/// One HTTP/1.1 request from the stream (content-length or chunked framing). None on EOF / error.
fn read_request(s: &mut TcpStream, buf: &mut Vec<u8>) -> Option<Req> {
    let mut tmp = vec![0u8; 65536];
    loop {
        if let Some(he) = find(buf, b"\r\n\r\n", 0) {
            let head = String::from_utf8_lossy(&buf[..he]).to_string();
            let mut lines = head.split("\r\n");
            let first = lines.next().unwrap_or("");
            let mut it = first.splitn(3, ' ');
            let method = it.next().unwrap_or("").to_string();
            let target = it.next().unwrap_or("").to_string();
            let mut headers = Vec::new();
            for l in lines {
                if let Some(ci) = l.find(':') {
                    headers.push((l[..ci].trim().to_ascii_lowercase(), l[ci + 1..].trim().to_string()));
                }
            }
            let get = |n: &str| headers.iter().find(|(k, _)| k == n).map(|(_, v)| v.clone());
            let start = he + 4;
            let chunked = get("transfer-encoding").map(|v| v.to_ascii_lowercase().contains("chunked")).unwrap_or(false);
            if chunked {
                // decode what is there; need the terminating 0-chunk
                let mut pos = start;
                let mut body = Vec::new();
                let mut complete = false;
                loop {
                    let le = match find(buf, b"\r\n", pos) {
                        Some(i) => i,
                        None => break,
                    };
                    let szs = String::from_utf8_lossy(&buf[pos..le]).to_string();
                    let n = usize::from_str_radix(szs.split(';').next().unwrap_or("").trim(), 16).unwrap_or(0);
                    if n == 0 {
                        if let Some(e) = find(buf, b"\r\n", le + 2) {
                            let _ = e;
                            pos = le + 4;
                            complete = true;
                        }
                        break;
                    }
                    if buf.len() < le + 2 + n + 2 {
                        break;
                    }
                    body.extend_from_slice(&buf[le + 2..le + 2 + n]);
                    pos = le + 2 + n + 2;
                }
                if complete {
                    let pos = pos.min(buf.len());
                    buf.drain(..pos);
                    return Some(Req { method, target, headers, body });
                }
            } else {
                let cl: usize = get("content-length").and_then(|v| v.parse().ok()).unwrap_or(0);
                if buf.len() >= start + cl {
                    let body = buf[start..start + cl].to_vec();
                    buf.drain(..start + cl);
                    return Some(Req { method, target, headers, body });
                }
            }
        }
        match s.read(&mut tmp) {
            Ok(0) => return None,
            Ok(n) => buf.extend_from_slice(&tmp[..n]),
            Err(_) => return None,
        }
    }
}

fn respond(s: &mut TcpStream, status: u16, ctype: &str, body: &[u8]) -> bool {
    let head = format!(
        "HTTP/1.1 {} X\r\ncontent-type: {}\r\ncontent-length: {}\r\n\r\n",
        status,
        ctype,
        body.len()
    );
    s.write_all(head.as_bytes()).and_then(|_| s.write_all(body)).and_then(|_| s.flush()).is_ok()
}

fn set_linger0(s: &TcpStream) {
    let l = libc::linger { l_onoff: 1, l_linger: 0 };
    unsafe {
        libc::setsockopt(
            s.as_raw_fd(),
            libc::SOL_SOCKET,
            libc::SO_LINGER,
            &l as *const _ as *const libc::c_void,
            std::mem::size_of::<libc::linger>() as libc::socklen_t,
        );
    }
}

const GOAL_STATE: &str = r#"<?xml version="1.0" encoding="utf-8"?>
<GoalState xmlns:xsi="http://www.w3.org/2001/XMLSchema-instance" xsi:noNamespaceSchemaLocation="goalstate10.xsd">
  <Version>2015-04-05</Version>
  <Incarnation>16</Incarnation>
  <Machine>
    <ExpectedState>Started</ExpectedState>
    <StopRolesDeadlineHint>300000</StopRolesDeadlineHint>
    <LBProbePorts><Port>16001</Port></LBProbePorts>
    <ExpectHealthReport>TRUE</ExpectHealthReport>
  </Machine>
  <Container>
    <ContainerId>374188df-b0a2-456a-a7b2-83f28b18d36f</ContainerId>
    <RoleInstanceList>
      <RoleInstance>
        <InstanceId>verif.Worker_IN_0</InstanceId>
        <State>Started</State>
        <Configuration>
          <HostingEnvironmentConfig>http://168.63.129.16:80/machine/c/i?comp=config&amp;type=hostingEnvironmentConfig&amp;incarnation=16</HostingEnvironmentConfig>
          <SharedConfig>http://168.63.129.16:80/machine/c/i?comp=config&amp;type=sharedConfig&amp;incarnation=16</SharedConfig>
          <ExtensionsConfig>http://168.63.129.16:80/machine/c/i?comp=config&amp;type=extensionsConfig&amp;incarnation=16</ExtensionsConfig>
          <FullConfig>http://168.63.129.16:80/machine/c/i?comp=config&amp;type=fullConfig&amp;incarnation=16</FullConfig>
          <Certificates>http://168.63.129.16:80/machine/c/i?comp=certificates&amp;incarnation=16</Certificates>
          <ConfigName>verif.1.xml</ConfigName>
        </Configuration>
      </RoleInstance>
    </RoleInstanceList>
  </Container>
</GoalState>"#;

const SHARED_CONFIG: &str = r#"<?xml version="1.0" encoding="utf-8"?>
<SharedConfig version="1.0.0.0" goalStateIncarnation="16">
  <Deployment name="verif-deployment" guid="{25a2c1a1-2986-4d1c-bd37-6abe8571218d}" incarnation="132" isNonCancellableTopologyChangeEnabled="false">
    <Service name="Verif.Cloud" guid="{00000000-0000-0000-0000-000000000000}" />
  </Deployment>
  <Incarnation number="1" instance="verif.Worker_IN_0" guid="{b0b40fde-461e-461b-a451-af58347321a9}" />
  <Role guid="{953935f8-9317-74e0-4236-7854486dd013}" name="verif.Worker" settleTimeSeconds="0" />
  <Instances>
    <Instance id="verif.Worker_IN_0" address="10.1.64.6" />
  </Instances>
</SharedConfig>"#;

const INSTANCE_INFO: &str = r#"{"compute": {"location": "westus", "name": "verifvm", "offer": "VerifOffer",
 "resourceGroupName": "verif-rg", "subscriptionId": "aaaaaaaa-bbbb-cccc-dddd-eeeeeeeeeeee",
 "vmId": "02aab8a4-74ef-476e-8182-f6d2ba4166a6", "vmSize": "Standard_D2s_v3"}}"#;

fn host_conn(host: &'static str, mut s: TcpStream) {
    let _ = s.set_read_timeout(Some(Duration::from_secs(30)));
    let _ = s.set_nodelay(true);
    let mut buf = Vec::new();
    while let Some(req) = read_request(&mut s, &mut buf) {
        let t = req.target.clone();
        if host == "imds" {
            STATE.lock().unwrap().imds_gets += 1;
            if !respond(&mut s, 200, "application/json; charset=utf-8", INSTANCE_INFO.as_bytes()) {
                return;
            }
            continue;
        }
        if req.method == "GET" && t.contains("comp=goalstate") {
            let over = {
                let mut st = STATE.lock().unwrap();
                st.goalstate_gets += 1;
                if st.goalstate_gets >= 2 {
                    // a pass is over: a hand-over still pending is finished now at the latest
                    if let Some((_, from, to)) = st.publish.take() {
                        let _ = std::fs::rename(&from, &to);
                    }
                }
                if st.goalstate_gets >= st.passes.max(1) + 1 {
                    if st.reason.is_empty() {
                        st.reason = "pass-complete".to_string();
                    }
                    if let Some(tk) = st.token.as_ref() {
                        tk.cancel();
                    }
                    true
                } else {
                    false
                }
            };
            if over {
                // the pass is over and the reader has been cancelled: no answer
                return;
            }
            if !respond(&mut s, 200, "text/xml; charset=utf-8", GOAL_STATE.as_bytes()) {
                return;
            }
        } else if req.method == "GET" && t.contains("type=sharedConfig") {
            STATE.lock().unwrap().config_gets += 1;
            if !respond(&mut s, 200, "text/xml; charset=utf-8", SHARED_CONFIG.as_bytes()) {
                return;
            }
        } else if req.method == "POST" && t.contains("comp=telemetrydata") {
            let reply = {
                let mut st = STATE.lock().unwrap();
                let k = st.posts.len();
                let same = st.last_body.as_deref() == Some(&req.body[..]);
                let mut reply = st.replies.get(k).cloned().unwrap_or_else(|| st.default_reply.clone());
                let mut file = Value::Null;
                if !same {
                    let name = format!("{}_p{}.bin", st.id, k);
                    let _ = std::fs::write(st.out_dir.join(&name), &req.body);
                    file = json!(name);
                }
                if let Some((n, from, to)) = st.publish.clone() {
                    if n == k {
                        // the event logger (same process, same directory) finishes its hand-over now: <name>.tmp -> <name>.json
                        let _ = std::fs::rename(&from, &to);
                        st.publish = None;
                    }
                }
                if k + 1 >= st.post_limit {
                    // more POSTs than any terminating reader could need: stop the experiment here
                    st.reason = "post-limit".to_string();
                    if let Some(tk) = st.token.as_ref() {
                        tk.cancel();
                    }
                    reply = "503".to_string();
                }
                let hdrs: serde_json::Map<String, Value> =
                    req.headers.iter().map(|(k, v)| (k.clone(), json!(v))).collect();
                let real_ms = st.started.map(|x| x.elapsed().as_millis() as u64).unwrap_or(0);
                st.posts.push(json!({"n": k, "len": req.body.len(), "same": same, "file": file, "reply": reply,
                    "target": t, "headers": hdrs,
                    "real_ms": real_ms}));
                st.last_body = Some(req.body);
                reply
            };
            match reply.as_str() {
                "ok" => {
                    if !respond(&mut s, 200, "text/plain", b"") {
                        return;
                    }
                }
                "reset" => {
                    set_linger0(&s);
                    return; // drop => RST
                }
                "close" => {
                    let _ = s.shutdown(std::net::Shutdown::Both);
                    return;
                }
                code => {
                    let c: u16 = code.parse().unwrap_or(503);
                    if !respond(&mut s, c, "text/plain", b"scripted failure") {
                        return;
                    }
                }
            }
        } else {
            STATE.lock().unwrap().other.push(format!("{} {}", req.method, t));
            if !respond(&mut s, 404, "text/plain", b"") {
                return;
            }
        }
    }
}

fn start_host(host: &'static str, addr: &str) -> Result<(), String> {
    let l = TcpListener::bind(addr).map_err(|e| format!("bind {}: {}", addr, e))?;
    std::thread::Builder::new()
        .name(format!("host-{}", host))
        .spawn(move || {
            for s in l.incoming().flatten() {
                std::thread::spawn(move || host_conn(host, s));
            }
        })
        .unwrap();
    Ok(())
}

fn expand(v: &Value) -> String {
    match v {
        Value::String(s) => s.clone(),
        Value::Array(a) => {
            let mut out = String::new();
            for seg in a {
                let s = seg[0].as_str().unwrap_or("");
                let n = seg[1].as_u64().unwrap_or(1) as usize;
                out.reserve(s.len() * n);
                for _ in 0..n {
                    out.push_str(s);
                }
            }
            out
        }
        _ => String::new(),
    }
}

fn list_dir(dir: &PathBuf) -> Vec<String> {
    let mut v: Vec<String> = std::fs::read_dir(dir)
        .map(|rd| rd.flatten().map(|e| e.file_name().to_string_lossy().to_string()).collect())
        .unwrap_or_default();
    v.sort();
    v
}

pub fn main() -> i32 {
    let script: Value = serde_json::from_str(&std::fs::read_to_string(env("VERIF_SCRIPT")).expect("script")).expect("script json");
    let out_dir = PathBuf::from(env("VERIF_OUT"));
    let _ = std::fs::create_dir_all(&out_dir);
    verif::trace::set_file(out_dir.join("trace.ndjson").to_str().unwrap());
    let events_dir = PathBuf::from(script["events_dir"].as_str().expect("events_dir"));
    if let Err(e) = start_host("ws", WS).and_then(|_| start_host("imds", IMDS)) {
        eprintln!("harness: {}", e);
        return 2;
    }
    *RESULTS.lock().unwrap() = Some(std::fs::File::create(out_dir.join("results.ndjson")).expect("results"));
    let wall_limit = Duration::from_secs(script["case_wall_limit_s"].as_u64().unwrap_or(30));
    let wd_dir = events_dir.clone();
    // watchdog: with the clock paused a case takes milliseconds; one that is still running after the wall-clock
    // limit (hundreds of times the normal duration) without reaching the POST bound is recorded as data
    // (reason "wall-limit", not terminated) and the process ends; the check re-executes it before believing it.
    std::thread::spawn(move || loop {
        std::thread::sleep(Duration::from_millis(200));
        let st = STATE.lock().unwrap();
        if let Some(t0) = st.started {
            if t0.elapsed() > wall_limit {
                eprintln!("harness: case {} exceeded the wall-clock limit (posts so far: {})", st.id, st.posts.len());
                verif::trace::emit(json!({"e": "Watchdog", "case": st.id, "posts": st.posts.len()}));
                verif::trace::flush();
                write_result(&json!({"case": st.id, "written": [], "before": [], "remaining": list_dir(&wd_dir),
                    "posts": st.posts, "reason": "wall-limit", "terminated": false, "virtual_ms": 0,
                    "goalstate_gets": st.goalstate_gets, "config_gets": st.config_gets, "imds_gets": st.imds_gets,
                    "other": st.other}));
                std::process::exit(0);
            }
        }
    });
    for case in script["cases"].as_array().cloned().unwrap_or_default() {
        let id = case["id"].as_str().unwrap_or("case").to_string();
        let _ = std::fs::remove_dir_all(&events_dir);
        std::fs::create_dir_all(&events_dir).expect("events dir");
        let mut written = Vec::new();
        for f in case["files"].as_array().cloned().unwrap_or_default() {
            let path = events_dir.join(f["name"].as_str().expect("file name"));
            if let Some(raw) = f["raw"].as_str() {
                std::fs::write(&path, raw.as_bytes()).expect("write raw");
            } else {
                let events: Vec<Event> = f["events"]
                    .as_array()
                    .cloned()
                    .unwrap_or_default()
                    .iter()
                    .map(|e| Event {
                        EventLevel: expand(&e["level"]),
                        Message: expand(&e["message"]),
                        Version: expand(&e["version"]),
                        TaskName: expand(&e["task"]),
                        EventPid: expand(&e["pid"]),
                        EventTid: expand(&e["tid"]),
                        OperationId: expand(&e["op"]),
                        TimeStamp: expand(&e["ts"]),
                    })
                    .collect();
                misc_helpers::json_write_to_file(&events, &path).expect("json_write_to_file");
            }
            written.push(f["name"].as_str().unwrap().to_string());
        }
        let before = list_dir(&events_dir);
        {
            let mut st = STATE.lock().unwrap();
            *st = CaseState::default();
            st.id = id.clone();
            st.out_dir = out_dir.clone();
            st.replies = case["replies"].as_array().map(|a| a.iter().map(|x| x.as_str().unwrap_or("ok").to_string()).collect()).unwrap_or_default();
            st.default_reply = case["default_reply"].as_str().unwrap_or("ok").to_string();
            st.post_limit = case["post_limit"].as_u64().unwrap_or(200) as usize;
            st.started = Some(std::time::Instant::now());
            st.passes = case["passes"].as_u64().unwrap_or(1) as u32;
            if let Some(pb) = case["publish_at_post"].as_object() {
                st.publish = Some((
                    pb["n"].as_u64().unwrap_or(0) as usize,
                    events_dir.join(pb["from"].as_str().unwrap_or("x.tmp")),
                    events_dir.join(pb["to"].as_str().unwrap_or("x.json")),
                ));
            }
        }
        let dir = events_dir.clone();
        let run = std::panic::catch_unwind(std::panic::AssertUnwindSafe(|| {
            let rt = tokio::runtime::Builder::new_current_thread()
                .enable_all()
                .start_paused(true)
                .build()
                .unwrap();
            let virt = rt.block_on(async move {
                let token = CancellationToken::new();
                STATE.lock().unwrap().token = Some(token.clone());
                let reader = EventReader::new(
                    dir,
                    false,
                    token,
                    KeyKeeperSharedState::start_new(),
                    TelemetrySharedState::start_new(),
                    AgentStatusSharedState::start_new(),
                );
                let v0 = tokio::time::Instant::now();
                reader.start(Some(Duration::from_secs(300)), None, None).await;
                v0.elapsed().as_millis() as u64
            });
            drop(rt);
            virt
        }));
        let (virt, panicked) = match run {
            Ok(v) => (v, false),
            Err(_) => (0, true),
        };
        let remaining = list_dir(&events_dir);
        let line = {
            let mut st = STATE.lock().unwrap();
            st.started = None;
            st.token = None;
            json!({"case": id, "written": written, "before": before, "remaining": remaining,
                "posts": st.posts, "reason": if panicked { "panic".to_string() } else { st.reason.clone() },
                "terminated": !panicked && st.reason == "pass-complete",
                "virtual_ms": virt, "goalstate_gets": st.goalstate_gets, "config_gets": st.config_gets,
                "imds_gets": st.imds_gets, "other": st.other})
        };
        write_result(&line);
    }
    let _ = std::fs::remove_dir_all(&events_dir);
    0
}
