//! The proxy rig: the real `ProxyServer` (and optionally the real status task) in this process, mock metadata
//! hosts on the real endpoint addresses (inside a private network namespace), raw-socket clients, and a JSON
//! script of environment actions.  Everything that happens is written to one ndjson trace through
//! `verif::trace` (single sequence counter).
use super::{env, gen_body, sha256_hex};
use crate::key_keeper::key::{AuthorizationItem, Key};
use crate::proxy::proxy_server::ProxyServer;
use crate::shared_state::SharedState;
use crate::verif;
use once_cell::sync::Lazy;
use serde_json::{json, Value};
use std::collections::HashMap;
use std::io::{Read, Write};
use std::net::{SocketAddr, TcpListener, TcpStream};
use std::os::fd::{AsRawFd, FromRawFd};
use std::sync::{Arc, Mutex};
use std::time::Duration;

// ------------------------------------------------------------------------------------------------
// mock hosts

#[derive(Clone, Default)]
struct Plan {
    status: u16,
    headers: Vec<(String, String)>,
    body: Vec<u8>,
    framing: String, // cl | chunked | close
    frames: Vec<usize>,
    delay_ms: u64,
    gap_ms: u64, // pause between two frames of the response body (a slowly streaming host)
}

static PLANS: Lazy<Mutex<HashMap<String, Plan>>> = Lazy::new(|| Mutex::new(HashMap::new()));
static HOST_CONNS: Lazy<Mutex<u64>> = Lazy::new(|| Mutex::new(0));
/// requests the mock hosts have parsed so far, as (target) strings: lets a script wait for the n-th request to a target
static HOST_TARGETS: Lazy<Mutex<Vec<String>>> = Lazy::new(|| Mutex::new(Vec::new()));

struct Parsed {
    method: String,
    target: String,
    version: String,
    headers: Vec<(String, String)>,
    body: Vec<u8>,
    chunk_sizes: Vec<usize>,
    head_len: usize,
    total_len: usize,
}

fn find(hay: &[u8], needle: &[u8], from: usize) -> Option<usize> {
    if hay.len() < needle.len() {
        return None;
    }
    (from..=hay.len() - needle.len()).find(|&i| &hay[i..i + needle.len()] == needle)
}

fn header_get<'a>(headers: &'a [(String, String)], name: &str) -> Option<&'a str> {
    headers
        .iter()
        .find(|(n, _)| n.eq_ignore_ascii_case(name))
        .map(|(_, v)| v.as_str())
}

/// Reads from `s` into `buf` until a complete HTTP message (head + body) is available from offset 0.
/// Returns None on EOF/timeout before a complete message. `is_response` selects the first-line grammar and
/// the body rules (responses without framing run to EOF).
thread_local! {
    /// bytes per second at which this (mock host) thread takes data in; 0 = as fast as it comes
    static READ_BPS: std::cell::Cell<u64> = const { std::cell::Cell::new(0) };
}

fn read_message(s: &mut TcpStream, buf: &mut Vec<u8>, is_response: bool, head_only: bool) -> Result<Option<Parsed>, String> {
    let mut tmp = vec![0u8; 65536];
    loop {
        if let Some(p) = try_parse(buf, is_response, head_only, false)? {
            return Ok(Some(p));
        }
        match s.read(&mut tmp) {
            Ok(0) => {
                if is_response {
                    if let Some(p) = try_parse(buf, is_response, head_only, true)? {
                        return Ok(Some(p));
                    }
                }
                return Ok(None);
            }
            Ok(n) => {
                buf.extend_from_slice(&tmp[..n]);
                let bps = READ_BPS.with(|c| c.get());
                if bps > 0 && !is_response {
                    std::thread::sleep(Duration::from_micros(n as u64 * 1_000_000 / bps));
                }
            }
            Err(e) => {
                if e.kind() == std::io::ErrorKind::WouldBlock || e.kind() == std::io::ErrorKind::TimedOut {
                    return Err("timeout".to_string());
                }
                return Err(format!("io:{}", e.kind()));
            }
        }
    }
}

fn try_parse(buf: &[u8], is_response: bool, head_only: bool, eof: bool) -> Result<Option<Parsed>, String> {
    let he = match find(buf, b"\r\n\r\n", 0) {
        Some(i) => i,
        None => return Ok(None),
    };
    let head = String::from_utf8_lossy(&buf[..he]).to_string();
    let mut lines = head.split("\r\n");
    let first = lines.next().unwrap_or("");
    let mut it = first.splitn(3, ' ');
    let (a, b, c) = (it.next().unwrap_or(""), it.next().unwrap_or(""), it.next().unwrap_or(""));
    let mut headers = Vec::new();
    // header values are kept as raw bytes mapped 1:1 to chars (latin-1) so obs-text survives
    let raw_head = &buf[..he];
    let mut pos = find(raw_head, b"\r\n", 0).map(|i| i + 2).unwrap_or(raw_head.len());
    while pos < raw_head.len() {
        let end = find(raw_head, b"\r\n", pos).unwrap_or(raw_head.len());
        let line = &raw_head[pos..end];
        if let Some(ci) = line.iter().position(|&x| x == b':') {
            let name: String = line[..ci].iter().map(|&x| x as char).collect();
            let mut v = &line[ci + 1..];
            while !v.is_empty() && (v[0] == b' ' || v[0] == b'\t') {
                v = &v[1..];
            }
            while !v.is_empty() && (v[v.len() - 1] == b' ' || v[v.len() - 1] == b'\t') {
                v = &v[..v.len() - 1];
            }
            let value: String = v.iter().map(|&x| x as char).collect();
            headers.push((name, value));
        }
        pos = end + 2;
    }
    let body_start = he + 4;
    let mut p = Parsed {
        method: a.to_string(),
        target: b.to_string(),
        version: c.to_string(),
        headers,
        body: Vec::new(),
        chunk_sizes: Vec::new(),
        head_len: body_start,
        total_len: body_start,
    };
    if head_only {
        return Ok(Some(p));
    }
    let status: u16 = if is_response { b.parse().unwrap_or(0) } else { 0 };
    if is_response && (status / 100 == 1 || status == 204 || status == 304) {
        return Ok(Some(p));
    }
    let te = header_get(&p.headers, "transfer-encoding").map(|v| v.to_ascii_lowercase());
    if te.as_deref().map(|v| v.contains("chunked")).unwrap_or(false) {
        let mut i = body_start;
        loop {
            let le = match find(buf, b"\r\n", i) {
                Some(x) => x,
                None => return Ok(None),
            };
            let line = String::from_utf8_lossy(&buf[i..le]).to_string();
            let hexpart = line.split(';').next().unwrap_or("").trim().to_string();
            let n = usize::from_str_radix(&hexpart, 16).map_err(|_| format!("bad chunk size '{}'", line))?;
            i = le + 2;
            if n == 0 {
                // trailers until empty line
                loop {
                    let te = match find(buf, b"\r\n", i) {
                        Some(x) => x,
                        None => return Ok(None),
                    };
                    let empty = te == i;
                    i = te + 2;
                    if empty {
                        break;
                    }
                }
                p.total_len = i;
                return Ok(Some(p));
            }
            if buf.len() < i + n + 2 {
                return Ok(None);
            }
            p.body.extend_from_slice(&buf[i..i + n]);
            p.chunk_sizes.push(n);
            i += n + 2;
        }
    }
    if let Some(cl) = header_get(&p.headers, "content-length") {
        let n: usize = cl.trim().parse().map_err(|_| format!("bad content-length '{}'", cl))?;
        if buf.len() < body_start + n {
            return Ok(None);
        }
        p.body = buf[body_start..body_start + n].to_vec();
        p.total_len = body_start + n;
        return Ok(Some(p));
    }
    if is_response {
        // body runs to EOF
        if !eof {
            return Ok(None);
        }
        p.body = buf[body_start..].to_vec();
        p.total_len = buf.len();
        return Ok(Some(p));
    }
    Ok(Some(p))
}

fn headers_json(h: &[(String, String)]) -> Value {
    Value::Array(h.iter().map(|(n, v)| json!([n, v])).collect())
}

fn write_chunked(s: &mut TcpStream, body: &[u8], frames: &[usize], gap_ms: u64) -> std::io::Result<()> {
    let mut off = 0usize;
    let mut sizes: Vec<usize> = frames.to_vec();
    let total: usize = sizes.iter().sum();
    if total < body.len() {
        sizes.push(body.len() - total);
    }
    for n in sizes {
        let n = n.min(body.len() - off);
        if n == 0 {
            continue;
        }
        s.write_all(format!("{:x}\r\n", n).as_bytes())?;
        s.write_all(&body[off..off + n])?;
        s.write_all(b"\r\n")?;
        s.flush()?;
        off += n;
        if gap_ms > 0 {
            std::thread::sleep(Duration::from_millis(gap_ms));
        }
    }
    s.write_all(b"0\r\n\r\n")?;
    s.flush()
}

fn host_conn(name: String, mut s: TcpStream) {
    let hconn = {
        let mut c = HOST_CONNS.lock().unwrap();
        *c += 1;
        *c
    };
    // how long the mock host keeps an idle upstream connection open (a script that leaves a connection idle for half a
    // minute on purpose asks for more: a host that closes it is a different scenario)
    let idle_s = std::env::var("VERIF_HOST_IDLE_S").ok().and_then(|v| v.parse().ok()).unwrap_or(30u64);
    let _ = s.set_read_timeout(Some(Duration::from_secs(idle_s)));
    let _ = s.set_nodelay(true);
    // VERIF_HOST_SLOW="<host name>:<bytes per second>": that mock host takes request data in slowly (a loaded host, a slow
    // path) through a small receive buffer, so that the sender really has to wait for it
    if let Ok(v) = std::env::var("VERIF_HOST_SLOW") {
        if let Some((h, bps)) = v.split_once(':') {
            if h == name {
                READ_BPS.with(|c| c.set(bps.parse().unwrap_or(0)));
                let sz: libc::c_int = 65536;
                unsafe {
                    libc::setsockopt(s.as_raw_fd(), libc::SOL_SOCKET, libc::SO_RCVBUF, &sz as *const _ as *const libc::c_void, 4);
                }
            }
        }
    }
    verif::trace::emit(json!({"e": "HostConn", "host": name, "hconn": hconn}));
    let mut buf: Vec<u8> = Vec::new();
    let mut parsed_bytes = 0usize;
    let mut total_bytes = 0usize;
    loop {
        let before = buf.len();
        let r = read_message(&mut s, &mut buf, false, false);
        let _ = before;
        match r {
            Ok(Some(p)) => {
                let id = header_get(&p.headers, "x-verif-id").unwrap_or("").to_string();
                parsed_bytes += p.total_len;
                let now_ms = std::time::SystemTime::now().duration_since(std::time::UNIX_EPOCH).map(|d| d.as_millis() as u64).unwrap_or(0);
                HOST_TARGETS.lock().unwrap().push(p.target.clone());
                verif::trace::emit(json!({"e": "HostRecv", "host": name, "hconn": hconn, "id": id, "t": now_ms,
                    "method": p.method, "target": p.target, "version": p.version,
                    "headers": headers_json(&p.headers), "bodyLen": p.body.len(), "bodySha": sha256_hex(&p.body),
                    "bodyHex": if p.body.len() <= 256 { hex::encode(&p.body) } else { String::new() },
                    "chunks": p.chunk_sizes.len()}));
                total_bytes += p.total_len;
                buf.drain(..p.total_len);
                // plan lookup: by request id, then "METHOD path", then the longest "METHOD prefix*", then ""
                let plan_found = {
                    let plans = PLANS.lock().unwrap();
                    let path_only = p.target.split('?').next().unwrap_or("").to_string();
                    let exact = format!("{} {}", p.method, path_only);
                    let mut hit = if !id.is_empty() { plans.get(&id).cloned() } else { None };
                    if hit.is_none() {
                        hit = plans.get(&exact).cloned();
                    }
                    if hit.is_none() {
                        let mut best: Option<(usize, Plan)> = None;
                        for (k, v) in plans.iter() {
                            if let Some(pre) = k.strip_suffix('*') {
                                if exact.starts_with(pre) && best.as_ref().map(|b| b.0 < pre.len()).unwrap_or(true) {
                                    best = Some((pre.len(), v.clone()));
                                }
                            }
                        }
                        hit = best.map(|b| b.1);
                    }
                    if hit.is_none() && id.is_empty() {
                        hit = plans.get("").cloned();
                    }
                    hit
                };
                let plan = plan_found.unwrap_or(Plan {
                    status: 200,
                    headers: vec![("content-type".to_string(), "text/plain".to_string())],
                    body: format!("ok-{}", id).into_bytes(),
                    framing: "cl".to_string(),
                    frames: vec![],
                    delay_ms: 0,
                    gap_ms: 2,
                });
                if plan.delay_ms > 0 {
                    std::thread::sleep(Duration::from_millis(plan.delay_ms));
                }
                let mut head = format!("HTTP/1.1 {} X\r\n", plan.status);
                for (n, v) in &plan.headers {
                    head.push_str(&format!("{}: {}\r\n", n, v));
                }
                let mut head_bytes: Vec<u8> = head.chars().map(|c| c as u32 as u8).collect();
                let res = match plan.framing.as_str() {
                    "reset" => {
                        // host fault: the request was read, the connection is dropped without an answer
                        let _ = s.shutdown(std::net::Shutdown::Both);
                        verif::trace::emit(json!({"e": "HostClose", "host": name, "hconn": hconn,
                            "bytesTotal": total_bytes + buf.len(), "bytesParsed": parsed_bytes, "fault": "reset"}));
                        return;
                    }
                    "chunked" => {
                        head_bytes.extend_from_slice(b"transfer-encoding: chunked\r\n\r\n");
                        s.write_all(&head_bytes).and_then(|_| write_chunked(&mut s, &plan.body, &plan.frames, plan.gap_ms))
                    }
                    "close" => {
                        head_bytes.extend_from_slice(b"connection: close\r\n\r\n");
                        let r = s.write_all(&head_bytes).and_then(|_| s.write_all(&plan.body));
                        let _ = s.shutdown(std::net::Shutdown::Both);
                        verif::trace::emit(json!({"e": "HostClose", "host": name, "hconn": hconn,
                            "bytesTotal": total_bytes + buf.len(), "bytesParsed": parsed_bytes}));
                        let _ = r;
                        return;
                    }
                    "none" => {
                        head_bytes.extend_from_slice(b"\r\n");
                        s.write_all(&head_bytes)
                    }
                    _ => {
                        head_bytes.extend_from_slice(format!("content-length: {}\r\n\r\n", plan.body.len()).as_bytes());
                        // write the body in the requested frames (separate TCP writes)
                        let mut r = s.write_all(&head_bytes);
                        let mut off = 0usize;
                        for n in plan.frames.iter() {
                            let n = (*n).min(plan.body.len() - off);
                            if r.is_ok() && n > 0 {
                                r = s.write_all(&plan.body[off..off + n]).and_then(|_| s.flush());
                                off += n;
                                std::thread::sleep(Duration::from_millis(plan.gap_ms));
                            }
                        }
                        if r.is_ok() && off < plan.body.len() {
                            r = s.write_all(&plan.body[off..]);
                        }
                        r
                    }
                };
                if res.is_err() {
                    break;
                }
                if plan.framing == "cl-close" {
                    // a complete keep-alive style answer, then the host silently closes its side
                    let _ = s.shutdown(std::net::Shutdown::Both);
                    verif::trace::emit(json!({"e": "HostClose", "host": name, "hconn": hconn,
                        "bytesTotal": total_bytes + buf.len(), "bytesParsed": parsed_bytes, "fault": "closed-after-answer"}));
                    return;
                }
            }
            Ok(None) => break,
            Err(_) => break,
        }
    }
    verif::trace::emit(json!({"e": "HostClose", "host": name, "hconn": hconn,
        "bytesTotal": total_bytes + buf.len(), "bytesParsed": parsed_bytes}));
}

fn start_host(name: &str, addr: &str) -> Result<(), String> {
    let l = TcpListener::bind(addr).map_err(|e| format!("bind {}: {}", addr, e))?;
    let name = name.to_string();
    std::thread::Builder::new()
        .name(format!("host-{}", name))
        .spawn(move || {
            for s in l.incoming().flatten() {
                let n = name.clone();
                std::thread::spawn(move || host_conn(n, s));
            }
        })
        .unwrap();
    Ok(())
}

// ------------------------------------------------------------------------------------------------
// clients

fn client_socket(bind_port: u16, target: SocketAddr) -> Result<(TcpStream, u16), String> {
    unsafe {
        let fd = libc::socket(libc::AF_INET, libc::SOCK_STREAM, 0);
        if fd < 0 {
            return Err("socket".into());
        }
        let one: libc::c_int = 1;
        libc::setsockopt(fd, libc::SOL_SOCKET, libc::SO_REUSEADDR, &one as *const _ as *const libc::c_void, 4);
        let mut sa: libc::sockaddr_in = std::mem::zeroed();
        sa.sin_family = libc::AF_INET as u16;
        sa.sin_port = bind_port.to_be();
        sa.sin_addr.s_addr = u32::from_ne_bytes([127, 0, 0, 1]);
        if libc::bind(fd, &sa as *const _ as *const libc::sockaddr, std::mem::size_of::<libc::sockaddr_in>() as u32) != 0 {
            let e = std::io::Error::last_os_error();
            libc::close(fd);
            return Err(format!("bind {}: {}", bind_port, e));
        }
        let mut got: libc::sockaddr_in = std::mem::zeroed();
        let mut len = std::mem::size_of::<libc::sockaddr_in>() as u32;
        libc::getsockname(fd, &mut got as *mut _ as *mut libc::sockaddr, &mut len);
        let port = u16::from_be(got.sin_port);
        let s = TcpStream::from_raw_fd(fd);
        Ok((s, port))
    }
    .and_then(|(s, port)| {
        let _ = target;
        Ok((s, port))
    })
}

fn client_connect(s: &TcpStream, target: SocketAddr) -> Result<(), String> {
    use std::os::fd::AsRawFd;
    unsafe {
        let mut sa: libc::sockaddr_in = std::mem::zeroed();
        sa.sin_family = libc::AF_INET as u16;
        sa.sin_port = target.port().to_be();
        if let SocketAddr::V4(v4) = target {
            sa.sin_addr.s_addr = u32::from_ne_bytes(v4.ip().octets());
        }
        if libc::connect(s.as_raw_fd(), &sa as *const _ as *const libc::sockaddr, std::mem::size_of::<libc::sockaddr_in>() as u32) != 0 {
            return Err(format!("connect: {}", std::io::Error::last_os_error()));
        }
    }
    Ok(())
}

fn set_linger0(s: &TcpStream) {
    use std::os::fd::AsRawFd;
    unsafe {
        let l = libc::linger { l_onoff: 1, l_linger: 0 };
        libc::setsockopt(s.as_raw_fd(), libc::SOL_SOCKET, libc::SO_LINGER, &l as *const _ as *const libc::c_void,
            std::mem::size_of::<libc::linger>() as u32);
    }
}

struct ClientConn {
    stream: TcpStream,
    buf: Vec<u8>,
    port: u16,
}

fn body_of(v: &Value) -> Vec<u8> {
    if v.is_null() {
        return Vec::new();
    }
    if let Some(h) = v.get("hex").and_then(|x| x.as_str()) {
        return hex::decode(h).expect("bad body hex");
    }
    if let Some(t) = v.get("text").and_then(|x| x.as_str()) {
        return t.as_bytes().to_vec();
    }
    let len = v.get("len").and_then(|x| x.as_u64()).unwrap_or(0) as usize;
    let seed = v.get("seed").and_then(|x| x.as_u64()).unwrap_or(0);
    gen_body(seed, len)
}

fn pairs_of(v: Option<&Value>) -> Vec<(String, String)> {
    v.and_then(|x| x.as_array())
        .map(|a| {
            a.iter()
                .map(|p| (p[0].as_str().unwrap_or("").to_string(), p[1].as_str().unwrap_or("").to_string()))
                .collect()
        })
        .unwrap_or_default()
}

fn usizes_of(v: Option<&Value>) -> Vec<usize> {
    v.and_then(|x| x.as_array())
        .map(|a| a.iter().map(|n| n.as_u64().unwrap_or(0) as usize).collect())
        .unwrap_or_default()
}

fn latin1(s: &str) -> Vec<u8> {
    s.chars().map(|c| c as u32 as u8).collect()
}

// ------------------------------------------------------------------------------------------------
// the rig

struct Rig {
    shared: SharedState,
    rt: tokio::runtime::Handle,
    proxy_addr: SocketAddr,
    conns: Mutex<HashMap<String, Arc<Mutex<ClientConn>>>>,
    helpers: Mutex<HashMap<String, std::process::Child>>,
    ports: Mutex<HashMap<String, u16>>, // source port of every connection ever made (for explicit port reuse)
}

impl Rig {
    fn step(self: &Arc<Self>, st: &Value) {
        let op = st["op"].as_str().unwrap_or("");
        match op {
            "set_rules" => {
                let ep = st["ep"].as_str().unwrap();
                let item: Option<AuthorizationItem> = if st["doc"].is_null() {
                    None
                } else {
                    Some(serde_json::from_value(st["doc"].clone()).expect("bad rule doc"))
                };
                let kk = self.shared.get_key_keeper_shared_state();
                let r = self.rt.block_on(async {
                    match ep {
                        "ws" => kk.set_wireserver_rules(item).await,
                        "imds" => kk.set_imds_rules(item).await,
                        "ga" => kk.set_hostga_rules(item).await,
                        _ => panic!("bad ep"),
                    }
                });
                verif::trace::emit(json!({"e": "SetRules", "ep": ep, "doc": st["doc"], "tag": st["tag"], "ok": r.is_ok()}));
            }
            "set_key" => {
                let key: Key = serde_json::from_value(json!({
                    "authorizationScheme": "Azure-HMAC-SHA256",
                    "guid": st["guid"], "issued": "2021-05-05T 12:00:00Z", "key": st["key"],
                    "incarnationId": 1
                }))
                .expect("key");
                let kk = self.shared.get_key_keeper_shared_state();
                let r = self.rt.block_on(kk.update_key(key));
                verif::trace::emit(json!({"e": "SetKey", "guid": st["guid"], "ok": r.is_ok()}));
            }
            // KeySecret!UndeliveredReply: readers and a writer of the key that are dropped after their message was queued
            // and before the actor answered (polled once, then dropped; repeated because the actor runs on another worker)
            "cancel_key_calls" => {
                let kk = self.shared.get_key_keeper_shared_state();
                let n = st["n"].as_u64().unwrap_or(20);
                let dropped = self.rt.block_on(async {
                    let mut dropped = 0u64;
                    let cur = kk.get_current_key_guid_and_value().await.unwrap_or(None);
                    for _ in 0..n {
                        macro_rules! once {
                            ($fut:expr) => {{
                                let fut = $fut;
                                tokio::pin!(fut);
                                tokio::select! { biased; _ = &mut fut => {}, _ = std::future::ready(()) => { dropped += 1; } }
                            }};
                        }
                        once!(kk.get_current_key_guid_and_value());
                        once!(kk.get_current_key_value());
                        once!(kk.get_current_key_guid());
                        once!(kk.get_current_key_incarnation());
                        if let Some((guid, value)) = cur.clone() {
                            let key: Key = serde_json::from_value(json!({
                                "authorizationScheme": "Azure-HMAC-SHA256",
                                "guid": guid, "issued": "2021-05-05T 12:00:00Z", "key": value, "incarnationId": 1
                            }))
                            .expect("key");
                            once!(kk.update_key(key)); // the same key again: no change of state whether or not it is processed
                        }
                        tokio::time::sleep(Duration::from_millis(2)).await;
                    }
                    dropped
                });
                verif::trace::emit(json!({"e": "KeyCallsCancelled", "dropped": dropped}));
            }
            "clear_key" => {
                let kk = self.shared.get_key_keeper_shared_state();
                let r = self.rt.block_on(kk.clear_key());
                verif::trace::emit(json!({"e": "ClearKey", "ok": r.is_ok()}));
            }
            "fault" => {
                let v = st["rules_lookup_fails"].as_bool().unwrap_or(false);
                verif::fault::set_rules_lookup_fails(v);
                verif::trace::emit(json!({"e": "Fault", "rulesLookupFails": v}));
            }
            "spawn" => {
                // helper process whose pid is used in attribution records
                let name = st["name"].as_str().unwrap().to_string();
                let exe = st["exe"].as_str().unwrap();
                let args: Vec<String> = st["args"].as_array().map(|a| a.iter().map(|x| x.as_str().unwrap_or("").to_string()).collect()).unwrap_or_default();
                let child = std::process::Command::new(exe)
                    .args(&args)
                    .stdin(std::process::Stdio::null())
                    .stdout(std::process::Stdio::null())
                    .stderr(std::process::Stdio::null())
                    .spawn()
                    .unwrap_or_else(|e| panic!("harness: spawn {}: {}", exe, e));
                verif::trace::emit(json!({"e": "Spawn", "name": name, "pid": child.id(), "exe": exe, "args": args}));
                self.helpers.lock().unwrap().insert(name, child);
            }
            // what a helper process is running right now (it may exec another program during the scenario)
            "helper_exe" => {
                let name = st["name"].as_str().unwrap();
                let pid = self.helpers.lock().unwrap().get(name).map(|c| c.id()).unwrap_or(0);
                let exe = std::fs::read_link(format!("/proc/{}/exe", pid)).map(|p| p.to_string_lossy().to_string()).unwrap_or_default();
                let cmd = std::fs::read(format!("/proc/{}/cmdline", pid)).unwrap_or_default();
                let cmd: Vec<String> = cmd.split(|b| *b == 0).filter(|x| !x.is_empty()).map(|x| String::from_utf8_lossy(x).to_string()).collect();
                verif::trace::emit(json!({"e": "HelperExe", "name": name, "pid": pid, "exe": exe, "cmd": cmd, "tag": st["tag"]}));
            }
            "connect" => {
                let conn = st["conn"].as_str().unwrap().to_string();
                let mut want_port = st["port"].as_u64().unwrap_or(0) as u16;
                if let Some(other) = st["port_of"].as_str() {
                    want_port = self.ports.lock().unwrap().get(other).copied().unwrap_or(0);
                }
                let (s, port) = match client_socket(want_port, self.proxy_addr) {
                    Ok(x) => x,
                    Err(e) => {
                        verif::trace::emit(json!({"e": "ConnectError", "conn": conn, "err": e}));
                        return;
                    }
                };
                if !st["attr"].is_null() {
                    let a = &st["attr"];
                    let pid = if let Some(h) = a["helper"].as_str() {
                        self.helpers.lock().unwrap().get(h).map(|c| c.id()).unwrap_or(0)
                    } else {
                        a["pid"].as_u64().unwrap_or(std::process::id() as u64) as u32
                    };
                    let dip: std::net::Ipv4Addr = a["dip"].as_str().unwrap().parse().unwrap();
                    let dport = a["dport"].as_u64().unwrap() as u16;
                    verif::audit::inject(
                        port,
                        verif::audit::Record {
                            logon_id: a["uid"].as_u64().unwrap_or(0),
                            process_id: pid,
                            is_admin: a["admin"].as_i64().unwrap_or(0) as i32,
                            destination_ipv4: u32::from_ne_bytes(dip.octets()),
                            destination_port: dport.to_be(),
                        },
                    );
                }
                if let Some(n) = st["rcvbuf"].as_u64() {
                    // a client with a small receive buffer (set before connect so that the window is small from the start)
                    use std::os::fd::AsRawFd;
                    let v: libc::c_int = n as libc::c_int;
                    unsafe {
                        libc::setsockopt(s.as_raw_fd(), libc::SOL_SOCKET, libc::SO_RCVBUF, &v as *const _ as *const libc::c_void, 4);
                    }
                }
                let lookups_before = verif::audit::lookups(port);
                if let Err(e) = client_connect(&s, self.proxy_addr) {
                    verif::trace::emit(json!({"e": "ConnectError", "conn": conn, "err": e}));
                    return;
                }
                let _ = s.set_nodelay(true);
                let _ = s.set_read_timeout(Some(Duration::from_millis(st["timeout_ms"].as_u64().unwrap_or(20000))));
                verif::trace::emit(json!({"e": "Connect", "conn": conn, "port": port, "attributed": !st["attr"].is_null()}));
                self.ports.lock().unwrap().insert(conn.clone(), port);
                if st["wait"].as_bool().unwrap_or(false) {
                    // wait until the proxy's accept path has looked this source port up
                    let t0 = std::time::Instant::now();
                    while verif::audit::lookups(port) == lookups_before && t0.elapsed() < Duration::from_millis(st["wait_ms"].as_u64().unwrap_or(300)) {
                        std::thread::sleep(Duration::from_micros(200));
                    }
                    if verif::audit::lookups(port) == lookups_before {
                        verif::trace::emit(json!({"e": "AcceptTimeout", "conn": conn}));
                    }
                }
                self.conns.lock().unwrap().insert(conn, Arc::new(Mutex::new(ClientConn { stream: s, buf: Vec::new(), port })));
            }
            // resource exhaustion: the process has no free file descriptor while connections arrive (accept fails with
            // EMFILE for as long as that lasts); then descriptors are free again and the waiting clients send their requests
            "emfile_burst" => {
                let k = st["clients"].as_u64().unwrap_or(3) as usize;
                let hold_ms = st["hold_ms"].as_u64().unwrap_or(150);
                let tag = st["tag"].as_str().unwrap_or("emfile").to_string();
                let mut socks = Vec::new();
                for _ in 0..k {
                    if let Ok((s_, port)) = client_socket(0, self.proxy_addr) {
                        socks.push((s_, port));
                    }
                }
                let mut old: libc::rlimit = unsafe { std::mem::zeroed() };
                unsafe { libc::getrlimit(libc::RLIMIT_NOFILE, &mut old) };
                let low = libc::rlimit { rlim_cur: 600.min(old.rlim_cur), rlim_max: old.rlim_max };
                unsafe { libc::setrlimit(libc::RLIMIT_NOFILE, &low) };
                let mut fill = Vec::new();
                loop {
                    match std::fs::File::open("/dev/null") {
                        Ok(f) => fill.push(f),
                        Err(_) => break,
                    }
                    if fill.len() > 5000 {
                        break;
                    }
                }
                let filled = fill.len();
                let mut connected = 0;
                for (s_, _) in socks.iter() {
                    if client_connect(s_, self.proxy_addr).is_ok() {
                        connected += 1;
                    }
                }
                std::thread::sleep(Duration::from_millis(hold_ms));
                drop(fill);
                unsafe { libc::setrlimit(libc::RLIMIT_NOFILE, &old) };
                verif::trace::emit(json!({"e": "EmfileBurst", "tag": tag, "filled": filled, "connected": connected}));
                for (i, (s_, port)) in socks.into_iter().enumerate() {
                    let _ = s_.set_read_timeout(Some(Duration::from_millis(st["answer_ms"].as_u64().unwrap_or(20000))));
                    let conn = format!("{}_{}", tag, i);
                    let mut cc = ClientConn { stream: s_, buf: Vec::new(), port };
                    let id = format!("{}_r{}", tag, i);
                    let req = format!("GET /after-emfile/{} HTTP/1.1\r\nHost: h\r\nx-verif-id: {}\r\n\r\n", i, id);
                    let werr = cc.stream.write_all(req.as_bytes()).err().map(|e| format!("{}", e.kind()));
                    recv_one(&conn, &id, &mut cc, werr);
                }
            }
            // environment action: the kernel publishes a record under the source-port number of `conn` (as a connect of another
            // socket with the same port number would) while `conn` itself is already open
            "inject_record" => {
                let conn = st["conn"].as_str().unwrap();
                let port = self.conns.lock().unwrap().get(conn).map(|c| c.lock().unwrap().port).unwrap_or(0);
                let a = &st["attr"];
                let dip: std::net::Ipv4Addr = a["dip"].as_str().unwrap().parse().unwrap();
                verif::audit::inject(
                    port,
                    verif::audit::Record {
                        logon_id: a["uid"].as_u64().unwrap_or(0),
                        process_id: a["pid"].as_u64().unwrap_or(std::process::id() as u64) as u32,
                        is_admin: a["admin"].as_i64().unwrap_or(0) as i32,
                        destination_ipv4: u32::from_ne_bytes(dip.octets()),
                        destination_port: (a["dport"].as_u64().unwrap() as u16).to_be(),
                    },
                );
                verif::trace::emit(json!({"e": "InjectRecord", "conn": conn, "port": port}));
            }
            "wait_accepted" => {
                // wait until the proxy consumed the attribution record of this connection's port (accept finished)
                let conn = st["conn"].as_str().unwrap();
                let port = self.conns.lock().unwrap().get(conn).map(|c| c.lock().unwrap().port).unwrap_or(0);
                let t0 = std::time::Instant::now();
                while verif::audit::contains(port) && t0.elapsed() < Duration::from_secs(5) {
                    std::thread::sleep(Duration::from_millis(1));
                }
                verif::trace::emit(json!({"e": "Accepted", "conn": conn, "consumed": !verif::audit::contains(port)}));
            }
            "request" | "send" => {
                let conn = st["conn"].as_str().unwrap().to_string();
                let id = st["id"].as_str().unwrap_or("").to_string();
                let c = match self.conns.lock().unwrap().get(&conn) {
                    Some(c) => c.clone(),
                    None => {
                        verif::trace::emit(json!({"e": "ResponseError", "conn": conn, "id": id, "kind": "noconn"}));
                        return;
                    }
                };
                if !st["resp"].is_null() {
                    let r = &st["resp"];
                    PLANS.lock().unwrap().insert(
                        id.clone(),
                        Plan {
                            status: r["status"].as_u64().unwrap_or(200) as u16,
                            headers: pairs_of(r.get("headers")),
                            body: body_of(&r["body"]),
                            framing: r["framing"].as_str().unwrap_or("cl").to_string(),
                            frames: usizes_of(r.get("frames")),
                            delay_ms: r["delay_ms"].as_u64().unwrap_or(0),
                            gap_ms: r["gap_ms"].as_u64().unwrap_or(2),
                        },
                    );
                }
                let method = st["method"].as_str().unwrap_or("GET");
                let target = st["target"].as_str().unwrap_or("/");
                let headers = pairs_of(st.get("headers"));
                let body = body_of(&st["body"]);
                let framing = st["framing"].as_str().unwrap_or(if body.is_empty() { "none" } else { "cl" });
                let mut head: Vec<u8> = Vec::new();
                head.extend_from_slice(&latin1(&format!("{} {} HTTP/1.1\r\n", method, target)));
                for (n, v) in &headers {
                    head.extend_from_slice(&latin1(&format!("{}: {}\r\n", n, v)));
                }
                if !id.is_empty() {
                    head.extend_from_slice(format!("x-verif-id: {}\r\n", id).as_bytes());
                }
                match framing {
                    "cl" => head.extend_from_slice(format!("content-length: {}\r\n", st["declared_len"].as_u64().unwrap_or(body.len() as u64)).as_bytes()),
                    "chunked" => head.extend_from_slice(b"transfer-encoding: chunked\r\n"),
                    _ => {}
                }
                head.extend_from_slice(b"\r\n");
                let sent_ms = std::time::SystemTime::now().duration_since(std::time::UNIX_EPOCH).map(|d| d.as_millis() as u64).unwrap_or(0);
                verif::trace::emit(json!({"e": "Request", "conn": conn, "id": id, "method": method, "target": target, "t": sent_ms,
                    "headers": headers_json(&headers), "framing": framing, "bodyLen": body.len(), "bodySha": sha256_hex(&body)}));
                let mut g = c.lock().unwrap();
                let mut wres = g.stream.write_all(&head);
                // a slow upload: the head is on the wire, the body follows later (wall-clock seconds pass in between)
                if let Some(ms) = st["body_delay_ms"].as_u64() {
                    let _ = g.stream.flush();
                    std::thread::sleep(Duration::from_millis(ms));
                }
                if wres.is_ok() {
                    wres = match framing {
                        "chunked" => {
                            let trailers = pairs_of(st.get("trailers"));
                            if trailers.is_empty() {
                                write_chunked(&mut g.stream, &body, &usizes_of(st.get("chunks")), st["gap_ms"].as_u64().unwrap_or(0))
                            } else {
                                // a chunked body followed by a trailer section (RFC 9112 7.1.2)
                                let mut w = Vec::new();
                                if !body.is_empty() {
                                    w.extend_from_slice(format!("{:x}\r\n", body.len()).as_bytes());
                                    w.extend_from_slice(&body);
                                    w.extend_from_slice(b"\r\n");
                                }
                                w.extend_from_slice(b"0\r\n");
                                for (n, v) in &trailers {
                                    w.extend_from_slice(&latin1(&format!("{}: {}\r\n", n, v)));
                                }
                                w.extend_from_slice(b"\r\n");
                                g.stream.write_all(&w)
                            }
                        }
                        "none" => Ok(()),
                        _ => g.stream.write_all(&body),
                    };
                }
                let send_err = wres.err().map(|e| format!("{}", e.kind()));
                if op == "send" {
                    if let Some(e) = send_err {
                        verif::trace::emit(json!({"e": "SendError", "conn": conn, "id": id, "kind": e}));
                    }
                    return;
                }
                // a write error is not final: the proxy may have answered (e.g. 413) and closed while we were sending
                if let Some(ms) = st["read_delay_ms"].as_u64() {
                    std::thread::sleep(Duration::from_millis(ms)); // a client that starts reading late
                }
                recv_one(&conn, &id, &mut g, send_err);
            }
            "send_partial" => {
                // an upload that the client abandons in the middle of a chunk (write side shut down)
                let conn = st["conn"].as_str().unwrap().to_string();
                let id = st["id"].as_str().unwrap_or("").to_string();
                let c = self.conns.lock().unwrap().get(&conn).cloned();
                if let Some(c) = c {
                    let mut g = c.lock().unwrap();
                    let method = st["method"].as_str().unwrap_or("PUT");
                    let target = st["target"].as_str().unwrap_or("/");
                    let mut head: Vec<u8> = latin1(&format!("{} {} HTTP/1.1\r\n", method, target));
                    for (n, v) in pairs_of(st.get("headers")) {
                        head.extend_from_slice(&latin1(&format!("{}: {}\r\n", n, v)));
                    }
                    head.extend_from_slice(format!("x-verif-id: {}\r\ntransfer-encoding: chunked\r\n\r\n", id).as_bytes());
                    let body = body_of(&st["body"]);
                    let cut = body.len() / 2;
                    verif::trace::emit(json!({"e": "Request", "conn": conn, "id": id, "method": method, "target": target, "partial": true,
                        "bodyLen": body.len(), "sent": cut}));
                    let _ = g.stream.write_all(&head);
                    // one complete chunk, then a chunk header announcing more than is sent
                    let _ = g.stream.write_all(format!("{:x}\r\n", cut).as_bytes());
                    let _ = g.stream.write_all(&body[..cut]);
                    let _ = g.stream.write_all(b"\r\n");
                    let _ = g.stream.write_all(format!("{:x}\r\n", body.len() - cut).as_bytes());
                    let _ = g.stream.write_all(&body[cut..cut + (body.len() - cut) / 2]);
                    let _ = g.stream.flush();
                    let _ = g.stream.shutdown(std::net::Shutdown::Write);
                    recv_one(&conn, &id, &mut g, None);
                }
            }
            "recv" => {
                let conn = st["conn"].as_str().unwrap().to_string();
                let id = st["id"].as_str().unwrap_or("").to_string();
                let c = self.conns.lock().unwrap().get(&conn).cloned();
                if let Some(c) = c {
                    let mut g = c.lock().unwrap();
                    recv_one(&conn, &id, &mut g, None);
                }
            }
            "raw" => {
                // arbitrary bytes on a connection (robustness inputs); reply recorded if any
                let conn = st["conn"].as_str().unwrap().to_string();
                let id = st["id"].as_str().unwrap_or("").to_string();
                let c = self.conns.lock().unwrap().get(&conn).cloned();
                if let Some(c) = c {
                    let mut g = c.lock().unwrap();
                    let bytes = hex::decode(st["hex"].as_str().unwrap_or("")).unwrap();
                    verif::trace::emit(json!({"e": "Request", "conn": conn, "id": id, "raw": true, "bodyLen": bytes.len()}));
                    let r = g.stream.write_all(&bytes);
                    recv_one(&conn, &id, &mut g, r.err().map(|e| format!("{}", e.kind())));
                }
            }
            "close" => {
                let conn = st["conn"].as_str().unwrap().to_string();
                if let Some(c) = self.conns.lock().unwrap().remove(&conn) {
                    let g = c.lock().unwrap();
                    if st["rst"].as_bool().unwrap_or(true) {
                        set_linger0(&g.stream);
                    }
                    let _ = g.stream.shutdown(std::net::Shutdown::Both);
                }
                verif::trace::emit(json!({"e": "Close", "conn": conn}));
            }
            "snapshot" => {
                let st_ = self.shared.get_agent_status_shared_state();
                let failed = self.rt.block_on(st_.get_all_failed_connection_summary()).unwrap_or_default();
                let ok = self.rt.block_on(st_.get_all_connection_summary()).unwrap_or_default();
                verif::trace::emit(json!({"e": "Failed", "source": "getter", "tag": st["tag"],
                    "failed": serde_json::to_value(&failed).unwrap(), "summary": serde_json::to_value(&ok).unwrap()}));
                if let Some(p) = st["status_file"].as_str() {
                    // wait for the status task to publish a file newer than this instant
                    let t0 = std::time::SystemTime::now();
                    let deadline = std::time::Instant::now() + Duration::from_secs(5);
                    let mut v = Value::Null;
                    while std::time::Instant::now() < deadline {
                        if let Ok(m) = std::fs::metadata(p).and_then(|m| m.modified()) {
                            if m > t0 {
                                if let Ok(s) = std::fs::read_to_string(p) {
                                    if let Ok(j) = serde_json::from_str::<Value>(&s) {
                                        v = j;
                                        break;
                                    }
                                }
                            }
                        }
                        std::thread::sleep(Duration::from_millis(10));
                    }
                    verif::trace::emit(json!({"e": "Failed", "source": "status.json", "tag": st["tag"],
                        "failed": v["proxyConnectionSummary"].clone(), "failedAuth": v["failedAuthenticateSummary"].clone(),
                        "found": !v.is_null()}));
                }
            }
            "clock_step" => {
                // the machine's wall clock is stepped (time synchronisation, an administrator, a resumed VM): the LD_PRELOAD
                // shim of the check adds the number in VERIF_CLOCK_FILE to CLOCK_REALTIME; CLOCK_MONOTONIC is left alone
                let wall = || std::time::SystemTime::now().duration_since(std::time::UNIX_EPOCH).map(|d| d.as_millis() as i64).unwrap_or(0);
                let before = wall();
                let secs = st["secs"].as_i64().unwrap_or(0);
                if let Ok(p) = std::env::var("VERIF_CLOCK_FILE") {
                    let _ = std::fs::write(p, secs.to_le_bytes());
                }
                verif::trace::emit(json!({"e": "ClockStep", "secs": secs, "wall_before_ms": before, "wall_after_ms": wall()}));
            }
            "hog_blocking_pool" => {
                // other blocking jobs keep the runtime's blocking pool busy for a while
                let ms = st["ms"].as_u64().unwrap_or(1000);
                for _ in 0..st["n"].as_u64().unwrap_or(1) {
                    self.rt.spawn_blocking(move || std::thread::sleep(Duration::from_millis(ms)));
                }
                verif::trace::emit(json!({"e": "PoolHogged", "ms": ms}));
            }
            "arm" => verif::sched::arm(st["label"].as_str().unwrap(), st["skip"].as_u64().unwrap_or(0) as usize),
            "disarm" => verif::sched::disarm(st["label"].as_str().unwrap()),
            "release" => {
                verif::sched::release(st["label"].as_str().unwrap());
                verif::trace::emit(json!({"e": "Release", "label": st["label"]}));
            }
            "wait_arrived" => {
                let label = st["label"].as_str().unwrap();
                let n = st["n"].as_u64().unwrap_or(1) as usize;
                let t0 = std::time::Instant::now();
                while verif::sched::arrived(label) < n && t0.elapsed() < Duration::from_millis(st["timeout_ms"].as_u64().unwrap_or(5000)) {
                    std::thread::sleep(Duration::from_micros(200));
                }
                verif::trace::emit(json!({"e": "Arrived", "label": label, "n": verif::sched::arrived(label), "want": n}));
            }
            "start_key_keeper" => {
                // the real key keeper task against the mock WireServer (168.63.129.16:80)
                let kk = crate::key_keeper::KeyKeeper::new(
                    "http://168.63.129.16:80/".parse().unwrap(),
                    crate::common::config::get_keys_dir(),
                    crate::common::config::get_logs_dir(),
                    Duration::from_millis(st["interval_ms"].as_u64().unwrap_or(50)),
                    &self.shared,
                );
                self.rt.spawn(async move { kk.poll_secure_channel_status().await });
                verif::trace::emit(json!({"e": "KeyKeeperStarted"}));
            }
            "start_event_reader" => {
                // the real telemetry event reader (fetches VM metadata through the agent's own signed calls)
                let reader = crate::telemetry::event_reader::EventReader::new(
                    crate::common::config::get_events_dir(),
                    false,
                    self.shared.get_cancellation_token(),
                    self.shared.get_key_keeper_shared_state(),
                    self.shared.get_telemetry_shared_state(),
                    self.shared.get_agent_status_shared_state(),
                );
                let ms = st["interval_ms"].as_u64().unwrap_or(100);
                self.rt.spawn(async move { reader.start(Some(Duration::from_millis(ms)), None, None).await });
                verif::trace::emit(json!({"e": "EventReaderStarted"}));
            }
            "write_file" => {
                // environment action: a file left behind by an earlier run / version
                let path = st["path"].as_str().unwrap();
                if let Some(dir) = std::path::Path::new(path).parent() {
                    let _ = std::fs::create_dir_all(dir);
                }
                let r = std::fs::write(path, st["text"].as_str().unwrap_or(""));
                verif::trace::emit(json!({"e": "WriteFile", "path": path, "ok": r.is_ok()}));
            }
            "remove_dir" => {
                let path = st["path"].as_str().unwrap();
                let r = std::fs::remove_dir_all(path);
                verif::trace::emit(json!({"e": "RemoveDir", "path": path, "ok": r.is_ok()}));
            }
            "provision_timeup" => {
                // provisioning finishes by its deadline (the key keeper's two-minute timer): the real handler, writing the
                // tag files into the directory the service uses (None = config::get_keys_dir())
                let shared = self.shared.clone();
                self.rt.block_on(crate::provision::provision_timeup(
                    None,
                    shared.get_provision_shared_state(),
                    shared.get_agent_status_shared_state(),
                ));
                verif::trace::emit(json!({"e": "ProvisionTimeup"}));
            }
            "silent_host" => {
                // a host endpoint that neither accepts nor refuses: a listening socket with backlog 0 that nobody accepts from,
                // its accept queue filled by this op -- further SYNs are dropped by the kernel and a connect() to it stays
                // pending (what an unreachable / overloaded IMDS or WireServer looks like)
                let addr: SocketAddr = st["addr"].as_str().unwrap().parse().unwrap();
                let mut filled = 0;
                unsafe {
                    let fd = libc::socket(libc::AF_INET, libc::SOCK_STREAM, 0);
                    let one: libc::c_int = 1;
                    libc::setsockopt(fd, libc::SOL_SOCKET, libc::SO_REUSEADDR, &one as *const _ as *const libc::c_void, 4);
                    let mut sa: libc::sockaddr_in = std::mem::zeroed();
                    sa.sin_family = libc::AF_INET as u16;
                    if let SocketAddr::V4(v4) = addr {
                        sa.sin_port = v4.port().to_be();
                        sa.sin_addr.s_addr = u32::from_ne_bytes(v4.ip().octets());
                    }
                    let ok = libc::bind(fd, &sa as *const _ as *const libc::sockaddr, std::mem::size_of::<libc::sockaddr_in>() as u32) == 0
                        && libc::listen(fd, 0) == 0;
                    if ok {
                        // never closed, never accepted from (leaked on purpose for the life of the process)
                        for _ in 0..4 {
                            if let Ok(c) = TcpStream::connect_timeout(&addr, Duration::from_millis(300)) {
                                filled += 1;
                                std::mem::forget(c);
                            }
                        }
                    }
                }
                // probe: a further connect must now stay pending
                let pending = TcpStream::connect_timeout(&addr, Duration::from_millis(700)).is_err();
                verif::trace::emit(json!({"e": "SilentHost", "addr": st["addr"], "filled": filled, "connect_stays_pending": pending}));
            }
            "mark_host_requests" => HOST_TARGETS.lock().unwrap().clear(), // count from here
            "wait_host_requests" => {
                // wait until the mock hosts have received n requests whose target starts with the given prefix
                let prefix = st["target"].as_str().unwrap_or("/").to_string();
                let n = st["n"].as_u64().unwrap_or(1) as usize;
                let t0 = std::time::Instant::now();
                let count = || HOST_TARGETS.lock().unwrap().iter().filter(|t| t.starts_with(&prefix)).count();
                while count() < n && t0.elapsed() < Duration::from_millis(st["timeout_ms"].as_u64().unwrap_or(10000)) {
                    std::thread::sleep(Duration::from_millis(2));
                }
                verif::trace::emit(json!({"e": "HostRequests", "target": prefix, "n": count(), "want": n}));
            }
            "wait_audit_settled" => {
                // wait until the listener has caught up with its backlog: the number of pending records stops changing
                let t0 = std::time::Instant::now();
                let mut last = verif::audit::len();
                let mut stable = 0;
                while t0.elapsed() < Duration::from_millis(st["timeout_ms"].as_u64().unwrap_or(10000)) && stable < 10 && last > 0 {
                    std::thread::sleep(Duration::from_millis(30));
                    let n = verif::audit::len();
                    if n == last { stable += 1; } else { stable = 0; last = n; }
                }
                verif::trace::emit(json!({"e": "AuditLen", "n": verif::audit::len(), "tag": st["tag"], "waited_ms": t0.elapsed().as_millis() as u64}));
            }
            "audit_len" => {
                verif::trace::emit(json!({"e": "AuditLen", "n": verif::audit::len(), "tag": st["tag"]}));
            }
            "notify_key_keeper" => {
                let kk = self.shared.get_key_keeper_shared_state();
                let _ = self.rt.block_on(kk.notify());
            }
            // the secure-channel state string the key keeper publishes (environment of the request handlers)
            "set_channel_state" => {
                let kk = self.shared.get_key_keeper_shared_state();
                let r = self.rt.block_on(kk.update_current_secure_channel_state(st["state"].as_str().unwrap_or("Unknown").to_string()));
                verif::trace::emit(json!({"e": "ChannelState", "state": st["state"], "ok": r.is_ok()}));
            }
            "key_state" => {
                let kk = self.shared.get_key_keeper_shared_state();
                let guid = self.rt.block_on(kk.get_current_key_guid()).unwrap_or(None);
                let state = self.rt.block_on(kk.get_current_secure_channel_state()).unwrap_or_default();
                verif::trace::emit(json!({"e": "KeyState", "guid": guid, "state": state, "tag": st["tag"]}));
            }
            "set_plan" => {
                // response plan for a request id ("" = requests that carry no x-verif-id: the agent's own calls)
                let r = &st["resp"];
                PLANS.lock().unwrap().insert(
                    st["id"].as_str().unwrap_or("").to_string(),
                    Plan {
                        status: r["status"].as_u64().unwrap_or(200) as u16,
                        headers: pairs_of(r.get("headers")),
                        body: body_of(&r["body"]),
                        framing: r["framing"].as_str().unwrap_or("cl").to_string(),
                        frames: usizes_of(r.get("frames")),
                        delay_ms: r["delay_ms"].as_u64().unwrap_or(0),
                        gap_ms: r["gap_ms"].as_u64().unwrap_or(2),
                    },
                );
            }
            "own_call" => {
                // the agent's own host calls, signed by the builder route (hyper_client::build_request)
                let kind = st["kind"].as_str().unwrap_or("goalstate").to_string();
                let kk = self.shared.get_key_keeper_shared_state();
                verif::trace::emit(json!({"e": "OwnCall", "kind": kind, "tag": st["tag"]}));
                let rt = self.rt.clone();
                let url_arg = st["url"].as_str().map(|x| x.to_string());
                let rotate = st["rotate"].clone();
                // the clients take the endpoint's port as an argument: "port" sends the goal-state call to another listener of
                // the mock WireServer address (default 80)
                let port = st["port"].as_u64().unwrap_or(80) as u16;
                let kind2 = kind.clone();
                // a panic inside the client code must not take the driver thread down: it is data
                let res = std::panic::catch_unwind(std::panic::AssertUnwindSafe(move || rt.block_on(async {
                    let kind = kind2;
                    let st = json!({"url": url_arg});
                    match kind.as_str() {
                        // one long-lived client (as the telemetry reader keeps it) makes both calls of a metadata refresh;
                        // the key keeper latches another key between them
                        "refresh" => {
                            let client = crate::host_clients::wire_server_client::WireServerClient::new("168.63.129.16", 80, kk.clone());
                            let a = client.get_goalstate().await.is_ok();
                            if !rotate.is_null() {
                                let key: Key = serde_json::from_value(json!({
                                    "authorizationScheme": "Azure-HMAC-SHA256",
                                    "guid": rotate["guid"], "issued": "2021-05-05T 12:00:00Z", "key": rotate["key"], "incarnationId": 2
                                }))
                                .expect("key");
                                let _ = kk.update_key(key).await;
                            }
                            let b = client
                                .get_shared_config("http://168.63.129.16:80/machine/x?comp=config&type=sharedConfig&incarnation=1".to_string())
                                .await
                                .is_ok();
                            a && b
                        }
                        // the builder route with a body, sent over the wire (what the host verifies is what arrives)
                        "post" => {
                            let n = rotate["len"].as_u64().unwrap_or(83) as usize;
                            let body: Vec<u8> = (0..n).map(|i| ((i * 7 + 3) & 0xff) as u8).collect();
                            let (guid, key) = match kk.get_current_key_guid_and_value().await {
                                Ok(Some((g, k))) => (Some(g), Some(k)),
                                _ => (None, None),
                            };
                            let url: hyper::Uri = "http://168.63.129.16:80/machine/?comp=ownpost&n=1".parse().unwrap();
                            let mut hs = std::collections::HashMap::new();
                            hs.insert("x-ms-version".to_string(), "2012-11-30".to_string());
                            match crate::common::hyper_client::build_request(hyper::Method::POST, &url, &hs, Some(&body), guid, key) {
                                Ok(req) => crate::common::hyper_client::send_request("168.63.129.16", 80, req, |_m| {}).await.is_ok(),
                                Err(_) => false,
                            }
                        }
                        "goalstate" => crate::host_clients::wire_server_client::WireServerClient::new("168.63.129.16", port, kk)
                            .get_goalstate()
                            .await
                            .is_ok(),
                        "sharedconfig" => crate::host_clients::wire_server_client::WireServerClient::new("168.63.129.16", 80, kk)
                            .get_shared_config(st["url"].as_str().unwrap_or("http://168.63.129.16:80/machine/x?comp=config&type=sharedConfig&incarnation=1").to_string())
                            .await
                            .is_ok(),
                        _ => crate::host_clients::imds_client::ImdsClient::new("169.254.169.254", 80, kk)
                            .get_imds_instance_info()
                            .await
                            .is_ok(),
                    }
                })));
                let (ok, panicked) = match res {
                    Ok(v) => (v, false),
                    Err(_) => (false, true),
                };
                verif::trace::emit(json!({"e": "OwnCallDone", "kind": kind, "tag": st["tag"], "ok": ok, "panicked": panicked}));
            }
            "sleep" => std::thread::sleep(match st["us"].as_u64() {
                Some(us) => Duration::from_micros(us),
                None => Duration::from_millis(st["ms"].as_u64().unwrap_or(1)),
            }),
            "mark" => {
                verif::trace::emit(json!({"e": "Mark", "tag": st["tag"]}));
            }
            "parallel" => {
                let mut hs = Vec::new();
                for (i, b) in st["branches"].as_array().unwrap().iter().enumerate() {
                    let me = self.clone();
                    let b = b.clone();
                    hs.push(std::thread::Builder::new().name(format!("branch-{}", i)).spawn(move || {
                        for s in b.as_array().unwrap() {
                            me.step(s);
                        }
                    }).unwrap());
                }
                for h in hs {
                    let _ = h.join();
                }
            }
            other => panic!("harness: unknown op {}", other),
        }
    }
}

fn recv_one(conn: &str, id: &str, g: &mut ClientConn, send_err: Option<String>) {
    let mut buf = std::mem::take(&mut g.buf);
    let mut r = read_message(&mut g.stream, &mut buf, true, false);
    // interim responses (100 Continue) are not the answer: skip them
    for _ in 0..3 {
        match &r {
            Ok(Some(p)) if p.target.parse::<u16>().map(|s| (100..200).contains(&s)).unwrap_or(false) => {
                let n = p.total_len;
                buf.drain(..n);
                r = read_message(&mut g.stream, &mut buf, true, false);
            }
            _ => break,
        }
    }
    match r {
        Ok(Some(p)) => {
            verif::trace::emit(json!({"e": "Response", "conn": conn, "id": id, "status": p.target.parse::<u16>().unwrap_or(0),
                "headers": headers_json(&p.headers), "bodyLen": p.body.len(), "bodySha": sha256_hex(&p.body),
                "bodyText": if p.body.len() <= 512 { String::from_utf8_lossy(&p.body).to_string() } else { String::new() },
                "chunks": p.chunk_sizes, "sendErr": send_err}));
            buf.drain(..p.total_len);
        }
        Ok(None) => {
            verif::trace::emit(json!({"e": "ResponseError", "conn": conn, "id": id, "kind": "eof", "got": buf.len(), "sendErr": send_err}));
        }
        Err(e) => {
            verif::trace::emit(json!({"e": "ResponseError", "conn": conn, "id": id, "kind": e, "got": buf.len(), "sendErr": send_err}));
        }
    }
    g.buf = buf;
}

pub fn main() -> i32 {
    let script: Value = serde_json::from_str(&std::fs::read_to_string(env("VERIF_SCRIPT")).expect("script")).expect("script json");
    verif::trace::set_file(&env("VERIF_OUT"));
    verif::audit::enable();
    let mut rtb = tokio::runtime::Builder::new_multi_thread();
    rtb.worker_threads(4).enable_all();
    if let Some(n) = script["max_blocking_threads"].as_u64() {
        // a machine on which the blocking pool cannot grow (thread / pids limit): jobs handed to it wait their turn
        rtb.max_blocking_threads(n as usize);
    }
    let rt = rtb.build().unwrap();
    let port = script["proxy_port"].as_u64().unwrap_or(3080) as u16;
    for h in script["hosts"].as_array().cloned().unwrap_or_default() {
        if let Err(e) = start_host(h["name"].as_str().unwrap(), h["addr"].as_str().unwrap()) {
            eprintln!("harness: {}", e);
            return 2;
        }
    }
    let shared = rt.block_on(async { SharedState::start_all() });
    // file loggers exactly as service::start_service sets them up (setup_loggers is private there)
    if script["loggers"].as_bool().unwrap_or(true) {
        use proxy_agent_shared::logger::rolling_logger::RollingLogger;
        let log_folder = crate::common::config::get_logs_dir();
        proxy_agent_shared::logger::logger_manager::set_logger_level(crate::common::config::get_file_log_level());
        let mut loggers = std::collections::HashMap::new();
        loggers.insert(
            crate::common::logger::AGENT_LOGGER_KEY.to_string(),
            RollingLogger::create_new(log_folder.clone(), "ProxyAgent.log".to_string(), 10 * 1024 * 1024, 5),
        );
        loggers.insert(
            crate::proxy::proxy_connection::ConnectionLogger::CONNECTION_LOGGER_KEY.to_string(),
            RollingLogger::create_new(log_folder.clone(), "ProxyAgent.Connection.log".to_string(), 10 * 1024 * 1024, 5),
        );
        proxy_agent_shared::logger::logger_manager::set_loggers(loggers, crate::common::logger::AGENT_LOGGER_KEY.to_string());
    }
    let server = ProxyServer::new(port, &shared);
    rt.spawn(async move { server.start().await });
    if !script["status_task"].is_null() {
        let t = crate::proxy_agent_status::ProxyAgentStatusTask::new(
            Duration::from_millis(script["status_task"]["interval_ms"].as_u64().unwrap_or(50)),
            std::path::PathBuf::from(script["status_task"]["dir"].as_str().unwrap()),
            shared.get_cancellation_token(),
            shared.get_key_keeper_shared_state(),
            shared.get_agent_status_shared_state(),
        );
        rt.spawn(async move { t.start().await });
    }
    if script["event_logger"].as_bool().unwrap_or(false) {
        let dir = crate::common::config::get_events_dir();
        rt.spawn(async move {
            proxy_agent_shared::telemetry::event_logger::start(dir, Duration::from_millis(100), 30, |_| async {}).await;
        });
    }
    let proxy_addr: SocketAddr = format!("127.0.0.1:{}", port).parse().unwrap();
    // wait for the listener
    let t0 = std::time::Instant::now();
    loop {
        if TcpStream::connect_timeout(&proxy_addr, Duration::from_millis(200)).is_ok() {
            break;
        }
        if t0.elapsed() > Duration::from_secs(10) {
            eprintln!("harness: proxy listener did not come up");
            return 2;
        }
        std::thread::sleep(Duration::from_millis(10));
    }
    verif::trace::emit(json!({"e": "Reset"}));
    let rig = Arc::new(Rig {
        shared: shared.clone(),
        rt: rt.handle().clone(),
        proxy_addr,
        conns: Mutex::new(HashMap::new()),
        helpers: Mutex::new(HashMap::new()),
        ports: Mutex::new(HashMap::new()),
    });
    let steps = script["steps"].as_array().cloned().unwrap_or_default();
    let r2 = rig.clone();
    let h = std::thread::Builder::new().name("driver".into()).spawn(move || {
        for s in steps.iter() {
            r2.step(s);
        }
    }).unwrap();
    let driver_ok = h.join().is_ok();
    // close every client connection and give the hosts a moment to see EOF
    let names: Vec<String> = rig.conns.lock().unwrap().keys().cloned().collect();
    for n in names {
        rig.step(&json!({"op": "close", "conn": n}));
    }
    std::thread::sleep(Duration::from_millis(script["drain_ms"].as_u64().unwrap_or(150)));
    for (_, mut c) in rig.helpers.lock().unwrap().drain() {
        let _ = c.kill();
        let _ = c.wait();
    }
    verif::trace::emit(json!({"e": "Done", "driverOk": driver_ok}));
    verif::trace::flush();
    if driver_ok { 0 } else { 3 }
}
