pub mod disk;
pub mod fntable;
pub mod keykeeper;
pub mod lifecycle;
pub mod provision;
pub mod realmaps;
pub mod rig;
pub mod robust;
pub mod status;
pub mod telemetry;

use crate::verif;

/// A panic anywhere is data: it is recorded in the trace (location + message); the default hook still prints it.
pub fn install_panic_hook() {
    let default = std::panic::take_hook();
    std::panic::set_hook(Box::new(move |info| {
        let loc = info
            .location()
            .map(|l| format!("{}:{}", l.file(), l.line()))
            .unwrap_or_default();
        let msg = if let Some(s) = info.payload().downcast_ref::<&str>() {
            s.to_string()
        } else if let Some(s) = info.payload().downcast_ref::<String>() {
            s.clone()
        } else {
            "?".to_string()
        };
        let thread = std::thread::current().name().unwrap_or("").to_string();
        verif::trace::emit(serde_json::json!({"e": "Panic", "location": loc, "message": msg, "thread": thread}));
        verif::trace::flush();
        default(info);
    }));
}

pub fn env(name: &str) -> String {
    std::env::var(name).unwrap_or_else(|_| panic!("harness: missing env {}", name))
}

pub fn sha256_hex(data: &[u8]) -> String {
    hex::encode(hmac_sha256::Hash::hash(data))
}

/// Deterministic body bytes shared with the Python side (lib/vlib/rigcli.py gen_body).
pub fn gen_body(seed: u64, len: usize) -> Vec<u8> {
    let mut v = Vec::with_capacity(len);
    for i in 0..len {
        v.push(((i as u64).wrapping_mul(131).wrapping_add(seed.wrapping_mul(17)).wrapping_add((i as u64) >> 10) & 0xff) as u8);
    }
    v
}
