//! Function tables: TLC-generated cases (one JSON object per stdin line) evaluated by the real functions;
//! one JSON result per stdout line.  A panic inside the function under test is caught and reported as data.
use crate::key_keeper::key::AuthorizationItem;
use crate::proxy::authorization_rules::ComputedAuthorizationItem;
use crate::proxy::proxy_authorizer::{self, AuthorizeResult};
use crate::proxy::proxy_connection::ConnectionLogger;
use crate::proxy::Claims;
use serde_json::{json, Value};
use std::io::{BufRead, Write};
use std::str::FromStr;

fn claims_of(v: &Value) -> Claims {
    let exe = v["exe"].as_str().unwrap_or("");
    Claims {
        userId: v["uid"].as_u64().unwrap_or(0),
        userName: v["user"].as_str().unwrap_or("").to_string(),
        userGroups: v["groups"]
            .as_array()
            .map(|a| a.iter().map(|g| g.as_str().unwrap_or("").to_string()).collect())
            .unwrap_or_default(),
        processId: 1,
        processName: std::ffi::OsString::from(v["proc"].as_str().unwrap_or("")),
        processFullPath: std::path::PathBuf::from(exe),
        processCmdLine: v["cmd"].as_str().unwrap_or("").to_string(),
        runAsElevated: v["elevated"].as_bool().unwrap_or(false),
        clientIp: "127.0.0.1".to_string(),
        clientPort: 1,
    }
}

fn eval(cmd: &Value) -> Value {
    match cmd["kind"].as_str().unwrap_or("") {
        // the real serde path -> from_authorization_item -> is_allowed
        "rbac" => {
            let item: AuthorizationItem = match serde_json::from_value(cmd["doc"].clone()) {
                Ok(i) => i,
                Err(e) => return json!({"error": format!("deserialize: {}", e)}),
            };
            let computed = ComputedAuthorizationItem::from_authorization_item(item);
            let uri = match hyper::Uri::from_str(cmd["url"].as_str().unwrap_or("")) {
                Ok(u) => u,
                Err(e) => return json!({"error": format!("uri: {}", e)}),
            };
            let mut logger = ConnectionLogger::new(0, 0);
            let allowed = computed.is_allowed(&mut logger, uri, claims_of(&cmd["claims"]));
            json!({"allowed": allowed})
        }
        "authz" => {
            let rules = if cmd["doc"].is_null() {
                None
            } else {
                let item: AuthorizationItem = match serde_json::from_value(cmd["doc"].clone()) {
                    Ok(i) => i,
                    Err(e) => return json!({"error": format!("deserialize: {}", e)}),
                };
                Some(ComputedAuthorizationItem::from_authorization_item(item))
            };
            let uri = match hyper::Uri::from_str(cmd["url"].as_str().unwrap_or("")) {
                Ok(u) => u,
                Err(e) => return json!({"error": format!("uri: {}", e)}),
            };
            let mut logger = ConnectionLogger::new(0, 0);
            let r = proxy_authorizer::authorize(
                cmd["ip"].as_str().unwrap_or("").to_string(),
                cmd["port"].as_u64().unwrap_or(0) as u16,
                &mut logger,
                uri,
                claims_of(&cmd["claims"]),
                rules,
            );
            let s = if r == AuthorizeResult::Ok {
                "Ok"
            } else if r == AuthorizeResult::OkWithAudit {
                "OkWithAudit"
            } else {
                "Forbidden"
            };
            json!({"result": s})
        }
        // the shared signing helper under concurrent use with two different keys: every MAC must be the one a
        // single-threaded call yields for that key and input
        "sig_stress" => {
            let keys: Vec<String> = cmd["keys"].as_array().unwrap().iter().map(|k| k.as_str().unwrap().to_string()).collect();
            let threads = cmd["threads"].as_u64().unwrap_or(4) as usize;
            let iters = cmd["iters"].as_u64().unwrap_or(10000) as usize;
            let input = b"GET\n\nhost:h\n/x\na=1".to_vec();
            let reference: Vec<String> = keys
                .iter()
                .map(|k| crate::common::helpers::compute_signature(k, &input).unwrap_or_default())
                .collect();
            let mism = std::sync::Arc::new(std::sync::atomic::AtomicU64::new(0));
            let mut hs = Vec::new();
            for t in 0..threads {
                let keys = keys.clone();
                let reference = reference.clone();
                let input = input.clone();
                let mism = mism.clone();
                hs.push(std::thread::spawn(move || {
                    for i in 0..iters {
                        let k = (t + i / 3) % keys.len();
                        let got = crate::common::helpers::compute_signature(&keys[k], &input).unwrap_or_default();
                        if got != reference[k] {
                            mism.fetch_add(1, std::sync::atomic::Ordering::Relaxed);
                        }
                    }
                }));
            }
            for h in hs {
                let _ = h.join();
            }
            json!({"mismatches": mism.load(std::sync::atomic::Ordering::Relaxed), "calls": threads * iters, "reference": reference})
        }
        "skip_sig" => {
            let m = hyper::Method::from_bytes(cmd["method"].as_str().unwrap_or("GET").as_bytes()).unwrap();
            match hyper::Uri::from_str(cmd["target"].as_str().unwrap_or("/")) {
                Ok(u) => json!({"skip": crate::common::hyper_client::should_skip_sig(&m, &u)}),
                Err(e) => json!({"error": format!("uri: {}", e)}),
            }
        }
        // parts route: as_sig_input over request parts
        "canon" => {
            let mut b = hyper::Request::builder()
                .method(cmd["method"].as_str().unwrap_or("GET"))
                .uri(cmd["target"].as_str().unwrap_or("/"));
            for h in cmd["headers"].as_array().cloned().unwrap_or_default() {
                let name = h[0].as_str().unwrap_or("");
                let val: Vec<u8> = h[1].as_str().unwrap_or("").chars().map(|c| c as u32 as u8).collect();
                match hyper::header::HeaderValue::from_bytes(&val) {
                    Ok(v) => b = b.header(name, v),
                    Err(e) => return json!({"error": format!("header: {}", e)}),
                }
            }
            let body = hex::decode(cmd["body"].as_str().unwrap_or("")).unwrap_or_default();
            let req = match b.body(()) {
                Ok(r) => r,
                Err(e) => return json!({"error": format!("build: {}", e)}),
            };
            let (parts, _) = req.into_parts();
            let data = crate::common::hyper_client::as_sig_input(parts, hyper::body::Bytes::from(body));
            match data.sig_bytes() {
                Some(d) => json!({"canon": hex::encode(d)}),
                None => json!({"error": "as_sig_input: no string-to-sign"}),
            }
        }
        // builder route: the agent's own host calls
        "build_request" => {
            let mut headers = std::collections::HashMap::new();
            for h in cmd["headers"].as_array().cloned().unwrap_or_default() {
                headers.insert(h[0].as_str().unwrap_or("").to_string(), h[1].as_str().unwrap_or("").to_string());
            }
            let body = cmd["body"].as_str().map(|b| hex::decode(b).unwrap_or_default());
            let uri = match hyper::Uri::from_str(cmd["url"].as_str().unwrap_or("")) {
                Ok(u) => u,
                Err(e) => return json!({"error": format!("uri: {}", e)}),
            };
            let m = hyper::Method::from_bytes(cmd["method"].as_str().unwrap_or("GET").as_bytes()).unwrap();
            let r = crate::common::hyper_client::build_request(
                m,
                &uri,
                &headers,
                body.as_deref(),
                cmd["guid"].as_str().map(|s| s.to_string()),
                cmd["key"].as_str().map(|s| s.to_string()),
            );
            match r {
                Ok(req) => {
                    let (parts, _) = req.into_parts();
                    let hs: Vec<Value> = parts
                        .headers
                        .iter()
                        .map(|(n, v)| json!([n.as_str(), v.as_bytes().iter().map(|&b| b as char).collect::<String>()]))
                        .collect();
                    let target = parts.uri.to_string();
                    let method = parts.method.to_string();
                    let canon = crate::common::hyper_client::as_sig_input(
                        parts,
                        hyper::body::Bytes::from(body.clone().unwrap_or_default()),
                    );
                    json!({"method": method, "target": target, "headers": hs, "canon_parts_route": hex::encode(canon.sig_bytes().unwrap_or_default())})
                }
                Err(e) => json!({"error": format!("{}", e)}),
            }
        }
        other => json!({"error": format!("unknown kind {}", other)}),
    }
}

/// as_sig_input returns the string-to-sign; a tree in which it reports an error instead is still a tree the drivers build on
trait SigBytes {
    fn sig_bytes(self) -> Option<Vec<u8>>;
}
impl SigBytes for Vec<u8> {
    fn sig_bytes(self) -> Option<Vec<u8>> {
        Some(self)
    }
}
impl<E> SigBytes for std::result::Result<Vec<u8>, E> {
    fn sig_bytes(self) -> Option<Vec<u8>> {
        self.ok()
    }
}

pub fn main() -> i32 {
    let stdin = std::io::stdin();
    // results go to a file: the code under test prints log lines on stdout
    let mut out = std::io::BufWriter::new(std::fs::File::create(super::env("VERIF_OUT")).expect("VERIF_OUT"));
    for line in stdin.lock().lines() {
        let line = line.unwrap();
        if line.trim().is_empty() {
            continue;
        }
        let cmd: Value = serde_json::from_str(&line).expect("bad command");
        let r = std::panic::catch_unwind(|| eval(&cmd));
        let v = match r {
            Ok(v) => v,
            Err(_) => json!({"panic": true}),
        };
        writeln!(out, "{}", v).unwrap();
    }
    out.flush().unwrap();
    0
}
