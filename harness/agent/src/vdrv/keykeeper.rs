//! driver stub (VERIF_CMD=keykeeper)
pub fn main() -> i32 {
    eprintln!("not built yet");
    2
}
