//! Key-keeper driver (VERIF_CMD=keykeeper): runs the REAL `KeyKeeper::new(..).poll_secure_channel_status()` against
//! the scripted secure-channel host (harness/mock/sc_host.py, a separate process on 168.63.129.16:80 in the netns).
//!
//! VERIF_KK_MODE=serve (C09 lock-step): multi-thread runtime; a control connection (unix socket VERIF_KK_CTL, one JSON
//!   object per line, the check is the server) asks for `start`, `stop`, `restart` (abort the task, fresh SharedState: all
//!   volatile state lost, key directory kept), `proj` (projection through the public getters + key directory listing
//!   + the H3 `Policy` events emitted since the last `proj`), `notify`, `alive`, `quit`.  The host withholds every
//!   reply, so when the check asks for a projection the key keeper is parked on its socket and nothing moves.
//! VERIF_KK_MODE=once (C08 crash sweep): current-thread runtime, file loggers as the service sets them up; runs the
//!   key keeper until a key is published in memory, then sends ONE signed request (`hyper_client::get` with the
//!   published guid/key) which the host verifies independently; prints a JSON line and exits 0.  Run under strace
//!   with kill injection by the check.
use super::env;
use crate::common::{config, hyper_client, logger};
use crate::key_keeper::KeyKeeper;
use crate::shared_state::SharedState;
use crate::verif;
use serde_json::{json, Value};
use std::collections::HashMap;
use std::io::{BufRead, BufReader, Read, Seek, SeekFrom, Write};
use std::path::PathBuf;
use std::time::{Duration, Instant};

fn opt_env(name: &str, default: &str) -> String {
    std::env::var(name).unwrap_or_else(|_| default.to_string())
}

struct Cfg {
    url: hyper::Uri,
    key_dir: PathBuf,
    log_dir: PathBuf,
    interval: Duration,
}

fn cfg() -> Cfg {
    Cfg {
        url: opt_env("VERIF_KK_URL", "http://168.63.129.16/").parse().expect("url"),
        key_dir: std::env::var("VERIF_KK_KEYDIR").map(PathBuf::from).unwrap_or_else(|_| config::get_keys_dir()),
        log_dir: std::env::var("VERIF_KK_LOGDIR").map(PathBuf::from).unwrap_or_else(|_| config::get_logs_dir()),
        interval: Duration::from_millis(opt_env("VERIF_KK_INTERVAL_MS", "1").parse().expect("interval")),
    }
}

fn setup_loggers() {
    use proxy_agent_shared::logger::rolling_logger::RollingLogger;
    let log_folder = config::get_logs_dir();
    proxy_agent_shared::logger::logger_manager::set_logger_level(config::get_file_log_level());
    let mut loggers = HashMap::new();
    loggers.insert(
        logger::AGENT_LOGGER_KEY.to_string(),
        RollingLogger::create_new(log_folder.clone(), "ProxyAgent.log".to_string(), 10 * 1024 * 1024, 5),
    );
    proxy_agent_shared::logger::logger_manager::set_loggers(loggers, logger::AGENT_LOGGER_KEY.to_string());
}

fn list_dir(dir: &PathBuf) -> Value {
    let mut out = Vec::new();
    let exists = dir.exists();
    let mut mode = 0u32;
    if exists {
        use std::os::unix::fs::PermissionsExt;
        if let Ok(m) = std::fs::metadata(dir) {
            mode = m.permissions().mode() & 0o7777;
        }
        if let Ok(rd) = std::fs::read_dir(dir) {
            for e in rd.flatten() {
                let name = e.file_name().to_string_lossy().to_string();
                let (size, content) = match std::fs::read(e.path()) {
                    Ok(b) => (b.len() as i64, String::from_utf8_lossy(&b[..b.len().min(4096)]).to_string()),
                    Err(_) => (-1, String::new()),
                };
                out.push(json!({"name": name, "size": size, "content": content}));
            }
        }
    }
    out.sort_by(|a, b| a["name"].as_str().cmp(&b["name"].as_str()));
    json!({"exists": exists, "mode": mode, "files": out})
}

struct TraceTail {
    path: String,
    off: u64,
}

impl TraceTail {
    fn drain(&mut self) -> (Vec<Value>, Vec<Value>) {
        let mut policy = Vec::new();
        let mut panics = Vec::new();
        verif::trace::flush();
        if let Ok(mut f) = std::fs::File::open(&self.path) {
            if f.seek(SeekFrom::Start(self.off)).is_ok() {
                let mut s = String::new();
                if f.read_to_string(&mut s).is_ok() {
                    // only complete lines are consumed
                    let upto = s.rfind('\n').map(|i| i + 1).unwrap_or(0);
                    for line in s[..upto].lines() {
                        if let Ok(v) = serde_json::from_str::<Value>(line) {
                            match v["e"].as_str() {
                                Some("Policy") => policy.push(json!({"ep": v["ep"], "redirect": v["redirect"], "seq": v["seq"]})),
                                Some("Panic") => panics.push(v.clone()),
                                _ => {}
                            }
                        }
                    }
                    self.off += upto as u64;
                }
            }
        }
        (policy, panics)
    }
}

struct Inst {
    shared: SharedState,
    handle: tokio::task::JoinHandle<()>,
}

fn start_inst(rt: &tokio::runtime::Runtime, c: &Cfg) -> Inst {
    let shared = rt.block_on(async { SharedState::start_all() });
    let kk = KeyKeeper::new(c.url.clone(), c.key_dir.clone(), c.log_dir.clone(), c.interval, &shared);
    let handle = rt.spawn(async move {
        kk.poll_secure_channel_status().await;
    });
    Inst { shared, handle }
}

fn projection(rt: &tokio::runtime::Runtime, inst: &Inst, c: &Cfg, tail: &mut TraceTail) -> Value {
    let ks = inst.shared.get_key_keeper_shared_state();
    let mem = rt.block_on(async {
        let guid = ks.get_current_key_guid().await.map_err(|e| e.to_string());
        let value = ks.get_current_key_value().await.map_err(|e| e.to_string());
        let incarnation = ks.get_current_key_incarnation().await.ok().flatten();
        let state = ks.get_current_secure_channel_state().await.map_err(|e| e.to_string());
        let rid = json!({
            "ws": ks.get_wireserver_rule_id().await.unwrap_or_else(|e| format!("ERR {}", e)),
            "imds": ks.get_imds_rule_id().await.unwrap_or_else(|e| format!("ERR {}", e)),
            "ga": ks.get_hostga_rule_id().await.unwrap_or_else(|e| format!("ERR {}", e)),
        });
        let rules = json!({
            "ws": ks.get_wireserver_rules().await.ok().flatten().map(|r| serde_json::to_value(r).unwrap_or(Value::Null)),
            "imds": ks.get_imds_rules().await.ok().flatten().map(|r| serde_json::to_value(r).unwrap_or(Value::Null)),
            "ga": ks.get_hostga_rules().await.ok().flatten().map(|r| serde_json::to_value(r).unwrap_or(Value::Null)),
        });
        json!({
            "keyGuid": guid.clone().ok().flatten(),
            "keyValue": value.ok().flatten(),
            "keyIncarnation": incarnation,
            "getterError": guid.err(),
            "state": state.unwrap_or_else(|e| format!("ERR {}", e)),
            "ruleId": rid,
            "rules": rules,
        })
    });
    let (policy, panics) = tail.drain();
    json!({"mem": mem, "dir": list_dir(&c.key_dir), "policy": policy, "panics": panics,
           "alive": !inst.handle.is_finished()})
}

fn serve() -> i32 {
    let c = cfg();
    let out = env("VERIF_OUT");
    verif::trace::set_file(&out);
    if opt_env("VERIF_KK_LOGGERS", "0") == "1" {
        setup_loggers();
    }
    let rt = tokio::runtime::Builder::new_multi_thread().worker_threads(2).enable_all().build().unwrap();
    let mut tail = TraceTail { path: out, off: 0 };
    let stream = match std::os::unix::net::UnixStream::connect(env("VERIF_KK_CTL")) {
        Ok(s) => s,
        Err(e) => {
            eprintln!("keykeeper driver: cannot connect control socket: {}", e);
            return 2;
        }
    };
    let mut w = stream.try_clone().unwrap();
    let r = BufReader::new(stream);
    let mut inst: Option<Inst> = None;
    for line in r.lines() {
        let line = match line {
            Ok(l) => l,
            Err(_) => break,
        };
        if line.trim().is_empty() {
            continue;
        }
        let cmd: Value = match serde_json::from_str(&line) {
            Ok(v) => v,
            Err(e) => {
                let _ = writeln!(w, "{}", json!({"error": format!("bad command: {}", e)}));
                continue;
            }
        };
        let reply = match cmd["op"].as_str().unwrap_or("") {
            "start" => {
                inst = Some(start_inst(&rt, &c));
                json!({"ok": true})
            }
            "stop" => {
                if let Some(old) = inst.take() {
                    old.handle.abort();
                    let _ = rt.block_on(old.handle);
                    old.shared.cancel_cancellation_token();
                }
                let _ = tail.drain();
                json!({"ok": true})
            }
            "restart" => {
                // the process dies: every task of the old incarnation is dropped, nothing volatile survives
                if let Some(old) = inst.take() {
                    old.handle.abort();
                    let _ = rt.block_on(old.handle);
                    old.shared.cancel_cancellation_token();
                }
                let _ = tail.drain();
                inst = Some(start_inst(&rt, &c));
                json!({"ok": true})
            }
            "proj" => match inst.as_ref() {
                Some(i) => projection(&rt, i, &c, &mut tail),
                None => json!({"error": "not started"}),
            },
            "notify" => match inst.as_ref() {
                Some(i) => {
                    let ks = i.shared.get_key_keeper_shared_state();
                    let r = rt.block_on(async { ks.notify().await.map_err(|e| e.to_string()) });
                    json!({"ok": r.is_ok(), "error": r.err()})
                }
                None => json!({"error": "not started"}),
            },
            "alive" => json!({"alive": inst.as_ref().map(|i| !i.handle.is_finished()).unwrap_or(false)}),
            "quit" => {
                let _ = writeln!(w, "{}", json!({"ok": true}));
                return 0;
            }
            other => json!({"error": format!("unknown op {}", other)}),
        };
        if writeln!(w, "{}", reply).is_err() {
            break;
        }
    }
    0
}

fn once() -> i32 {
    let c = cfg();
    if let Ok(out) = std::env::var("VERIF_OUT") {
        verif::trace::set_file(&out);
    }
    if opt_env("VERIF_KK_LOGGERS", "1") == "1" {
        setup_loggers();
    }
    let deadline = Duration::from_millis(opt_env("VERIF_KK_ONCE_TIMEOUT_MS", "8000").parse().unwrap_or(8000));
    let rt = tokio::runtime::Builder::new_current_thread().enable_all().build().unwrap();
    let code = rt.block_on(async {
        let shared = SharedState::start_all();
        let kk = KeyKeeper::new(c.url.clone(), c.key_dir.clone(), c.log_dir.clone(), c.interval, &shared);
        tokio::spawn(async move {
            kk.poll_secure_channel_status().await;
        });
        let ks = shared.get_key_keeper_shared_state();
        if opt_env("VERIF_KK_AUTONOTIFY", "0") == "1" {
            // the 1 s waits while the state is unknown are cut short with the public notify() (a no-op on the
            // state in that situation), so that a retry after a failed step does not cost a second per kill point
            let ks2 = ks.clone();
            tokio::spawn(async move {
                loop {
                    tokio::time::sleep(Duration::from_millis(4)).await;
                    if let Ok(s) = ks2.get_current_secure_channel_state().await {
                        if s == crate::key_keeper::UNKNOWN_STATE {
                            let _ = ks2.notify().await;
                        }
                    }
                }
            });
        }
        let t0 = Instant::now();
        let (guid, key) = loop {
            if let (Ok(Some(g)), Ok(Some(k))) = (ks.get_current_key_guid().await, ks.get_current_key_value().await) {
                break (g, k);
            }
            if t0.elapsed() > deadline {
                println!("{}", json!({"result": "timeout", "state": ks.get_current_secure_channel_state().await.unwrap_or_default()}));
                return 3;
            }
            tokio::time::sleep(Duration::from_millis(2)).await;
        };
        // the first signed request: the same client code the agent uses for its own host calls
        let (host, port) = hyper_client::host_port_from_uri(&c.url).unwrap_or(("168.63.129.16".to_string(), 80));
        let url: hyper::Uri = format!("http://{}:{}/verif/signed?comp=probe&n=1", host, port).parse().unwrap();
        let mut headers = HashMap::new();
        headers.insert("Metadata".to_string(), "True ".to_string());
        let r: Result<Value, _> = hyper_client::get(&url, &headers, Some(guid.clone()), Some(key), logger::write_warning).await;
        match r {
            Ok(v) => {
                println!("{}", json!({"result": "signed", "guid": guid, "host": v}));
                0
            }
            Err(e) => {
                println!("{}", json!({"result": "signed-rejected", "guid": guid, "error": e.to_string()}));
                4
            }
        }
    });
    code
}

pub fn main() -> i32 {
    match opt_env("VERIF_KK_MODE", "serve").as_str() {
        "serve" => serve(),
        "once" => once(),
        other => {
            eprintln!("keykeeper driver: unknown VERIF_KK_MODE '{}'", other);
            2
        }
    }
}
