//! driver stub (VERIF_CMD=provision)
pub fn main() -> i32 {
    eprintln!("not built yet");
    2
}
