//! C16 driver (VERIF_CMD=provision): schedules over the provisioning actor messages, executed on the real code.
//!
//! Every task is a real call -- `provision::redirector_ready`, `provision::key_latched`,
//! `provision::key_latch_ready_state_reset`, `provision::provision_timeup`, `ProxyServer::start()` (which binds,
//! calls `provision::listener_started` and then serves), and `GET /provision` over a real TCP connection to that
//! server -- spawned on a multi-thread runtime and parked at the H5 gates of `ProvisionSharedState`
//! (`verif::sched::point`, one gate per client call).  A step of a schedule releases exactly one parked task through
//! exactly one actor message and waits until that task is parked again (or finished); then the abstract state is
//! projected through the public getters (`get_state`, `get_provision_finished`), `status.tag` is read, and one
//! ndjson line is emitted.
//!
//! Gates are per label and hand out FIFO tickets.  To release parked tasks in an order different from their
//! arrival order the driver re-arms a gate before every expected arrival and advances its arrival counter with
//! single polls of `point()` (dropped immediately), so that the arriving task receives the ticket of its position in
//! the *release* order; `release_to(label, n)` then lets exactly the tickets <= n through.
//!
//! Script (VERIF_SCRIPT): {"port": 3080, "runs": [ {"id":..,"mode":"replay","steps":[{t,i,a,x,q?,..}..]} |
//!   {"id":..,"mode":"auto","seed":..,"kk":["U","R","T"..],"rd":1,"queries":["past",..],"ticks":n,"latch":n} ]}
//! Output (VERIF_OUT): ndjson Run / Tick / Step / TagObs / Desync / RunEnd / Done.
use super::env;
use crate::provision;
use crate::proxy::proxy_server::ProxyServer;
use crate::shared_state::agent_status_wrapper::AgentStatusModule;
use crate::shared_state::SharedState;
use crate::verif;
use proxy_agent_shared::misc_helpers;
use serde_json::{json, Value};
use std::collections::HashMap;
use std::future::Future;
use std::io::{Read, Write};
use std::sync::atomic::{AtomicBool, Ordering};
use std::sync::{Arc, Mutex};
use std::task::{Context, Wake, Waker};
use std::time::{Duration, Instant};

const L_UPD: &str = "provision.update_one_state";
const L_RESET: &str = "provision.reset_one_state";
const L_GET: &str = "provision.get_state";
const L_SETFIN: &str = "provision.set_provision_finished";
const L_GETFIN: &str = "provision.get_provision_finished";
const LABELS: [&str; 5] = [L_UPD, L_RESET, L_GET, L_SETFIN, L_GETFIN];

/// a step normally takes well under 10 ms; a task that has neither parked nor returned after this long is stuck
/// (the run is abandoned: all gates are released, the schedule is recorded as not replayable, the next run starts)
const STUCK_AFTER: Duration = Duration::from_millis(2500);

const MSG_R: &str = "rd-not-ready";
const MSG_K: &str = "kk-not-ready";
const MSG_L: &str = "ls-not-ready";

fn label_of(action: &str) -> Option<&'static str> {
    match action {
        "upd" => Some(L_UPD),
        "reset" => Some(L_RESET),
        "tstate" | "wstate" | "qstate" => Some(L_GET),
        "setfin" => Some(L_SETFIN),
        "qfin" | "wpoll" => Some(L_GETFIN),
        _ => None,
    }
}

fn is_start(action: &str) -> bool {
    matches!(action, "upd" | "reset" | "tstate" | "qfin" | "wpoll")
}

struct Noop;
impl Wake for Noop {
    fn wake(self: Arc<Self>) {}
}

struct Gates {
    rel: HashMap<&'static str, usize>,
    rt: tokio::runtime::Handle,
}

impl Gates {
    fn arm(&mut self, label: &'static str, skip: usize) {
        verif::sched::arm(label, skip);
        self.rel.insert(label, 0);
    }
    /// advance the arrival counter of `label` by n (each poll of `point` takes one ticket; the future is dropped)
    fn bump(&self, label: &'static str, n: usize) {
        let _g = self.rt.enter();
        let waker = Waker::from(Arc::new(Noop));
        let mut cx = Context::from_waker(&waker);
        for _ in 0..n {
            let mut fut = Box::pin(verif::sched::point(label));
            let _ = fut.as_mut().poll(&mut cx);
        }
    }
    /// the next task arriving at `label` will hold `ticket`
    fn prepare(&mut self, label: &'static str, ticket: usize) {
        self.arm(label, 0);
        self.bump(label, ticket - 1);
    }
    fn release_to(&mut self, label: &'static str, ticket: usize) {
        let r = self.rel.entry(label).or_insert(0);
        while *r < ticket {
            verif::sched::release(label);
            *r += 1;
        }
    }
    fn snapshot(&self) -> [usize; 5] {
        let mut s = [0usize; 5];
        for (i, l) in LABELS.iter().enumerate() {
            s[i] = verif::sched::arrived(l);
        }
        s
    }
}

type ClientResult = Arc<Mutex<Option<Result<(u16, String), String>>>>;

struct TaskSt {
    handle: Option<tokio::task::JoinHandle<()>>,
    client: Option<ClientResult>,
    parked: Option<(&'static str, usize)>,
    op: String,     // U R T Q
    stage: usize,   // gated messages performed in the current composite
    serving: bool,  // ls only
    q: String,      // the tick a query named
    qkind: String,
}

impl TaskSt {
    fn new() -> Self {
        TaskSt { handle: None, client: None, parked: None, op: "-".into(), stage: 0, serving: false, q: String::new(), qkind: String::new() }
    }
}

#[derive(Debug, Clone, PartialEq)]
enum Outcome {
    Gate(&'static str, usize),
    Done,
    Timeout,
}

fn now_nanos() -> i128 {
    misc_helpers::get_date_time_unix_nano()
}

fn http_provision(port: u16, tick: Option<&str>, metadata: bool, read_timeout: Duration) -> Result<(u16, String), String> {
    let addr: std::net::SocketAddr = format!("127.0.0.1:{}", port).parse().unwrap();
    let mut s = std::net::TcpStream::connect_timeout(&addr, Duration::from_millis(500)).map_err(|e| format!("connect: {}", e))?;
    let _ = s.set_read_timeout(Some(read_timeout));
    let mut req = String::from("GET /provision HTTP/1.1\r\nHost: 127.0.0.1\r\nConnection: close\r\n");
    if metadata {
        req.push_str("Metadata: true\r\n");
    }
    if let Some(t) = tick {
        req.push_str(&format!("x-ms-azure-time_tick: {}\r\n", t));
    }
    req.push_str("\r\n");
    s.write_all(req.as_bytes()).map_err(|e| format!("write: {}", e))?;
    let mut buf = Vec::new();
    let mut chunk = [0u8; 4096];
    loop {
        match s.read(&mut chunk) {
            Ok(0) => break,
            Ok(n) => buf.extend_from_slice(&chunk[..n]),
            Err(e) => return Err(format!("read: {}", e)),
        }
    }
    let text = String::from_utf8_lossy(&buf).to_string();
    let status = text.split_whitespace().nth(1).and_then(|x| x.parse::<u16>().ok()).ok_or_else(|| format!("bad response: {:?}", &text[..text.len().min(80)]))?;
    let body = match text.find("\r\n\r\n") {
        Some(p) => text[p + 4..].to_string(),
        None => String::new(),
    };
    Ok((status, body))
}

/// A reader of status.tag that keeps the file it saw last open until its next look.  Because the old inode stays
/// referenced its number cannot be reused, so "same (st_dev, st_ino), different content" really is a modification in
/// place; and the content readable through the old descriptor must never change after it was read in full (a file
/// replaced by rename leaves the old inode untouched, a write / O_TRUNC on the visible name does not).
struct TagWatch {
    held: Option<(std::fs::File, u64, u64, Vec<u8>)>,
}

struct TagLook {
    content: Option<String>,
    ino: u64,
    same_inode: bool,               // same (dev, ino) as at the previous look
    changed: bool,                  // content differs from the previous look
    old_fd: Option<(String, String)>, // content of the previously seen file changed under the open descriptor: (was, now)
}

fn read_all_at(f: &std::fs::File) -> Vec<u8> {
    use std::os::unix::fs::FileExt;
    let mut b = Vec::new();
    let mut off = 0u64;
    let mut buf = [0u8; 4096];
    loop {
        match f.read_at(&mut buf, off) {
            Ok(0) | Err(_) => break,
            Ok(n) => {
                b.extend_from_slice(&buf[..n]);
                off += n as u64;
            }
        }
    }
    b
}

impl TagWatch {
    fn new() -> Self {
        TagWatch { held: None }
    }

    fn look(&mut self, path: &std::path::Path) -> TagLook {
        use std::os::unix::fs::MetadataExt;
        let lossy = |b: &[u8]| String::from_utf8_lossy(b).to_string();
        let prev: Option<Vec<u8>> = self.held.as_ref().map(|h| h.3.clone());
        let mut old_fd = None;
        if let Some((f, _, _, c)) = self.held.as_mut() {
            let now = read_all_at(f);
            if now != *c {
                old_fd = Some((lossy(c), lossy(&now)));
            }
        }
        match std::fs::File::open(path) {
            Ok(f) => {
                let (dev, ino) = f.metadata().map(|m| (m.dev(), m.ino())).unwrap_or((0, 0));
                let b = read_all_at(&f);
                let same_inode = self.held.as_ref().map(|h| h.1 == dev && h.2 == ino).unwrap_or(false);
                let changed = prev.as_ref().map(|p| *p != b).unwrap_or(true);
                let content = Some(lossy(&b));
                if same_inode {
                    if let Some(h) = self.held.as_mut() {
                        h.3 = b;
                    }
                } else {
                    self.held = Some((f, dev, ino, b));
                }
                TagLook { content, ino, same_inode, changed, old_fd }
            }
            Err(_) => {
                let changed = self.held.is_some();
                self.held = None;
                TagLook { content: None, ino: 0, same_inode: false, changed, old_fd }
            }
        }
    }
}

fn look_json(l: &TagLook) -> Value {
    json!({"tag": l.content, "tag_ino": l.ino, "tag_same_inode": l.same_inode, "tag_changed": l.changed,
           "tag_oldfd": l.old_fd.as_ref().map(|(a, b)| json!({"was": a, "now": b}))})
}

struct Run {
    watch: TagWatch,
    rt: tokio::runtime::Handle,
    shared: SharedState,
    gates: Gates,
    port: u16,
    id: Value,
    tasks: HashMap<String, TaskSt>,
    ticks: Vec<i128>,      // ticks[v-1] = real instant at which the abstract clock became v
    latch: bool,
    keys_dir: std::path::PathBuf,
    k: usize,
    last_fin: i128,
    last_flags: u8,
    // replay: the steps at which each task moves, the step being executed, number of steps, tickets handed out behind them
    plan: HashMap<String, Vec<usize>>,
    cur: usize,
    nsteps: usize,
    tail: usize,
}

impl Run {
    fn tag_path(&self) -> std::path::PathBuf {
        self.keys_dir.join("status.tag")
    }

    fn read_tag(&mut self) -> Value {
        let p = self.tag_path();
        look_json(&self.watch.look(&p))
    }

    fn project(&mut self) -> (u8, i128) {
        let p = self.shared.get_provision_shared_state();
        self.gates.arm(L_GET, 1);
        let p1 = p.clone();
        let flags = self.rt.block_on(async move { p1.get_state().await }).map(|f| f.bits()).unwrap_or(255);
        self.gates.arm(L_GETFIN, 1);
        let fin = self.rt.block_on(async move { p.get_provision_finished().await }).unwrap_or(-1);
        self.last_fin = fin;
        self.last_flags = flags;
        (flags, fin)
    }

    fn spawn_composite(&mut self, name: &str, action: &str) {
        let sh = self.shared.clone();
        let ct = sh.get_cancellation_token();
        let kk = sh.get_key_keeper_shared_state();
        let tel = sh.get_telemetry_shared_state();
        let pv = sh.get_provision_shared_state();
        let ag = sh.get_agent_status_shared_state();
        let port = self.port;
        let h = match (name, action) {
            ("rd", "upd") => self.rt.spawn(async move { provision::redirector_ready(ct, kk, tel, pv, ag).await }),
            ("kk", "upd") => self.rt.spawn(async move { provision::key_latched(ct, kk, tel, pv, ag).await }),
            ("kk", "reset") => self.rt.spawn(async move { provision::key_latch_ready_state_reset(pv).await }),
            ("kk", "tstate") => self.rt.spawn(async move { provision::provision_timeup(None, pv, ag).await }),
            ("ls", "upd") => {
                let server = ProxyServer::new(port, &sh);
                self.rt.spawn(async move { server.start().await })
            }
            _ => panic!("harness: cannot start {} {}", name, action),
        };
        let t = self.tasks.entry(name.to_string()).or_insert_with(TaskSt::new);
        t.handle = Some(h);
        t.client = None;
        t.stage = 0;
        t.op = match action {
            "upd" => "U",
            "reset" => "R",
            _ => "T",
        }
        .to_string();
    }

    fn spawn_query(&mut self, name: &str, kind: &str, q: String) {
        let res: ClientResult = Arc::new(Mutex::new(None));
        let r2 = res.clone();
        let port = self.port;
        let q2 = q.clone();
        let with_tick = kind != "nohdr";
        std::thread::spawn(move || {
            let r = http_provision(port, if with_tick { Some(q2.as_str()) } else { None }, true, Duration::from_secs(20));
            *r2.lock().unwrap() = Some(r);
        });
        let t = self.tasks.entry(name.to_string()).or_insert_with(TaskSt::new);
        t.handle = None;
        t.client = Some(res);
        t.stage = 0;
        t.op = "Q".into();
        t.q = q;
        t.qkind = kind.to_string();
    }

    fn task_finished(&mut self, name: &str, probe: bool) -> bool {
        let port = self.port;
        let t = self.tasks.get_mut(name).unwrap();
        if let Some(c) = &t.client {
            return c.lock().unwrap().is_some();
        }
        if name == "ls" {
            if t.serving {
                return true;
            }
            if probe {
                if let Ok((400, _)) = http_provision(port, None, false, Duration::from_millis(40)) {
                    t.serving = true;
                    return true;
                }
            }
            return false;
        }
        t.handle.as_ref().map(|h| h.is_finished()).unwrap_or(true)
    }

    /// wait until the task `name` arrives at a gate or finishes
    fn wait_outcome(&mut self, name: &str, snap: [usize; 5], expect_done: bool, timeout: Duration) -> Outcome {
        let t0 = Instant::now();
        let mut spins = 0u32;
        loop {
            let now = self.gates.snapshot();
            for i in 0..5 {
                if now[i] > snap[i] {
                    return Outcome::Gate(LABELS[i], now[i]);
                }
            }
            let probe = name == "ls" && (expect_done || t0.elapsed() > Duration::from_millis(40)) && spins % 20 == 0;
            if self.task_finished(name, probe) {
                // an arrival and a completion exclude each other for one task; look once more for a late arrival
                let now = self.gates.snapshot();
                for i in 0..5 {
                    if now[i] > snap[i] {
                        return Outcome::Gate(LABELS[i], now[i]);
                    }
                }
                return Outcome::Done;
            }
            if t0.elapsed() > timeout {
                return Outcome::Timeout;
            }
            spins += 1;
            std::thread::sleep(Duration::from_micros(100));
        }
    }

    fn emit_step(&mut self, t: &str, i: u64, a: &str, x: &str, out: &Outcome, extra: Value, do_project: bool) {
        let (flags, fin) = if do_project { self.project() } else { (self.last_flags, self.last_fin) };
        let look = self.read_tag();
        let mut ev = json!({"e": "Step", "run": self.id, "k": self.k, "t": t, "i": i, "a": a, "x": x,
            "flags": flags, "fin": fin.to_string(), "now": now_nanos().to_string(),
            "latch": self.latch,
            "out": match out { Outcome::Gate(l, _) => json!(l), Outcome::Done => json!("done"), Outcome::Timeout => json!("timeout") }});
        if let (Some(o), Some(e)) = (ev.as_object_mut(), extra.as_object()) {
            for (k, v) in e {
                o.insert(k.clone(), v.clone());
            }
            for (k, v) in look.as_object().unwrap() {
                o.insert(k.clone(), v.clone());
            }
        }
        verif::trace::emit(ev);
        self.k += 1;
    }

    fn tick(&mut self) {
        std::thread::sleep(Duration::from_micros(600));
        let t = now_nanos();
        self.ticks.push(t);
        std::thread::sleep(Duration::from_micros(600));
        verif::trace::emit(json!({"e": "Tick", "run": self.id, "k": self.k, "clock": self.ticks.len(), "T": t.to_string()}));
        self.k += 1;
    }

    fn set_latch(&mut self, on: bool) {
        let kk = self.shared.get_key_keeper_shared_state();
        let state = if on { crate::key_keeper::MUST_SIG_WIRESERVER } else { crate::key_keeper::DISABLE_STATE }.to_string();
        let _ = self.rt.block_on(async move { kk.update_current_secure_channel_state(state).await });
        self.latch = on;
        let out = Outcome::Done;
        self.emit_step("env", 0, "latch", if on { "on" } else { "off" }, &out, json!({}), true);
    }

    fn query_tick(&self, kind: &str, q_abs: Option<u64>) -> String {
        match kind {
            "zero" => "0".to_string(),
            "future" => (now_nanos() + 3_600_000_000_000i128).to_string(),
            "exact" => self.last_fin.to_string(),
            "neg" => "-5".to_string(),
            "nohdr" => "0".to_string(),
            _ => {
                let j = q_abs.unwrap_or(self.ticks.len() as u64).max(1) as usize;
                self.ticks[j.min(self.ticks.len()) - 1].to_string()
            }
        }
    }

    fn desync(&mut self, why: String) {
        verif::trace::emit(json!({"e": "Desync", "run": self.id, "k": self.k, "why": why}));
    }

    fn prepare_all(&mut self, tickets: &[usize; 5]) {
        for (i, l) in LABELS.iter().enumerate() {
            self.gates.prepare(l, tickets[i]);
        }
    }

    /// begin a composite: spawn the real call and wait until it is parked at its first gate, whatever gate that is.
    /// `tickets`: the ticket the task receives at each gate.  Ok(false): it returned without any actor message.
    fn start_task(&mut self, name: &str, a: &str, x: &str, q_abs: Option<u64>, tickets: &[usize; 5]) -> Result<bool, String> {
        self.prepare_all(tickets);
        let snap = self.gates.snapshot();
        if a == "qfin" || a == "wpoll" {
            // wpoll: the next poll of a waiting query names the instant of its first poll again
            let prev = self.tasks.get(name).map(|t| t.q.clone()).filter(|q| !q.is_empty());
            let q = match (a, prev) {
                ("wpoll", Some(p)) => p,
                ("wpoll", None) => self.query_tick("past", q_abs),
                _ => self.query_tick(x, q_abs),
            };
            self.spawn_query(name, if a == "wpoll" { "wpoll" } else { x }, q);
        } else {
            self.spawn_composite(name, a);
        }
        match self.wait_outcome(name, snap, false, STUCK_AFTER) {
            Outcome::Gate(l, n) => {
                self.tasks.get_mut(name).unwrap().parked = Some((l, n));
                Ok(true)
            }
            Outcome::Done => Ok(false),
            Outcome::Timeout => Err(format!("{} {}: neither parked at a gate nor finished after being started", name, a)),
        }
    }

    /// one actor message of task `name`: release it from the gate it is parked at, wait until it is parked again
    /// (anywhere) or has finished, record what happened.  `tickets`: ticket of its next arrival at each gate.
    #[allow(clippy::too_many_arguments)]
    fn message_step(&mut self, name: &str, i: u64, exp: &str, x: &str, tickets: Option<&[usize; 5]>, hint_done: bool,
                    nowait: bool, extra_msg: bool) -> Result<Outcome, String> {
        let (label, tk) = match self.tasks.get(name).and_then(|t| t.parked) {
            Some(p) => p,
            None => return Err(format!("{}: not parked", name)),
        };
        // a gate lets every ticket up to the released one through: tasks parked at the same gate with smaller tickets
        // (the implementation took another path than the schedule assumed) send their message first, each as a step
        // of its own, so that exactly one actor message happens per step
        let mut guard = 0;
        loop {
            let before = self.tasks.iter().filter(|(n, _)| n.as_str() != name).filter_map(|(n, t)| t.parked.map(|p| (n.clone(), p)))
                .filter(|(_, p)| p.0 == label && p.1 < tk).min_by_key(|(_, p)| p.1);
            match before {
                Some((other, _)) if guard < 8 => {
                    guard += 1;
                    let oi = if other.starts_with('q') { other[1..].parse::<u64>().unwrap_or(0) } else { 0 };
                    self.message_step(&other, oi, "-", "-", None, false, false, true)?;
                }
                _ => break,
            }
        }
        let own: [usize; 5];
        let tickets: &[usize; 5] = match tickets {
            Some(t) => t,
            None => {
                // the gate being released stays open up to `tk`: the task must come back with a larger ticket or it
                // would run straight through its next message (a task released ahead of its scheduled step would get
                // the ticket of that same step again)
                let mut t = self.ticket_for(name);
                if t <= tk {
                    self.tail += 1;
                    t = self.nsteps.max(tk) + self.tail;
                }
                own = [t; 5];
                &own
            }
        };
        self.prepare_all(tickets);
        let snap = self.gates.snapshot();
        self.gates.release_to(label, tk);
        let (op, stage, q, qkind) = {
            let t = self.tasks.get_mut(name).unwrap();
            t.parked = None;
            t.stage += 1;
            (t.op.clone(), t.stage, t.q.clone(), t.qkind.clone())
        };
        let g = short(label);
        // the name the specification gives this message (display and S->I comparison only)
        let a = match (op.as_str(), g, stage) {
            ("U", "upd", _) => "upd",
            ("R", "reset", _) => "reset",
            ("T", "get", 1) => "tstate",
            (_, "setfin", _) => "setfin",
            ("Q", "getfin", _) if qkind == "wpoll" => "wpoll",
            ("Q", "getfin", _) => "qfin",
            ("Q", "get", _) => "qstate",
            (_, "get", _) => "wstate",
            (_, other, _) => other,
        };
        let sub = match name { "rd" => "R", "ls" => "L", "kk" => "K", _ => "-" };
        let mut extra = json!({"g": g, "op": op, "stage": stage, "exp": exp, "extra": extra_msg, "sub": sub});
        if op == "Q" {
            extra["q"] = json!(q);
            extra["qkind"] = json!(qkind);
        }
        if nowait {
            extra["nowait"] = json!(true);
            let out = Outcome::Timeout;
            self.emit_step(name_base(name), i, a, x, &out, extra, false);
            return Ok(out);
        }
        let out = self.wait_outcome(name, snap, hint_done, STUCK_AFTER);
        if let Outcome::Gate(l, n) = out {
            self.tasks.get_mut(name).unwrap().parked = Some((l, n));
        }
        if out == Outcome::Done && op == "Q" {
            let r = self.tasks.get(name).and_then(|t| t.client.clone()).and_then(|c| c.lock().unwrap().clone());
            match r {
                Some(Ok((status, body))) => {
                    extra["status"] = json!(status);
                    extra["body"] = json!(body);
                }
                Some(Err(e)) => {
                    extra["status"] = json!(0);
                    extra["err"] = json!(e);
                }
                None => {}
            }
        }
        self.emit_step(name_base(name), i, a, x, &out, extra, true);
        if out == Outcome::Timeout {
            return Err(format!("{} {}: neither parked nor finished within the time limit", name, a));
        }
        Ok(out)
    }

    /// replay: ticket of the task's next arrival = 1 + index of its next step in the schedule; behind all if none
    fn ticket_for(&mut self, name: &str) -> usize {
        let cur = self.cur;
        match self.plan.get(name).and_then(|v| v.iter().find(|k| **k > cur)) {
            Some(k) => k + 1,
            None => {
                self.tail += 1;
                self.nsteps + self.tail
            }
        }
    }

    /// a composite that sent no actor message at all
    fn empty_composite(&mut self, name: &str, i: u64, exp: &str, x: &str) {
        let op = self.tasks.get(name).map(|t| t.op.clone()).unwrap_or_default();
        let out = Outcome::Done;
        self.emit_step(name_base(name), i, "none", x, &out, json!({"g": "none", "op": op, "stage": 1, "exp": exp, "extra": false, "sub": "-"}), true);
    }

    fn is_parked(&self, name: &str) -> bool {
        self.tasks.get(name).map(|t| t.parked.is_some()).unwrap_or(false)
    }

    fn finish(&mut self) {
        for l in LABELS.iter() {
            verif::sched::disarm(l);
        }
        let t0 = Instant::now();
        let names: Vec<String> = self.tasks.keys().cloned().collect();
        loop {
            let mut all = true;
            for n in names.iter() {
                if n == "ls" {
                    continue;
                }
                if !self.task_finished(n, false) {
                    all = false;
                }
            }
            if all || t0.elapsed() > Duration::from_secs(4) {
                break;
            }
            std::thread::sleep(Duration::from_millis(1));
        }
        self.shared.cancel_cancellation_token();
        std::thread::sleep(Duration::from_millis(15));
        let look = self.read_tag();
        verif::trace::emit(json!({"e": "RunEnd", "run": self.id, "tag": look["tag"]}));
    }
}

fn short(label: &str) -> &'static str {
    match label {
        L_UPD => "upd",
        L_RESET => "reset",
        L_GET => "get",
        L_SETFIN => "setfin",
        L_GETFIN => "getfin",
        _ => "?",
    }
}

fn name_base(name: &str) -> &str {
    if name.starts_with('q') { "q" } else { name }
}

fn task_name(t: &str, i: u64) -> String {
    if t == "q" { format!("q{}", i) } else { t.to_string() }
}

fn clean_dir(dir: &std::path::Path) {
    for f in ["status.tag", "status.tag.tmp", "provisioned.tag"] {
        let _ = std::fs::remove_file(dir.join(f));
    }
}

fn new_run(rt: &tokio::runtime::Runtime, spec: &Value, port: u16) -> Run {
    let id = spec["id"].clone();
    // the status messages of the three modules (what the redirector / key keeper / listener would have set): by
    // default short ones, a run may give its own (long eBPF loader output, multi-byte text ...)
    let msg = |k: &str, d: &str| spec["msgs"][k].as_str().unwrap_or(d).to_string();
    let (msg_r, msg_k, msg_l) = (msg("R", MSG_R), msg("K", MSG_K), msg("L", MSG_L));
    let keys_dir = crate::common::config::get_keys_dir();
    let _ = std::fs::create_dir_all(&keys_dir);
    clean_dir(&keys_dir);
    let shared = rt.block_on(async { SharedState::start_all() });
    let ag = shared.get_agent_status_shared_state();
    rt.block_on(async {
        let _ = ag.set_module_status_message(msg_r.clone(), AgentStatusModule::Redirector).await;
        let _ = ag.set_module_status_message(msg_k.clone(), AgentStatusModule::KeyKeeper).await;
        let _ = ag.set_module_status_message(msg_l.clone(), AgentStatusModule::ProxyServer).await;
    });
    let mut gates = Gates { rel: HashMap::new(), rt: rt.handle().clone() };
    for l in LABELS.iter() {
        gates.arm(l, 0);
    }
    let mut run = Run {
        rt: rt.handle().clone(), shared, gates, port, id: id.clone(), tasks: HashMap::new(), ticks: Vec::new(), latch: false,
        watch: TagWatch::new(), keys_dir, k: 0, last_fin: 0, last_flags: 0, plan: HashMap::new(), cur: 0, nsteps: 0, tail: 0,
    };
    std::thread::sleep(Duration::from_micros(300));
    let t1 = now_nanos();
    run.ticks.push(t1);
    std::thread::sleep(Duration::from_micros(300));
    verif::trace::emit(json!({"e": "Run", "run": id, "T": t1.to_string(), "port": port, "msgs": {"R": msg_r, "K": msg_k, "L": msg_l}}));
    run
}

/// S->I: drive the tasks in the order of the schedule, one actor message per step.  The schedule says *which task*
/// moves (and which composite it begins); which gate the task is parked at is the implementation's business: the
/// driver releases it wherever it is, records the gate, and goes on.  A step for a task that has already returned
/// is skipped, a composite that has more messages than the schedule gives it is drained before the task's next
/// composite begins and at the end.  Ticket of a parked task = 1 + index of its next step in the schedule, so
/// release_to() lets exactly that task through whatever gate it shares with others.
fn run_replay(rt: &tokio::runtime::Runtime, spec: &Value, port: u16) {
    let mut run = new_run(rt, spec, port);
    let steps = spec["steps"].as_array().cloned().unwrap_or_default();
    let key = |s: &Value| task_name(s["t"].as_str().unwrap_or(""), s["i"].as_u64().unwrap_or(0));
    let moves = |s: &Value| {
        let a = s["a"].as_str().unwrap_or("");
        label_of(a).is_some() || a == "cont" || a == "drain"
    };
    let nsteps = steps.len();
    run.nsteps = nsteps;
    for (k, s) in steps.iter().enumerate() {
        if moves(s) {
            run.plan.entry(key(s)).or_default().push(k);
        }
    }
    // tag observer (race phases)
    let observing = Arc::new(AtomicBool::new(false));
    let obs: Arc<Mutex<Vec<Value>>> = Arc::new(Mutex::new(Vec::new()));
    let mut observer: Option<std::thread::JoinHandle<()>> = None;
    let mut race_t0: Option<Instant> = None;
    let mut stuck = false;
    'steps: for (k, s) in steps.iter().enumerate() {
        let t = s["t"].as_str().unwrap_or("");
        let i = s["i"].as_u64().unwrap_or(0);
        let a = s["a"].as_str().unwrap_or("");
        let x = s["x"].as_str().unwrap_or("-");
        if s["observe"].as_bool().unwrap_or(false) && observer.is_none() {
            observing.store(true, Ordering::SeqCst);
            let flag = observing.clone();
            let o2 = obs.clone();
            let path = run.tag_path();
            observer = Some(std::thread::spawn(move || {
                let mut w = TagWatch::new();
                let mut first = true;
                while flag.load(Ordering::SeqCst) {
                    let l = w.look(&path);
                    if first || l.changed || !l.same_inode && l.content.is_some() || l.old_fd.is_some() {
                        let mut v = look_json(&l);
                        v["at"] = json!(now_nanos().to_string());
                        o2.lock().unwrap().push(v);
                        first = false;
                    }
                    std::thread::sleep(Duration::from_micros(150));
                }
            }));
        }
        if let Some(ms) = s["at_ms"].as_u64() {
            // release this step `ms` after the first no-wait step
            if let Some(t0) = race_t0 {
                let due = t0 + Duration::from_millis(ms);
                let now = Instant::now();
                if due > now {
                    std::thread::sleep(due - now);
                }
            }
        }
        match a {
            "tick" => run.tick(),
            "latch" => run.set_latch(x == "on"),
            "sleep" => std::thread::sleep(Duration::from_millis(s["ms"].as_u64().unwrap_or(1))),
            "waitq" => {
                if let Err(why) = run.waiting_query(i, s["polls"].as_u64().unwrap_or(4), s["drop"].as_u64().unwrap_or(0) as usize,
                                                    s["late_ms"].as_u64().unwrap_or(0), s["down"].as_bool().unwrap_or(false)) {
                    run.desync(why);
                    stuck = true;
                    break 'steps;
                }
            }
            "ask" => {
                // a status query as a plain sequential step: it passes the query gates without parking (the first arrival
                // at each is let through), so it needs no other query to be held anywhere
                if !run.tasks.get("ls").map(|t| t.serving).unwrap_or(false) {
                    verif::trace::emit(json!({"e": "Skip", "run": run.id, "k": run.k, "t": t, "i": i, "a": a}));
                    continue;
                }
                run.gates.arm(L_GETFIN, 1);
                run.gates.arm(L_GET, 1);
                let q = run.query_tick(x, s["q"]["q"].as_u64());
                match http_provision(run.port, Some(q.as_str()), true, STUCK_AFTER + Duration::from_millis(500)) {
                    Ok((status, body)) => {
                        let out = Outcome::Done;
                        run.emit_step("q", i, "ask", x, &out, json!({"g": "ask", "op": "Q", "stage": 1, "exp": "ask", "extra": false,
                            "sub": "-", "q": q, "qkind": x, "status": status, "body": body}), true);
                    }
                    Err(e) => {
                        run.desync(format!("q{} ask: no answer ({})", i, e));
                        stuck = true;
                        break 'steps;
                    }
                }
            }
            _ if !moves(s) => {} // qchan, file system calls: not actor messages
            _ => {
                let name = key(s);
                let nowait = s["nowait"].as_bool().unwrap_or(false);
                run.cur = k;
                let next = steps[k + 1..].iter().position(|n| key(n) == name && moves(n)).map(|p| k + 1 + p);
                // does the schedule expect the composite to return after this message? (only a hint for probing)
                let hint_done = match next {
                    Some(n) => is_start(steps[n]["a"].as_str().unwrap_or("")),
                    None => true,
                };
                if is_start(a) {
                    // the task's previous composite is longer than the schedule thought: let it finish first
                    let mut guard = 0;
                    while run.is_parked(&name) && guard < 16 {
                        guard += 1;
                        if let Err(why) = run.message_step(&name, i, "-", "-", None, false, false, true) {
                            run.desync(why);
                            stuck = true;
                            break 'steps;
                        }
                    }
                    if a == "qfin" || a == "wpoll" {
                        // queries are served by the listener task: if it still has messages to send (more than the
                        // schedule gave it) let it finish them; without a serving listener there is no query
                        let mut guard = 0;
                        while run.is_parked("ls") && guard < 16 {
                            guard += 1;
                            if let Err(why) = run.message_step("ls", 0, "-", "-", None, true, false, true) {
                                run.desync(why);
                                stuck = true;
                                break 'steps;
                            }
                        }
                        if !run.tasks.get("ls").map(|t| t.serving).unwrap_or(false) {
                            verif::trace::emit(json!({"e": "Skip", "run": run.id, "k": run.k, "t": t, "i": i, "a": a}));
                            continue;
                        }
                    }
                    match run.start_task(&name, a, x, s["q"]["q"].as_u64(), &[k + 1; 5]) {
                        Ok(true) => {}
                        Ok(false) => {
                            run.empty_composite(&name, i, a, x);
                            continue;
                        }
                        Err(why) => {
                            run.desync(why);
                            stuck = true;
                            break 'steps;
                        }
                    }
                } else if a == "drain" {
                    let mut guard = 0;
                    while run.is_parked(&name) && guard < 16 {
                        guard += 1;
                        if let Err(why) = run.message_step(&name, i, "drain", x, None, false, false, false) {
                            run.desync(why);
                            stuck = true;
                            break 'steps;
                        }
                    }
                    continue;
                } else if !run.is_parked(&name) {
                    // the composite returned earlier than the schedule thought
                    verif::trace::emit(json!({"e": "Skip", "run": run.id, "k": run.k, "t": t, "i": i, "a": a}));
                    continue;
                }
                if nowait && race_t0.is_none() {
                    race_t0 = Some(Instant::now());
                }
                if let Err(why) = run.message_step(&name, i, a, x, None, hint_done, nowait, false) {
                    run.desync(why);
                    stuck = true;
                    break;
                }
            }
        }
    }
    if let Some(ms) = spec["settle_ms"].as_u64() {
        std::thread::sleep(Duration::from_millis(ms));
    }
    // whatever is still parked runs to the end, one message at a time, oldest ticket first
    let mut guard = 0;
    while !stuck && guard < 64 {
        guard += 1;
        let mut cand: Option<(String, usize)> = None;
        for (n, t) in run.tasks.iter() {
            if let Some((_, tk)) = t.parked {
                if cand.as_ref().map(|c| tk < c.1).unwrap_or(true) {
                    cand = Some((n.clone(), tk));
                }
            }
        }
        let name = match cand {
            Some((n, _)) => n,
            None => break,
        };
        run.cur = nsteps;
        let i = if name.starts_with('q') { name[1..].parse::<u64>().unwrap_or(0) } else { 0 };
        if let Err(why) = run.message_step(&name, i, "-", "-", None, false, false, true) {
            run.desync(why);
            break;
        }
    }
    run.finish();
    if let Some(h) = observer {
        std::thread::sleep(Duration::from_millis(5));
        observing.store(false, Ordering::SeqCst);
        let _ = h.join();
        let v: Vec<Value> = obs.lock().unwrap().iter().map(|o| {
            let mut o = o.clone();
            o["ino"] = o["tag_ino"].clone();
            o
        }).collect();
        verif::trace::emit(json!({"e": "TagObs", "run": run.id, "obs": v}));
    }
}

/// A byte-for-byte TCP forwarder in front of the listener that records the head of every request passing through:
/// what the listener receives from the real `ProvisionQuery` client, poll by poll.
/// `drop_first`: the first k connections are closed without an answer (after their request head was read);
/// `late_ms`: the port is bound only after that delay (connection refused until then).  `answers`: the response bodies.
#[allow(clippy::too_many_arguments)]
fn capture_forwarder(listen_port: u16, target_port: u16, stop: Arc<AtomicBool>, seen: Arc<Mutex<Vec<Vec<(String, String)>>>>,
                     answers: Arc<Mutex<Vec<String>>>, drop_first: usize, late_ms: u64) -> Result<std::thread::JoinHandle<()>, String> {
    // bound before the client starts, unless the port is to refuse connections for a while
    let pre = if late_ms == 0 {
        Some(std::net::TcpListener::bind(("127.0.0.1", listen_port)).map_err(|e| format!("forwarder bind {}: {}", listen_port, e))?)
    } else {
        None
    };
    Ok(std::thread::spawn(move || {
        let l = match pre {
            Some(l) => l,
            None => {
                std::thread::sleep(Duration::from_millis(late_ms));
                match std::net::TcpListener::bind(("127.0.0.1", listen_port)) {
                    Ok(l) => l,
                    Err(_) => return,
                }
            }
        };
        let _ = l.set_nonblocking(true);
        let mut nconn = 0usize;
        while !stop.load(Ordering::SeqCst) {
            match l.accept() {
                Ok((mut c, _)) => {
                    let seen = seen.clone();
                    let answers = answers.clone();
                    nconn += 1;
                    let dropped = nconn <= drop_first;
                    std::thread::spawn(move || {
                        let _ = c.set_nonblocking(false);
                        if dropped {
                            // read the request head, then close without a byte of answer
                            let _ = c.set_read_timeout(Some(Duration::from_millis(500)));
                            let mut acc: Vec<u8> = Vec::new();
                            let mut buf = [0u8; 4096];
                            while !acc.windows(4).any(|w| w == b"\r\n\r\n") {
                                match c.read(&mut buf) {
                                    Ok(0) | Err(_) => break,
                                    Ok(n) => acc.extend_from_slice(&buf[..n]),
                                }
                            }
                            let head = String::from_utf8_lossy(&acc).to_string();
                            let mut h: Vec<(String, String)> = vec![(":dropped".to_string(), "true".to_string())];
                            for (n, line) in head.split("\r\n").enumerate() {
                                if n == 0 {
                                    h.push((":request".to_string(), line.to_string()));
                                } else if let Some((k, v)) = line.split_once(':') {
                                    h.push((k.trim().to_ascii_lowercase(), v.trim().to_string()));
                                }
                            }
                            seen.lock().unwrap().push(h);
                            let _ = c.shutdown(std::net::Shutdown::Both);
                            return;
                        }
                        let mut up = match std::net::TcpStream::connect(("127.0.0.1", target_port)) {
                            Ok(u) => u,
                            Err(_) => return,
                        };
                        let (mut up_r, mut c_w) = match (up.try_clone(), c.try_clone()) {
                            (Ok(a), Ok(b)) => (a, b),
                            _ => return,
                        };
                        std::thread::spawn(move || {
                            let mut buf = [0u8; 8192];
                            let mut all: Vec<u8> = Vec::new();
                            loop {
                                match up_r.read(&mut buf) {
                                    Ok(0) | Err(_) => break,
                                    Ok(n) => {
                                        all.extend_from_slice(&buf[..n]);
                                        if c_w.write_all(&buf[..n]).is_err() {
                                            break;
                                        }
                                    }
                                }
                            }
                            answers.lock().unwrap().push(String::from_utf8_lossy(&all).to_string());
                            let _ = c_w.shutdown(std::net::Shutdown::Both);
                        });
                        let mut acc: Vec<u8> = Vec::new();
                        let mut buf = [0u8; 8192];
                        loop {
                            match c.read(&mut buf) {
                                Ok(0) | Err(_) => break,
                                Ok(n) => {
                                    if up.write_all(&buf[..n]).is_err() {
                                        break;
                                    }
                                    acc.extend_from_slice(&buf[..n]);
                                    // GET requests have no body: every blank line ends one request head
                                    while let Some(p) = acc.windows(4).position(|w| w == b"\r\n\r\n") {
                                        let head = String::from_utf8_lossy(&acc[..p]).to_string();
                                        acc.drain(..p + 4);
                                        let mut h: Vec<(String, String)> = Vec::new();
                                        for (n, line) in head.split("\r\n").enumerate() {
                                            if n == 0 {
                                                h.push((":request".to_string(), line.to_string()));
                                            } else if let Some((k, v)) = line.split_once(':') {
                                                h.push((k.trim().to_ascii_lowercase(), v.trim().to_string()));
                                            }
                                        }
                                        seen.lock().unwrap().push(h);
                                    }
                                }
                            }
                        }
                        let _ = up.shutdown(std::net::Shutdown::Both);
                    });
                }
                Err(_) => std::thread::sleep(Duration::from_millis(2)),
            }
        }
    }))
}

impl Run {
    /// The real client of `--status --wait` (provision_query::ProvisionQuery, as main.rs builds it) against the real
    /// listener, for about `polls` polls, nothing else moving; no key keeper task runs, so the notification of the first
    /// poll is not served.  Records every request the listener received (tick / notify headers) and what the client returned.
    /// Reachability of the listener is an environment dimension: `drop_first` polls get no answer, `late_ms` the port
    /// refuses connections until then, `down` nothing listens for the whole wait.
    fn waiting_query(&mut self, i: u64, polls: u64, drop_first: usize, late_ms: u64, down: bool) -> Result<(), String> {
        if !down && !self.tasks.get("ls").map(|t| t.serving).unwrap_or(false) {
            verif::trace::emit(json!({"e": "Skip", "run": self.id, "k": self.k, "t": "q", "i": i, "a": "waitq"}));
            return Ok(());
        }
        // the polls pass the query gates without parking
        self.gates.arm(L_GETFIN, 1_000_000);
        self.gates.arm(L_GET, 1_000_000);
        let fport = self.port.wrapping_add(12000);
        let stop = Arc::new(AtomicBool::new(false));
        let seen: Arc<Mutex<Vec<Vec<(String, String)>>>> = Arc::new(Mutex::new(Vec::new()));
        let answers: Arc<Mutex<Vec<String>>> = Arc::new(Mutex::new(Vec::new()));
        let fw = if down { None } else { Some(capture_forwarder(fport, self.port, stop.clone(), seen.clone(), answers.clone(), drop_first, late_ms)?) };
        // get_provision_status_wait polls while wait_duration >= time since process start
        let d = Duration::from_millis(crate::common::helpers::get_elapsed_time_in_millisec() as u64 + polls.saturating_sub(1) * 100 + 50);
        let before = now_nanos();
        let query = provision::provision_query::ProvisionQuery::new(fport, Some(d));
        let after = now_nanos();
        let res = self.rt.block_on(async move {
            tokio::time::timeout(Duration::from_secs(8), query.get_provision_status_wait()).await
        });
        stop.store(true, Ordering::SeqCst);
        if let Some(h) = fw {
            let _ = h.join();
        }
        std::thread::sleep(Duration::from_millis(5));
        let reqs: Vec<Value> = seen.lock().unwrap().iter().filter(|h| h.iter().any(|(n, _)| n == ":request")).map(|h| {
            let get = |k: &str| h.iter().find(|(n, _)| n == k).map(|(_, v)| v.clone());
            json!({"tick": get("x-ms-azure-time_tick"), "notify": get("x-ms-azure-notify").is_some(), "line": get(":request"),
                   "dropped": get(":dropped").is_some()})
        }).collect();
        let said_finished = answers.lock().unwrap().iter().any(|a| a.contains("\"finished\":true"));
        let answered = answers.lock().unwrap().iter().filter(|a| a.contains("\"finished\"")).count();
        match res {
            Ok(st) => {
                let out = Outcome::Done;
                self.emit_step("q", i, "waitq", "-", &out, json!({"g": "ask", "op": "Q", "stage": 1, "exp": "waitq", "extra": false, "sub": "-",
                    "qkind": "wait", "created_between": [before.to_string(), after.to_string()], "polls": reqs,
                    "answered": answered, "said_finished": said_finished, "env": {"drop_first": drop_first, "late_ms": late_ms, "down": down},
                    "status": 200, "body": serde_json::to_string(&st).unwrap_or_default()}), true);
                Ok(())
            }
            Err(_) => Err(format!("q{} waitq: the client did not return", i)),
        }
    }
}

struct Lcg(u64);
impl Lcg {
    fn next(&mut self, n: usize) -> usize {
        self.0 = self.0.wrapping_mul(6364136223846793005).wrapping_add(1442695040888963407);
        ((self.0 >> 33) as usize) % n.max(1)
    }
}

/// I->S: the driver chooses at random among what the *implementation* offers (tasks parked at gates, composites
/// that can start).  Nothing is assumed about which gate a task goes to next.
fn run_auto(rt: &tokio::runtime::Runtime, spec: &Value, port: u16) {
    let mut run = new_run(rt, spec, port);
    let mut rng = Lcg(spec["seed"].as_u64().unwrap_or(1).wrapping_mul(2654435761).wrapping_add(12345));
    let mut kk_ops: Vec<String> = spec["kk"].as_array().map(|a| a.iter().map(|v| v.as_str().unwrap_or("U").to_string()).collect()).unwrap_or_default();
    kk_ops.reverse();
    let mut rd_left = spec["rd"].as_u64().unwrap_or(1);
    let mut ls_started = false;
    let mut queries: Vec<String> = spec["queries"].as_array().map(|a| a.iter().map(|v| v.as_str().unwrap_or("past").to_string()).collect()).unwrap_or_default();
    queries.reverse();
    let mut nq = 0u64;
    let mut ticks_left = spec["ticks"].as_u64().unwrap_or(0);
    let mut latch_left = spec["latch"].as_u64().unwrap_or(0);
    // arrivals take tickets 16, 32, ...; a composite whose first gate already holds parked tasks overtakes them with
    // the ticket just below the smallest parked one (it passes within its own step, so the number is free again)
    const SPACING: usize = 16;
    let mut next_ticket: HashMap<&'static str, usize> = LABELS.iter().map(|l| (*l, SPACING)).collect();
    let mut guard = 0;
    loop {
        guard += 1;
        if guard > 400 {
            run.desync("auto: step limit".to_string());
            break;
        }
        // what is enabled
        let mut choices: Vec<(String, String)> = Vec::new(); // (task, action or "cont")
        let idle = |run: &mut Run, n: &str| -> bool {
            match run.tasks.get(n) {
                None => true,
                Some(t) => t.parked.is_none() && (t.handle.as_ref().map(|h| h.is_finished()).unwrap_or(true)),
            }
        };
        if rd_left > 0 && idle(&mut run, "rd") {
            choices.push(("rd".into(), "upd".into()));
        }
        if !ls_started {
            choices.push(("ls".into(), "upd".into()));
        }
        if !kk_ops.is_empty() && idle(&mut run, "kk") {
            let a = match kk_ops.last().unwrap().as_str() {
                "U" => "upd",
                "R" => "reset",
                _ => "tstate",
            };
            choices.push(("kk".into(), a.into()));
        }
        let serving = run.tasks.get("ls").map(|t| t.serving).unwrap_or(false);
        if serving && !queries.is_empty() {
            choices.push((format!("q{}", nq + 1), "qfin".into()));
        }
        // head of every gate
        for l in LABELS.iter() {
            let mut head: Option<(String, usize)> = None;
            for (n, t) in run.tasks.iter() {
                if let Some((pl, tk)) = t.parked {
                    if pl == *l && head.as_ref().map(|h| tk < h.1).unwrap_or(true) {
                        head = Some((n.clone(), tk));
                    }
                }
            }
            if let Some((n, _)) = head {
                choices.push((n, "cont".into()));
            }
        }
        if ticks_left > 0 {
            choices.push(("env".into(), "tick".into()));
        }
        if latch_left > 0 {
            choices.push(("env".into(), "latch".into()));
        }
        let work_left = choices.iter().any(|c| c.0 != "env");
        if !work_left {
            break;
        }
        choices.sort();
        let (name, act) = choices[rng.next(choices.len())].clone();
        if name == "env" {
            if act == "tick" {
                ticks_left -= 1;
                run.tick();
            } else {
                latch_left -= 1;
                let on = !run.latch;
                run.set_latch(on);
            }
            continue;
        }
        // Tickets of the next arrival at every gate.  A gate that already holds parked tasks hands out either the
        // ticket just below the smallest parked one (the arriving task can then be released before them: it overtakes
        // between two consecutive messages of the parked tasks, whatever those messages are) or the next one behind
        // them.  A beginning composite always arrives ahead, so that it passes its first gate alone.
        let starting = act != "cont";
        let mut tickets = [0usize; 5];
        for (n, l) in LABELS.iter().enumerate() {
            let min_parked = run.tasks.iter().filter(|(tn, _)| **tn != name).filter_map(|(_, t)| t.parked).filter(|p| p.0 == *l).map(|p| p.1).min();
            tickets[n] = match min_parked {
                Some(m) if m > 1 && (starting || rng.next(2) == 0) => m - 1,
                _ => next_ticket[l],
            };
        }
        let i = if name.starts_with('q') { name[1..].parse::<u64>().unwrap_or(0) } else { 0 };
        let mut x = "-".to_string();
        if starting {
            let mut qabs = None;
            match name.as_str() {
                "rd" => { rd_left -= 1; x = "R".into(); }
                "ls" => { ls_started = true; x = "L".into(); }
                "kk" => { kk_ops.pop(); if act != "tstate" { x = "K".into(); } }
                _ => {
                    nq += 1;
                    x = queries.pop().unwrap();
                    if x == "past" {
                        qabs = Some(1 + rng.next(run.ticks.len()) as u64);
                    }
                    if x == "exact" && run.last_fin == 0 {
                        x = "past".into();
                        qabs = Some(run.ticks.len() as u64);
                    }
                }
            }
            match run.start_task(&name, &act, &x, qabs, &tickets) {
                Ok(true) => {
                    if let Some((l, n)) = run.tasks.get(&name).and_then(|t| t.parked) {
                        if n == next_ticket[l] {
                            *next_ticket.get_mut(l).unwrap() += SPACING;
                        }
                    }
                    // the tickets for the arrival after the first message: recompute (the task itself is now parked)
                    for (n, l) in LABELS.iter().enumerate() {
                        let min_parked = run.tasks.iter().filter(|(tn, _)| **tn != name).filter_map(|(_, t)| t.parked).filter(|p| p.0 == *l).map(|p| p.1).min();
                        tickets[n] = match min_parked {
                            Some(m) if m > 1 && rng.next(2) == 0 => m - 1,
                            _ => next_ticket[l],
                        };
                    }
                }
                Ok(false) => {
                    run.empty_composite(&name, i, &act, &x);
                    continue;
                }
                Err(why) => {
                    run.desync(why);
                    break;
                }
            }
        } else {
            let t = run.tasks.get(&name).unwrap();
            x = if t.op == "Q" { "-".to_string() } else { t.op.clone() };
        }
        // the gate being released stays open up to the released ticket: the task must come back behind it
        if let Some((pl, ptk)) = run.tasks.get(&name).and_then(|t| t.parked) {
            for (n, l) in LABELS.iter().enumerate() {
                if *l == pl && tickets[n] <= ptk {
                    tickets[n] = next_ticket[l];
                }
            }
        }
        match run.message_step(&name, i, "-", &x, Some(&tickets), false, false, false) {
            Ok(out) => {
                if let Outcome::Gate(l, n) = out {
                    if n == next_ticket[l] {
                        *next_ticket.get_mut(l).unwrap() += SPACING;
                    }
                }
            }
            Err(why) => {
                run.desync(why);
                break;
            }
        }
    }
    run.finish();
}

pub fn main() -> i32 {
    let script: Value = serde_json::from_str(&std::fs::read_to_string(env("VERIF_SCRIPT")).expect("script")).expect("script json");
    verif::trace::set_file(&env("VERIF_OUT"));
    let rt = tokio::runtime::Builder::new_multi_thread()
        .worker_threads(script["workers"].as_u64().unwrap_or(6) as usize)
        .enable_all()
        .build()
        .unwrap();
    let base_port = script["port"].as_u64().unwrap_or(3080) as u16;
    let runs = script["runs"].as_array().cloned().unwrap_or_default();
    for (n, r) in runs.iter().enumerate() {
        let port = base_port + (n % 20000) as u16;
        match r["mode"].as_str().unwrap_or("replay") {
            "auto" => run_auto(&rt, r, port),
            _ => run_replay(&rt, r, port),
        }
    }
    verif::trace::emit(json!({"e": "Done", "runs": runs.len()}));
    verif::trace::flush();
    rt.shutdown_timeout(Duration::from_millis(200));
    0
}
