//! X03_LIFECYCLE driver (VERIF_CMD=lifecycle): one scenario of spec/gen/LifecycleGen on the REAL
//! `KeyKeeper::poll_secure_channel_status`, `Redirector::start`, `ProxyServer::start` (spawned in the order and the way
//! `service::start_service` spawns them; the port and the key keeper's URL are the only things that differ) and the REAL
//! `service::stop_service`.  Nothing of their logic is re-implemented here.
//!
//! VERIF_SCN = {"id", "port", "busy", "errAt", "stopAt": "start"|"failN"|"settled", "gate": bool, "deadline_s"}
//!   busy   the port answers AddrInUse to the first `busy` bind attempts: this process holds its own listening socket on
//!          127.0.0.1:port and drops it when it SEES (bind log, below) that `busy` attempts have failed (>= 6, or errAt > 0:
//!          held until ProxyServer::start has returned)
//!   errAt  the errAt-th attempt gets EACCES (injected by the LD_PRELOAD shim the check builds; 0 = none)
//!   stopAt when stop_service is called: before the tasks are spawned / when N failed binds have been seen (= during the
//!          retry sleep after the N-th) / when the listener is RUNNING and reported (or has returned) and
//!          Redirector::start has returned
//!   gate   arm the schedule gate `provision.update_one_state` (hook H5): the listener parks inside
//!          provision::listener_started, i.e. between SetState(RUNNING) and its accept loop; the driver connects a client,
//!          then opens the gate (exhibits the stated non-properties N1 / N2 of Lifecycle.tla)
//! Observation (rows in VERIF_OUT, ndjson, every row stamped with CLOCK_MONOTONIC ns):
//!   poll   one task polls, through the public getters only: provision flags FIRST, then the redirector's bpf object, then
//!          state + message of ProxyServer / Redirector / KeyKeeper, then the http connection count; a row is written when
//!          anything changed (t0 = before the first read, t1 = after the last)
//!   start / ret   a task was spawned / its start() returned;   stop / stop_ret   around service::stop_service
//!   probe  a client connected (or was refused) and, if connected, sent one request: "response" | "closed" | "silent"
//!   audit  what redirector::lookup_audit answers (NullBpfObject when no bpf object is loaded)
//!   blocker / gate_open / timeout / end
//! The bind(2) calls on the port and the opens of the bpf object file (= calls of start_internal) are logged by the shim
//! into VERIF_SHIM_LOG with the same clock; the driver reads that log to synchronise, the check merges it into the trace.
//! In this sandbox the eBPF start always fails (the check puts a non-ELF ebpf_cgroup.o next to the executable: no
//! kernel interaction at all): the five-failures path of Redirector::start is the only one that runs here.
use crate::key_keeper::KeyKeeper;
use crate::proxy::proxy_server::ProxyServer;
use crate::provision::ProvisionFlags;
use crate::redirector::{self, Redirector};
use crate::service;
use crate::shared_state::agent_status_wrapper::AgentStatusModule;
use crate::shared_state::SharedState;
use crate::verif;
use serde_json::{json, Value};
use std::io::{Read, Write};
use std::net::{SocketAddr, TcpListener, TcpStream};
use std::sync::atomic::{AtomicBool, Ordering};
use std::sync::{Arc, Mutex};
use std::time::{Duration, Instant};

fn now_ns() -> u64 {
    let mut ts = libc::timespec { tv_sec: 0, tv_nsec: 0 };
    unsafe { libc::clock_gettime(libc::CLOCK_MONOTONIC, &mut ts) };
    (ts.tv_sec as u64) * 1_000_000_000 + ts.tv_nsec as u64
}

#[derive(Clone)]
struct Rows(Arc<Mutex<Vec<Value>>>);
impl Rows {
    fn push(&self, mut v: Value) {
        if v.get("t").is_none() {
            v["t"] = json!(now_ns());
        }
        self.0.lock().unwrap().push(v);
    }
}

/// the shim's log: (failed server binds, a server bind succeeded); "server" = after VERIF_SHIM_ARMED was set
fn bind_log(path: &str) -> (usize, bool) {
    let mut failed = 0;
    let mut ok = false;
    if let Ok(s) = std::fs::read_to_string(path) {
        for line in s.lines() {
            if let Ok(v) = serde_json::from_str::<Value>(line) {
                if v["e"] == "bind" && v["armed"] == 1 {
                    if v["ret"] == 0 {
                        ok = true;
                    } else {
                        failed += 1;
                    }
                }
            }
        }
    }
    (failed, ok)
}

fn probe(addr: SocketAddr, rows: &Rows, tag: &str, wait: Duration) -> String {
    let t0 = now_ns();
    let (r, detail) = match TcpStream::connect_timeout(&addr, Duration::from_secs(3)) {
        Err(e) => ("refused".to_string(), format!("{:?}", e.kind())),
        Ok(mut s) => {
            let tc = now_ns();
            let _ = s.set_read_timeout(Some(wait));
            let _ = s.write_all(b"GET /x03 HTTP/1.1\r\nHost: 127.0.0.1\r\nConnection: close\r\n\r\n");
            let mut buf = [0u8; 512];
            let mut got = Vec::new();
            let mut res = "closed".to_string();
            loop {
                match s.read(&mut buf) {
                    Ok(0) => break,
                    Ok(n) => {
                        got.extend_from_slice(&buf[..n]);
                        if got.len() >= 12 {
                            break;
                        }
                    }
                    Err(e) if e.kind() == std::io::ErrorKind::WouldBlock || e.kind() == std::io::ErrorKind::TimedOut => {
                        res = "silent".to_string();
                        break;
                    }
                    Err(_) => break,
                }
            }
            if got.starts_with(b"HTTP/") {
                res = "response".to_string();
            }
            (res, format!("connected_ns={} {}", tc, String::from_utf8_lossy(&got[..got.len().min(16)])))
        }
    };
    rows.push(json!({"e": "probe", "tag": tag, "t0": t0, "t1": now_ns(), "t": now_ns(), "r": r, "detail": detail}));
    r
}

fn state_name(s: &proxy_agent_shared::proxy_agent_aggregate_status::ModuleState) -> String {
    format!("{:?}", s)
}

async fn poll_once(shared: &SharedState) -> Value {
    let t0 = now_ns();
    let flags = shared.get_provision_shared_state().get_state().await.unwrap_or(ProvisionFlags::NONE);
    let bpf = matches!(shared.get_redirector_shared_state().get_bpf_object().await, Ok(Some(_)));
    let st = shared.get_agent_status_shared_state();
    let ps = st.get_module_status(AgentStatusModule::ProxyServer).await;
    let rd = st.get_module_status(AgentStatusModule::Redirector).await;
    let kk = st.get_module_status(AgentStatusModule::KeyKeeper).await;
    let http = st.get_connection_count().await.unwrap_or(0) as u64;
    let cut = |m: &str| m.chars().take(300).collect::<String>();
    json!({"e": "poll", "t0": t0,
           "lis": flags.contains(ProvisionFlags::LISTENER_READY), "red": flags.contains(ProvisionFlags::REDIRECTOR_READY),
           "key": flags.contains(ProvisionFlags::KEY_LATCH_READY), "bpf": bpf,
           "ps": state_name(&ps.status), "psm": cut(&ps.message),
           "rd": state_name(&rd.status), "rdm": cut(&rd.message),
           "kk": state_name(&kk.status), "kkm": cut(&kk.message),
           "http": http})
}

fn setup_loggers() {
    // file loggers as service::start_service sets them up (setup_loggers is private there)
    use proxy_agent_shared::logger::rolling_logger::RollingLogger;
    let log_folder = crate::common::config::get_logs_dir();
    proxy_agent_shared::logger::logger_manager::set_logger_level(crate::common::config::get_file_log_level());
    let mut loggers = std::collections::HashMap::new();
    loggers.insert(
        crate::common::logger::AGENT_LOGGER_KEY.to_string(),
        RollingLogger::create_new(log_folder.clone(), "ProxyAgent.log".to_string(), 10 * 1024 * 1024, 5),
    );
    loggers.insert(
        crate::proxy::proxy_connection::ConnectionLogger::CONNECTION_LOGGER_KEY.to_string(),
        RollingLogger::create_new(log_folder, "ProxyAgent.Connection.log".to_string(), 10 * 1024 * 1024, 5),
    );
    proxy_agent_shared::logger::logger_manager::set_loggers(loggers, crate::common::logger::AGENT_LOGGER_KEY.to_string());
}

const GATE: &str = "provision.update_one_state";

pub fn main() -> i32 {
    let out_path = super::env("VERIF_OUT");
    let scn: Value = match serde_json::from_str(&super::env("VERIF_SCN")) {
        Ok(v) => v,
        Err(e) => {
            eprintln!("lifecycle: bad VERIF_SCN: {}", e);
            return 2;
        }
    };
    let shim_log = std::env::var("VERIF_SHIM_LOG").unwrap_or_default();
    let port = scn["port"].as_u64().unwrap_or(0) as u16;
    let busy = scn["busy"].as_u64().unwrap_or(0) as usize;
    let err_at = scn["errAt"].as_u64().unwrap_or(0) as usize;
    let stop_at = scn["stopAt"].as_str().unwrap_or("settled").to_string();
    let gate = scn["gate"].as_bool().unwrap_or(false);
    let deadline = Duration::from_secs(scn["deadline_s"].as_u64().unwrap_or(40));
    let fail_n: usize = stop_at.strip_prefix("fail").and_then(|s| s.parse().ok()).unwrap_or(0);
    let addr: SocketAddr = format!("127.0.0.1:{}", port).parse().unwrap();
    let rows = Rows(Arc::new(Mutex::new(Vec::new())));
    rows.push(json!({"e": "scn", "scn": scn.clone(), "pid": std::process::id()}));

    // the port is busy: our own listening socket (std sets SO_REUSEADDR like tokio does; a listening socket still wins)
    let mut blocker: Option<TcpListener> = None;
    if busy > 0 {
        match TcpListener::bind(addr) {
            Ok(l) => {
                blocker = Some(l);
                rows.push(json!({"e": "blocker", "on": true}));
            }
            Err(e) => {
                eprintln!("lifecycle: cannot occupy {}: {}", addr, e);
                return 2;
            }
        }
    }
    // from here on every bind on the port is the server's (the shim counts and logs them as "armed")
    std::env::set_var("VERIF_SHIM_ARMED", "1");
    if shim_log.is_empty() || !std::path::Path::new(&shim_log).exists() {
        eprintln!("lifecycle: the bind shim is not in effect (VERIF_SHIM_LOG)");
        return 2;
    }

    let rt = match tokio::runtime::Builder::new_multi_thread().worker_threads(4).enable_all().build() {
        Ok(r) => r,
        Err(e) => {
            eprintln!("lifecycle: runtime: {}", e);
            return 2;
        }
    };
    setup_loggers();
    let rows2 = rows.clone();
    let code = rt.block_on(async move {
        let rows = rows2;
        let shared = SharedState::start_all();
        let stop_poll = Arc::new(AtomicBool::new(false));
        let last: Arc<Mutex<Value>> = Arc::new(Mutex::new(json!({})));
        let poller = {
            let (shared, rows, stop_poll, last) = (shared.clone(), rows.clone(), stop_poll.clone(), last.clone());
            tokio::spawn(async move {
                let mut prev = Value::Null;
                let mut n: u64 = 0;
                loop {
                    let stopping = stop_poll.load(Ordering::SeqCst);
                    let mut row = poll_once(&shared).await;
                    n += 1;
                    let mut cmp = row.clone();
                    cmp["t0"] = Value::Null;
                    if cmp != prev || stopping {
                        row["t1"] = json!(now_ns());
                        row["t"] = row["t1"].clone();
                        row["n"] = json!(n);
                        *last.lock().unwrap() = row.clone();
                        rows.push(row);
                        prev = cmp;
                    }
                    if stopping {
                        break;
                    }
                    tokio::time::sleep(Duration::from_millis(1)).await;
                }
            })
        };
        let seen = |k: &str| -> String { last.lock().unwrap()[k].as_str().unwrap_or("").to_string() };
        let seen_b = |k: &str| -> bool { last.lock().unwrap()[k].as_bool().unwrap_or(false) };
        let returned: Arc<Mutex<Vec<String>>> = Arc::new(Mutex::new(Vec::new()));
        let has_ret = |m: &str| returned.lock().unwrap().iter().any(|x| x == m);
        let t_begin = Instant::now();
        let mut stopped = false;
        let mut timed_out: Option<String> = None;

        let do_stop = |rows: &Rows, shared: &SharedState| {
            rows.push(json!({"e": "stop"}));
            service::stop_service(shared.clone());
            rows.push(json!({"e": "stop_ret"}));
        };

        if gate {
            verif::sched::arm(GATE, 0);
        }
        if stop_at == "start" {
            do_stop(&rows, &shared);
            stopped = true;
        }
        // ---- the three spawns of service::start_service (same order; port / url / interval are parameters there too)
        {
            let kk_url: hyper::Uri = format!("http://127.0.0.1:{}/", port + 1).parse().unwrap();
            let key_keeper = KeyKeeper::new(
                kk_url,
                crate::common::config::get_keys_dir(),
                crate::common::config::get_logs_dir(),
                crate::common::config::get_poll_key_status_duration(),
                &shared,
            );
            let (rows_k, ret_k) = (rows.clone(), returned.clone());
            rows.push(json!({"e": "start", "m": "KeyKeeper"}));
            tokio::spawn(async move {
                key_keeper.poll_secure_channel_status().await;
                rows_k.push(json!({"e": "ret", "m": "KeyKeeper"}));
                ret_k.lock().unwrap().push("KeyKeeper".to_string());
            });
            let redirector = Redirector::new(port, &shared);
            let (rows_r, ret_r) = (rows.clone(), returned.clone());
            rows.push(json!({"e": "start", "m": "Redirector"}));
            tokio::spawn(async move {
                redirector.start().await;
                rows_r.push(json!({"e": "ret", "m": "Redirector"}));
                ret_r.lock().unwrap().push("Redirector".to_string());
            });
            let proxy_server = ProxyServer::new(port, &shared);
            let (rows_p, ret_p) = (rows.clone(), returned.clone());
            rows.push(json!({"e": "start", "m": "ProxyServer"}));
            tokio::spawn(async move {
                proxy_server.start().await;
                rows_p.push(json!({"e": "ret", "m": "ProxyServer"}));
                ret_p.lock().unwrap().push("ProxyServer".to_string());
            });
        }

        // ---- the controller: everything below waits on OBSERVED state, never on a clock
        let mut gate_open = !gate;
        let mut probed_running = false;
        let release_at = if busy == 0 || busy >= 6 || (err_at > 0 && err_at <= busy + 1) { usize::MAX } else { busy };
        loop {
            if t_begin.elapsed() > deadline {
                timed_out = Some("controller".to_string());
                break;
            }
            let (failed, _ok) = bind_log(&shim_log);
            // stop during the retry sleep that follows the N-th failed bind (before the port is given back)
            if !stopped && fail_n > 0 && failed >= fail_n {
                do_stop(&rows, &shared);
                stopped = true;
            }
            if blocker.is_some() && failed >= release_at {
                blocker = None;
                rows.push(json!({"e": "blocker", "on": false, "failed_seen": failed}));
            }
            // the listener is parked between SetState(RUNNING) and its accept loop: a client connects, then the gate opens
            if !gate_open && seen("ps") == "RUNNING" {
                let (rows_c, a) = (rows.clone(), addr);
                let h = std::thread::spawn(move || probe(a, &rows_c, "at_gate", Duration::from_secs(6)));
                // the client's connection must be in the backlog before the listener goes on
                let t = Instant::now();
                while t.elapsed() < Duration::from_secs(3) {
                    let done = rows.0.lock().unwrap().iter().any(|r| r["e"] == "probe");
                    if done {
                        break;
                    }
                    if let Ok(s) = std::fs::read_to_string("/proc/net/tcp") {
                        let want = format!(":{:04X} ", port);
                        // an ESTABLISHED (01) socket whose REMOTE end is the port: the client side of the handshake
                        if s.lines().any(|l| {
                            let f: Vec<&str> = l.split_whitespace().collect();
                            f.len() > 3 && format!("{} ", f[2]).ends_with(&want) && f[3] == "01"
                        }) {
                            break;
                        }
                    }
                    tokio::time::sleep(Duration::from_millis(2)).await;
                }
                rows.push(json!({"e": "gate_open"}));
                verif::sched::disarm(GATE);
                gate_open = true;
                let r = tokio::task::spawn_blocking(move || h.join().unwrap_or_default()).await.unwrap_or_default();
                rows.push(json!({"e": "gate_probe_result", "r": r}));
            }
            if gate && !gate_open && has_ret("ProxyServer") {
                // the listener never came up (bind failure): nothing to hold
                verif::sched::disarm(GATE);
                gate_open = true;
            }
            let ps_up = seen("ps") == "RUNNING" && seen_b("lis");
            if ps_up && !stopped && !probed_running {
                // anti-vacuity: a RUNNING and reported listener serves
                let (rows_c, a) = (rows.clone(), addr);
                let _ = tokio::task::spawn_blocking(move || probe(a, &rows_c, "running", Duration::from_secs(10))).await;
                probed_running = true;
            }
            let settled = (ps_up || has_ret("ProxyServer")) && has_ret("Redirector");
            if !stopped && stop_at == "settled" && settled {
                do_stop(&rows, &shared);
                stopped = true;
            }
            if stopped && has_ret("ProxyServer") && has_ret("Redirector") && has_ret("KeyKeeper") {
                break;
            }
            tokio::time::sleep(Duration::from_millis(2)).await;
        }
        drop(blocker.take());
        if gate {
            verif::sched::disarm(GATE);
        }
        // close() is a spawned task: wait until its effects are visible, then the final observations
        let t = Instant::now();
        while timed_out.is_none() && !(seen("rd") == "STOPPED" && !seen_b("bpf")) {
            if t.elapsed() > Duration::from_secs(15) {
                timed_out = Some("close".to_string());
                break;
            }
            tokio::time::sleep(Duration::from_millis(2)).await;
        }
        if let Some(w) = &timed_out {
            rows.push(json!({"e": "timeout", "what": w}));
        }
        {
            let (rows_c, a) = (rows.clone(), addr);
            let _ = tokio::task::spawn_blocking(move || probe(a, &rows_c, "final", Duration::from_secs(3))).await;
        }
        let t0 = now_ns();
        let audit = match redirector::lookup_audit(port, &shared.get_redirector_shared_state()).await {
            Ok(_) => "ok".to_string(),
            Err(e) => e.to_string(),
        };
        let t0r = now_ns();
        let remove = match redirector::remove_audit(port, &shared.get_redirector_shared_state()).await {
            Ok(_) => "ok".to_string(),
            Err(e) => e.to_string(),
        };
        rows.push(json!({"e": "audit", "t0": t0, "lookup": audit, "remove": remove, "t0r": t0r}));
        tokio::time::sleep(Duration::from_millis(30)).await;
        stop_poll.store(true, Ordering::SeqCst);
        let _ = poller.await;
        rows.push(json!({"e": "end", "timed_out": timed_out.is_some()}));
        0
    });
    let mut v = rows.0.lock().unwrap().clone();
    v.sort_by_key(|r| r["t"].as_u64().unwrap_or(0));
    let mut out = match std::fs::File::create(&out_path) {
        Ok(f) => f,
        Err(e) => {
            eprintln!("lifecycle: cannot create {}: {}", out_path, e);
            return 2;
        }
    };
    for r in v.iter() {
        if writeln!(out, "{}", r).is_err() {
            return 2;
        }
    }
    // the runtime still holds background tasks of the agent (actors, the key keeper's client): leave without joining them
    let _ = out.flush();
    std::mem::forget(rt);
    code
}
