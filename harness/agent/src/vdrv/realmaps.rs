//! Real-kernel-map driver (VERIF_CMD=realmaps): the user-space half of the redirector against REAL bpf maps.
//!
//! The eBPF object of the tree under test (compiled for the bpf target by checks/realmaps.py) is loaded with the
//! agent's own `BpfObject::from_ebpf_file` and installed in a `RedirectorSharedState` the way
//! `Redirector::start_internal` does (initial entries with `update_policy_elem_bpf_map`, then `update_bpf_object` +
//! `set_local_port`).  NOTHING is attached: no program is loaded into the cgroup root or a kprobe, nothing is
//! pinned; the maps die with this process.  The verification stand-in for the audit map is NOT enabled here
//! (`verif::audit::enable()` is never called), so `redirector::lookup_audit` / `remove_audit` take the real-map path.
//!
//! VERIF_SCRIPT: `{"obj": path, "local_port": n, "loggers": bool, "runs": [{"id": n, "start": [ep..], "steps": [..]}]}`
//! every run gets a fresh BpfObject (= an agent start).  Steps:
//!   {"op":"policy","ep":"ws|imds|ga","redirect":b,"dump":b}   the REAL async redirector::update_*_redirect_policy
//!                                                     ("dump": one row with the instruction and policy_map right after it)
//!   {"op":"dump_policy"}                              raw bpf(2) walk of policy_map (keys/values decoded with socket.h's layout)
//!   {"op":"put_audit","sport":n,"record":{logon,pid,admin,dip,dport}}   raw BPF_MAP_UPDATE_ELEM, what the kernel hook does
//!   {"op":"lookup","sport":n} / {"op":"remove","sport":n}               the REAL redirector::lookup_audit / remove_audit
//!   {"op":"probe","sport":n,"sweep":b}  raw BPF_MAP_LOOKUP_ELEM on audit_map (sweep: delete what was found afterwards);  {"op":"raw_delete","sport":n};  {"op":"dump_audit"}
//!   {"op":"parallel","main":[steps],"background":[[steps],..]}  every branch on its own OS thread; the background
//!       branches repeat their steps until the main branch is through.
//! VERIF_OUT: ndjson rows (one per reporting step, `seq` = global order).
use crate::common::constants;
use crate::redirector::{self, BpfObject};
use crate::shared_state::redirector_wrapper::RedirectorSharedState;
use crate::verif;
use serde_json::{json, Value};
use std::os::fd::{AsFd, AsRawFd};
use std::path::PathBuf;
use std::sync::atomic::{AtomicBool, AtomicU64, Ordering};
use std::sync::{Arc, Mutex};

use super::env;

// ---- output: a buffered ndjson sink of this driver (the hooks' unbuffered trace sink is left without a file) -------
struct Sink {
    seq: u64,
    out: Option<std::io::BufWriter<std::fs::File>>,
}
static SINK: Mutex<Sink> = Mutex::new(Sink { seq: 0, out: None });

fn emit(mut row: Value) {
    use std::io::Write;
    let mut s = SINK.lock().unwrap();
    s.seq += 1;
    let seq = s.seq;
    row["seq"] = json!(seq);
    if let Some(f) = s.out.as_mut() {
        let _ = writeln!(f, "{}", row);
    }
}

fn flush() {
    use std::io::Write;
    if let Some(f) = SINK.lock().unwrap().out.as_mut() {
        let _ = f.flush();
    }
}

// ---- raw bpf(2): what the kernel side / an independent observer does; no aya, no BpfObject mutex ----------------
const BPF_MAP_LOOKUP_ELEM: libc::c_long = 1;
const BPF_MAP_UPDATE_ELEM: libc::c_long = 2;
const BPF_MAP_DELETE_ELEM: libc::c_long = 3;
const BPF_MAP_GET_NEXT_KEY: libc::c_long = 4;

#[repr(C)]
struct MapElemAttr {
    map_fd: u32,
    _pad: u32,
    key: u64,
    value_or_next: u64,
    flags: u64,
}

fn bpf_elem(cmd: libc::c_long, fd: i32, key: *const u32, val: *mut u32, flags: u64) -> Result<(), i32> {
    let attr = MapElemAttr { map_fd: fd as u32, _pad: 0, key: key as u64, value_or_next: val as u64, flags };
    let r = unsafe { libc::syscall(libc::SYS_bpf, cmd, &attr as *const MapElemAttr, std::mem::size_of::<MapElemAttr>()) };
    if r < 0 {
        Err(std::io::Error::last_os_error().raw_os_error().unwrap_or(0))
    } else {
        Ok(())
    }
}

fn raw_lookup<const K: usize, const V: usize>(fd: i32, key: &[u32; K]) -> Option<[u32; V]> {
    let mut v = [0u32; V];
    bpf_elem(BPF_MAP_LOOKUP_ELEM, fd, key.as_ptr(), v.as_mut_ptr(), 0).ok().map(|_| v)
}

fn raw_entries<const K: usize, const V: usize>(fd: i32) -> Vec<([u32; K], [u32; V])> {
    let mut out = Vec::new();
    let mut keys: Vec<[u32; K]> = Vec::new();
    let mut next = [0u32; K];
    let mut have: Option<[u32; K]> = None;
    loop {
        let kp = match &have {
            Some(k) => k.as_ptr(),
            None => std::ptr::null(),
        };
        if bpf_elem(BPF_MAP_GET_NEXT_KEY, fd, kp, next.as_mut_ptr(), 0).is_err() {
            break;
        }
        keys.push(next);
        have = Some(next);
        if keys.len() > 4096 {
            break;
        }
    }
    for k in keys {
        if let Some(v) = raw_lookup::<K, V>(fd, &k) {
            out.push((k, v));
        }
    }
    out
}

/// a private duplicate of the map's descriptor (the BpfObject keeps its own)
fn map_fd(bpf: &BpfObject, name: &str) -> Result<i32, String> {
    use aya::maps::Map;
    let map = bpf.get_bpf().map(name).ok_or_else(|| format!("the loaded object has no map '{}'", name))?;
    let data = match map {
        Map::HashMap(d) | Map::LruHashMap(d) => d,
        _ => return Err(format!("map '{}' is not a (LRU) hash map", name)),
    };
    let fd = unsafe { libc::fcntl(data.fd().as_fd().as_raw_fd(), libc::F_DUPFD_CLOEXEC, 3) };
    if fd < 0 {
        return Err(format!("dup of the descriptor of '{}' failed", name));
    }
    Ok(fd)
}

fn ip_text(raw: u32) -> String {
    let b = raw.to_ne_bytes(); // the u32 holds the address in network byte order: memory order is the dotted order
    format!("{}.{}.{}.{}", b[0], b[1], b[2], b[3])
}

// ---- one loaded object -------------------------------------------------------------------------------------------
struct Inst {
    state: RedirectorSharedState,
    policy_fd: i32,
    audit_fd: i32,
    run: u64,
}

impl Drop for Inst {
    fn drop(&mut self) {
        unsafe {
            libc::close(self.policy_fd);
            libc::close(self.audit_fd);
        }
    }
}

fn endpoint(ep: &str) -> Option<(&'static str, u32, u16)> {
    Some(match ep {
        "ws" => ("WireServer endpoints", constants::WIRE_SERVER_IP_NETWORK_BYTE_ORDER, constants::WIRE_SERVER_PORT),
        "imds" => ("IMDS endpoints", constants::IMDS_IP_NETWORK_BYTE_ORDER, constants::IMDS_PORT),
        "ga" => ("Host GAPlugin endpoints", constants::GA_PLUGIN_IP_NETWORK_BYTE_ORDER, constants::GA_PLUGIN_PORT),
        _ => return None,
    })
}

async fn start(obj: &PathBuf, local_port: u16, start_eps: &[String], run: u64) -> Result<Inst, String> {
    let mut bpf = BpfObject::from_ebpf_file(obj).map_err(|e| format!("BpfObject::from_ebpf_file: {}", e))?;
    for ep in start_eps {
        let (name, ip, port) = endpoint(ep).ok_or_else(|| format!("unknown endpoint {}", ep))?;
        bpf.update_policy_elem_bpf_map(name, local_port, ip, port)
            .map_err(|e| format!("update_policy_elem_bpf_map({}): {}", ep, e))?;
    }
    let policy_fd = map_fd(&bpf, "policy_map")?;
    let audit_fd = map_fd(&bpf, "audit_map")?;
    let state = RedirectorSharedState::start_new();
    state.update_bpf_object(Arc::new(Mutex::new(bpf))).await.map_err(|e| format!("update_bpf_object: {}", e))?;
    state.set_local_port(local_port).await.map_err(|e| format!("set_local_port: {}", e))?;
    Ok(Inst { state, policy_fd, audit_fd, run })
}

fn audit_key(sport: u64) -> [u32; 2] {
    [6, sport as u32] // sock_addr_audit_key { protocol = IPPROTO_TCP, source_port (host order) }
}

fn dump_policy(inst: &Inst) -> Value {
    let mut rows = Vec::new();
    for (k, v) in raw_entries::<6, 6>(inst.policy_fd) {
        // destination_entry { ip[4], port: network order in the low 16 bits, protocol }
        let mut row = json!({"ip": ip_text(k[0]), "port": u16::from_be(k[4] as u16), "proto": k[5],
                             "to_ip": ip_text(v[0]), "to_port": u16::from_be(v[4] as u16)});
        // bits outside (ipv4, 16-bit port): such a key is a different key for the kernel program
        if k[1] | k[2] | k[3] | (k[4] >> 16) != 0 {
            row["key_extra"] = json!([k[1], k[2], k[3], k[4] >> 16]);
        }
        if v[1] | v[2] | v[3] | (v[4] >> 16) != 0 {
            row["value_extra"] = json!([v[1], v[2], v[3], v[4] >> 16]);
        }
        rows.push(row);
    }
    rows.sort_by_key(|r| r.to_string());
    Value::Array(rows)
}

fn dump_audit(inst: &Inst) -> Value {
    let mut rows = Vec::new();
    for (k, v) in raw_entries::<2, 5>(inst.audit_fd) {
        rows.push(json!({"proto": k[0], "sport": k[1], "logon": v[0], "pid": v[1], "admin": v[2], "dip": v[3], "dport": v[4]}));
    }
    rows.sort_by_key(|r| r["sport"].as_u64());
    Value::Array(rows)
}

async fn step(inst: &Inst, st: &Value, br: i64) {
    let run = inst.run;
    let op = st["op"].as_str().unwrap_or("");
    match op {
        "policy" => {
            let ep = st["ep"].as_str().unwrap_or("");
            let on = st["redirect"].as_bool().unwrap_or(false);
            match ep {
                "ws" => redirector::update_wire_server_redirect_policy(on, inst.state.clone()).await,
                "imds" => redirector::update_imds_redirect_policy(on, inst.state.clone()).await,
                "ga" => redirector::update_hostga_redirect_policy(on, inst.state.clone()).await,
                _ => panic!("harness: unknown endpoint {}", ep),
            }
            // "dump": the instruction and the map as it is right after the call returned, in one row
            if st["dump"].as_bool().unwrap_or(false) {
                emit(json!({"e": "instr", "run": run, "ep": ep, "on": on, "entries": dump_policy(inst)}));
            }
        }
        "dump_policy" => {
            emit(json!({"e": "policy_map", "run": run, "br": br, "entries": dump_policy(inst)}));
        }
        "put_audit" => {
            let r = &st["record"];
            let val: [u32; 5] = [
                r["logon"].as_u64().unwrap_or(0) as u32,
                r["pid"].as_u64().unwrap_or(0) as u32,
                r["admin"].as_u64().unwrap_or(0) as u32,
                r["dip"].as_u64().unwrap_or(0) as u32,
                r["dport"].as_u64().unwrap_or(0) as u32,
            ];
            let key = audit_key(st["sport"].as_u64().unwrap_or(0));
            let mut v = val;
            let res = bpf_elem(BPF_MAP_UPDATE_ELEM, inst.audit_fd, key.as_ptr(), v.as_mut_ptr(), 0);
            emit(json!({"e": "put_audit", "run": run, "br": br, "sport": key[1], "ok": res.is_ok(),
                "errno": res.err().unwrap_or(0), "record": r}));
        }
        "lookup" => {
            let sport = st["sport"].as_u64().unwrap_or(0) as u16;
            match redirector::lookup_audit(sport, &inst.state).await {
                Ok(a) => emit(json!({"e": "lookup", "run": run, "br": br, "sport": sport, "found": true,
                    "rec": {"logon": a.logon_id, "pid": a.process_id, "admin": a.is_admin, "dip": a.destination_ipv4,
                            "dport": a.destination_port}})),
                Err(e) => emit(json!({"e": "lookup", "run": run, "br": br, "sport": sport, "found": false,
                    "err": e.to_string()})),
            };
        }
        "remove" => {
            let sport = st["sport"].as_u64().unwrap_or(0) as u16;
            let r = redirector::remove_audit(sport, &inst.state).await;
            emit(json!({"e": "remove", "run": run, "br": br, "sport": sport, "ok": r.is_ok(),
                "err": r.err().map(|e| e.to_string()).unwrap_or_default()}));
        }
        "probe" => {
            let key = audit_key(st["sport"].as_u64().unwrap_or(0));
            let v = raw_lookup::<2, 5>(inst.audit_fd, &key);
            emit(json!({"e": "probe", "run": run, "br": br, "sport": key[1], "present": v.is_some(),
                "raw": v.map(|x| x.to_vec())}));
            // "sweep": the connection on the port is over; a record found is reported above, then removed by the harness
            if v.is_some() && st["sweep"].as_bool().unwrap_or(false) {
                let _ = bpf_elem(BPF_MAP_DELETE_ELEM, inst.audit_fd, key.as_ptr(), std::ptr::null_mut(), 0);
            }
        }
        "raw_delete" => {
            let key = audit_key(st["sport"].as_u64().unwrap_or(0));
            let res = bpf_elem(BPF_MAP_DELETE_ELEM, inst.audit_fd, key.as_ptr(), std::ptr::null_mut(), 0);
            emit(json!({"e": "raw_delete", "run": run, "br": br, "sport": key[1], "ok": res.is_ok()}));
        }
        "dump_audit" => {
            emit(json!({"e": "audit_map", "run": run, "br": br, "entries": dump_audit(inst)}));
        }
        "sleep_us" => {
            std::thread::sleep(std::time::Duration::from_micros(st["us"].as_u64().unwrap_or(0)));
        }
        other => panic!("harness: unknown step '{}'", other),
    }
}

fn parallel(rt: &tokio::runtime::Runtime, inst: &Arc<Inst>, st: &Value) {
    let done = Arc::new(AtomicBool::new(false));
    let started = Arc::new(AtomicU64::new(0));
    let mut handles = Vec::new();
    let background = st["background"].as_array().cloned().unwrap_or_default();
    for (i, branch) in background.iter().enumerate() {
        let steps = branch.as_array().cloned().unwrap_or_default();
        let (inst, done, started, h) = (inst.clone(), done.clone(), started.clone(), rt.handle().clone());
        handles.push(
            std::thread::Builder::new()
                .name(format!("bg{}", i + 1))
                .spawn(move || {
                    let mut n = 0u64;
                    started.fetch_add(1, Ordering::SeqCst);
                    while !done.load(Ordering::SeqCst) {
                        for s in &steps {
                            h.block_on(step(&inst, s, (i + 1) as i64));
                        }
                        n += 1;
                    }
                    n
                })
                .expect("thread"),
        );
    }
    while started.load(Ordering::SeqCst) < background.len() as u64 {
        std::thread::yield_now();
    }
    let main = st["main"].as_array().cloned().unwrap_or_default();
    for s in &main {
        rt.block_on(step(inst, s, 0));
    }
    done.store(true, Ordering::SeqCst);
    let its: Vec<u64> = handles.into_iter().map(|h| h.join().unwrap_or(0)).collect();
    emit(json!({"e": "parallel_done", "run": inst.run, "bg_iterations": its}));
}

fn setup_loggers() {
    use proxy_agent_shared::logger::rolling_logger::RollingLogger;
    let log_folder = crate::common::config::get_logs_dir();
    proxy_agent_shared::logger::logger_manager::set_logger_level(crate::common::config::get_file_log_level());
    let mut loggers = std::collections::HashMap::new();
    loggers.insert(
        crate::common::logger::AGENT_LOGGER_KEY.to_string(),
        RollingLogger::create_new(log_folder.clone(), "ProxyAgent.log".to_string(), 10 * 1024 * 1024, 5),
    );
    proxy_agent_shared::logger::logger_manager::set_loggers(loggers, crate::common::logger::AGENT_LOGGER_KEY.to_string());
}

/// Start-up mode (`"mode":"attach"`): the REAL start-up of the redirector, to be watched from outside with strace.
/// `{"mode":"attach","obj":path,"cgroup":dir,"local_port":n,"direct_attempts":k}`:
///   1. the REAL `Redirector::new(port, &SharedState).start()` -- the whole retry loop of start_impl / start_internal:
///      every attempt loads a fresh object (from the configured path: the check puts the tree's object next to the
///      executable), fills the maps and calls `attach_bpf_prog`; then `redirector::close` (drops the object);
///   2. `direct_attempts` times: `BpfObject::from_ebpf_file(obj)` + the REAL `Redirector::attach_bpf_prog(&mut bpf)`
///      on the untouched (empty policy) object, which is dropped at once.
/// Safety: the check runs this in a private mount namespace in which the only cgroup2 directory is a private, EMPTY
/// cgroup; the driver refuses to go on unless the agent's own path resolution (`get_cgroup2_mount_path`, and the
/// configured fallback) names exactly that directory.  Links die with the object / the process; nothing is pinned.
fn attach_main(script: &Value) -> i32 {
    use crate::shared_state::SharedState;
    let want = PathBuf::from(script["cgroup"].as_str().expect("cgroup"));
    let got = proxy_agent_shared::linux::get_cgroup2_mount_path();
    let fallback = crate::common::config::get_cgroup_root();
    if got.as_ref().ok() != Some(&want) || fallback != want {
        emit(json!({"e": "load_error", "run": 0, "what": format!(
            "refusing to attach: the agent would pick {:?} (fallback {:?}), the private cgroup is {:?}", got, fallback, want)}));
        flush();
        return 3;
    }
    let rt = tokio::runtime::Builder::new_multi_thread().worker_threads(2).enable_all().build().unwrap();
    let local_port = script["local_port"].as_u64().unwrap_or(3080) as u16;
    let obj = PathBuf::from(script["obj"].as_str().expect("obj"));
    rt.block_on(async {
        let shared = SharedState::start_all();
        let redirector = redirector::Redirector::new(local_port, &shared);
        emit(json!({"e": "start_begin"}));
        redirector.start().await;
        let loaded = matches!(shared.get_redirector_shared_state().get_bpf_object().await, Ok(Some(_)));
        emit(json!({"e": "start_end", "object_installed": loaded}));
        redirector::close(shared.get_redirector_shared_state(), shared.get_agent_status_shared_state()).await;
        emit(json!({"e": "closed"}));
        for k in 0..script["direct_attempts"].as_u64().unwrap_or(0) {
            match BpfObject::from_ebpf_file(&obj) {
                Ok(mut bpf) => {
                    let r = redirector.attach_bpf_prog(&mut bpf);
                    drop(bpf);
                    emit(json!({"e": "direct_attempt", "k": k + 1, "ok": r.is_ok(),
                        "err": r.err().map(|e| e.to_string()).unwrap_or_default()}));
                }
                Err(e) => {
                    emit(json!({"e": "load_error", "run": 0, "what": format!("BpfObject::from_ebpf_file: {}", e)}));
                }
            }
        }
    });
    emit(json!({"e": "done"}));
    flush();
    0
}

/// Scope mode (`"mode":"scope"`): WHICH cgroup directory the agent would attach cgroup/connect4 to in this mount
/// namespace -- the REAL `get_cgroup2_mount_path()`, falling back to the configured `cgroupRoot` on an error exactly as
/// `Redirector::attach_bpf_prog` does.  Nothing is loaded or attached (the kprobe attach in front of the cgroup attach
/// cannot succeed in this kernel, so `attach_bpf_prog` itself never gets as far as resolving the path).
fn scope_main() -> i32 {
    let got = proxy_agent_shared::linux::get_cgroup2_mount_path();
    let fallback = crate::common::config::get_cgroup_root();
    let path = match &got {
        Ok(p) => p.clone(),
        Err(_) => fallback,
    };
    emit(json!({"e": "resolved", "path": path.display().to_string(), "from_table": got.is_ok(),
        "err": got.err().map(|e| e.to_string()).unwrap_or_default()}));
    emit(json!({"e": "done"}));
    flush();
    0
}

pub fn main() -> i32 {
    let script: Value = serde_json::from_str(&std::fs::read_to_string(env("VERIF_SCRIPT")).expect("script")).expect("script json");
    SINK.lock().unwrap().out = Some(std::io::BufWriter::new(std::fs::File::create(env("VERIF_OUT")).expect("VERIF_OUT")));
    // verif::audit::enable() is deliberately NOT called: lookup_audit / remove_audit must reach the kernel map
    assert!(!verif::audit::enabled(), "the audit stand-in must stay disabled in this driver");
    if script["loggers"].as_bool().unwrap_or(true) {
        setup_loggers();
    }
    if script["mode"] == "scope" {
        return scope_main();
    }
    if script["mode"] == "attach" {
        return attach_main(&script);
    }
    let rt = tokio::runtime::Builder::new_multi_thread().worker_threads(4).enable_all().build().unwrap();
    let obj = PathBuf::from(script["obj"].as_str().expect("obj"));
    let local_port = script["local_port"].as_u64().unwrap_or(3080) as u16;
    for run in script["runs"].as_array().cloned().unwrap_or_default() {
        let id = run["id"].as_u64().unwrap_or(0);
        let eps: Vec<String> = run["start"].as_array().cloned().unwrap_or_default().iter()
            .map(|v| v.as_str().unwrap_or("").to_string()).collect();
        let inst = match rt.block_on(start(&obj, local_port, &eps, id)) {
            Ok(i) => Arc::new(i),
            Err(e) => {
                emit(json!({"e": "load_error", "run": id, "what": e}));
                eprintln!("harness: run {}: {}", id, e);
                flush();
                return 3;
            }
        };
        emit(json!({"e": "start", "run": id, "eps": eps, "lport": local_port, "lip": constants::PROXY_AGENT_IP,
            "entries": dump_policy(&inst)}));
        for st in run["steps"].as_array().cloned().unwrap_or_default() {
            if st["op"] == "parallel" {
                parallel(&rt, &inst, &st);
            } else {
                rt.block_on(step(&inst, &st, 0));
            }
        }
        // drop the object: the shared state forgets it, the descriptors close, the kernel frees the maps
        let _ = rt.block_on(inst.state.clear_bpf_object());
    }
    emit(json!({"e": "done"}));
    flush();
    0
}
