//! C19 driver (VERIF_CMD=disk): JSON lines on stdin -> one line `@C19@ <json>` per command on stdout.
//! Operations on the REAL RollingLogger (create_new / write / write_many), the REAL telemetry event logger
//! (event_logger::start spawned once per process on a paused-clock tokio runtime + write_event) and the REAL
//! AuthorizationRulesForLogging::write_all.  Every answer carries the sorted listing of the directory the
//! operation works on (name, size, first bytes of log files, number of events in event files); the Python side
//! (checks/c19.py) owns pre-filling, the reader's removals, process restarts and every comparison.
//!
//! EVENT_QUEUE / SHUT_DOWN of the event logger are process-global statics: `ev_start` is accepted once per
//! process; a restart of the event logger is a restart of this process (done by the Python side).
//! `ev_stop` is the graceful stop: event_logger::stop() and then (virtual) time passes until the task has ended.
//!
//! Fault injection for the rolling logger: the check starts this process in a PRIVATE MOUNT NAMESPACE
//! (`unshare -m --propagation private`); `log_pin` bind-mounts a log file onto itself, which makes
//! rename()/unlink() of that name fail with EBUSY while open-for-append and stat keep working, i.e. exactly
//! "archive_file's fs::rename fails"; `log_unpin` detaches the mount.  Nothing outlives the namespace.
//!
//! Fault injection for the event logger: `ev_tick` / `ev_stop` with "fail": true let the (virtual) time pass while
//! RLIMIT_FSIZE is 0 and SIGXFSZ is ignored: File::create still works, every write to a regular file fails with
//! EFBIG -- the path a full disk takes through json_write_to_file.  The limit is restored before the answer is
//! written; only the event logger task runs in between (current-thread runtime).
//! `log_write` with "noroom": true does the same around one RollingLogger write: "no room on the log file system"
//! -- renaming, removing and creating (empty) files work, anything that has to put data into a file fails.
use crate::key_keeper::key::AuthorizationItem;
use crate::proxy::authorization_rules::{
    AuthorizationRulesForLogging, ComputedAuthorizationItem, ComputedAuthorizationRules,
};
use proxy_agent_shared::logger::rolling_logger::RollingLogger;
use proxy_agent_shared::logger::LoggerLevel;
use proxy_agent_shared::telemetry::event_logger;
use serde_json::{json, Value};
use std::collections::HashMap;
use std::io::{BufRead, Read, Write};
use std::panic::{catch_unwind, AssertUnwindSafe};
use std::path::{Path, PathBuf};
use std::time::Duration;

fn listing(dir: &Path) -> Value {
    let mut out: Vec<Value> = Vec::new();
    let rd = match std::fs::read_dir(dir) {
        Ok(r) => r,
        Err(_) => return json!([]),
    };
    let mut entries: Vec<PathBuf> = rd.filter_map(|e| e.ok().map(|e| e.path())).collect();
    entries.sort();
    for p in entries {
        let md = match std::fs::metadata(&p) {
            Ok(m) => m,
            Err(_) => continue,
        };
        let name = p.file_name().map(|n| n.to_string_lossy().to_string()).unwrap_or_default();
        if md.is_dir() {
            out.push(json!({"name": name, "dir": true}));
            continue;
        }
        let mut entry = json!({"name": name, "size": md.len()});
        if name.ends_with(".log") {
            // the first bytes identify the write that created the file (token #...# put there by the check)
            let mut head = vec![0u8; 96];
            let n = std::fs::File::open(&p).and_then(|mut f| f.read(&mut head)).unwrap_or(0);
            head.truncate(n);
            entry["head"] = json!(String::from_utf8_lossy(&head).to_string());
        } else if name.ends_with(".json") && md.len() < 4 * 1024 * 1024 {
            if let Ok(bytes) = std::fs::read(&p) {
                if let Ok(Value::Array(a)) = serde_json::from_slice::<Value>(&bytes) {
                    entry["events"] = json!(a.len());
                }
            }
        }
        out.push(entry);
    }
    Value::Array(out)
}

fn panic_text(e: Box<dyn std::any::Any + Send>) -> String {
    if let Some(s) = e.downcast_ref::<&str>() {
        s.to_string()
    } else if let Some(s) = e.downcast_ref::<String>() {
        s.clone()
    } else {
        "?".to_string()
    }
}

fn message(token: &str, len: usize) -> String {
    // "#token#" followed by padding, exactly `len` bytes
    let mut m = format!("#{}#", token);
    while m.len() < len {
        m.push('x');
    }
    m.truncate(len);
    m
}

/// bind-mount `path` onto itself (private mount namespace only) and check that a rename of it now fails
fn pin(path: &Path) -> Result<String, String> {
    // never in the mount namespace the check itself runs in (VERIF_PARENT_MNTNS = its /proc/self/ns/mnt): the
    // mount would stay behind
    let mine = std::fs::read_link("/proc/self/ns/mnt").map(|p| p.to_string_lossy().to_string());
    match (mine, std::env::var("VERIF_PARENT_MNTNS")) {
        (Ok(mine), Ok(parent)) if !parent.is_empty() && mine != parent => {}
        (mine, parent) => {
            return Err(format!("log_pin needs a private mount namespace (self {:?}, parent {:?})", mine, parent));
        }
    }
    let c = std::ffi::CString::new(path.as_os_str().as_encoded_bytes()).map_err(|e| e.to_string())?;
    let rc = unsafe {
        libc::mount(c.as_ptr(), c.as_ptr(), std::ptr::null(), libc::MS_BIND, std::ptr::null())
    };
    if rc != 0 {
        return Err(format!("mount --bind {0} {0}: {1}", path.display(), std::io::Error::last_os_error()));
    }
    // the fault must be effective on this kernel: renaming the mount point has to fail
    let mut probe = path.as_os_str().to_os_string();
    probe.push(".pinprobe");
    match std::fs::rename(path, &probe) {
        Ok(()) => {
            _ = std::fs::rename(&probe, path);
            Err(format!("{} is bind-mounted onto itself but can still be renamed", path.display()))
        }
        Err(e) => Ok(e.to_string()),
    }
}

fn unpin(path: &Path) -> Result<(), String> {
    let c = std::ffi::CString::new(path.as_os_str().as_encoded_bytes()).map_err(|e| e.to_string())?;
    let rc = unsafe { libc::umount2(c.as_ptr(), libc::MNT_DETACH) };
    if rc != 0 {
        return Err(format!("umount {}: {}", path.display(), std::io::Error::last_os_error()));
    }
    Ok(())
}

/// "disk full" for this process: creating files works, writing to them fails (EFBIG).  Returns the old limit.
fn fsize_zero(probe_dir: &Path) -> Result<libc::rlimit, String> {
    let mut old = libc::rlimit { rlim_cur: 0, rlim_max: 0 };
    unsafe {
        if libc::getrlimit(libc::RLIMIT_FSIZE, &mut old) != 0 {
            return Err(format!("getrlimit: {}", std::io::Error::last_os_error()));
        }
        libc::signal(libc::SIGXFSZ, libc::SIG_IGN);
        let zero = libc::rlimit { rlim_cur: 0, rlim_max: old.rlim_max };
        if libc::setrlimit(libc::RLIMIT_FSIZE, &zero) != 0 {
            return Err(format!("setrlimit: {}", std::io::Error::last_os_error()));
        }
    }
    // the fault must be effective: a write to a fresh file has to fail
    let probe = probe_dir.join(".c19_fsize_probe");
    let wrote = std::fs::File::create(&probe).and_then(|mut f| f.write_all(b"x"));
    _ = std::fs::remove_file(&probe);
    if wrote.is_ok() {
        fsize_restore(&old);
        return Err("RLIMIT_FSIZE=0 does not make writes fail here".to_string());
    }
    Ok(old)
}

fn fsize_restore(old: &libc::rlimit) {
    unsafe {
        libc::setrlimit(libc::RLIMIT_FSIZE, old);
    }
}

struct State {
    loggers: HashMap<String, (RollingLogger, PathBuf)>,
    ev_task: Option<tokio::task::JoinHandle<()>>,
    ev_dir: Option<PathBuf>,
    ev_interval: Duration,
    ev_seq: u64,
}

async fn handle(st: &mut State, cmd: &Value) -> Value {
    match cmd["op"].as_str().unwrap_or("") {
        // (re-)create a rolling logger object; `key` names it (several loggers may share a directory)
        "log_open" => {
            let dir = PathBuf::from(cmd["dir"].as_str().unwrap_or(""));
            let logger = RollingLogger::create_new(
                dir.clone(),
                cmd["name"].as_str().unwrap_or("").to_string(),
                cmd["max_size"].as_u64().unwrap_or(0),
                cmd["max_count"].as_u64().unwrap_or(0) as u16,
            );
            st.loggers.insert(cmd["key"].as_str().unwrap_or("log").to_string(), (logger, dir.clone()));
            json!({"ok": true, "files": listing(&dir)})
        }
        // one write of exactly `bytes` bytes: RollingLogger::write (34-byte header + message + '\n') or, with
        // "many": [n1, n2, ...], RollingLogger::write_many (lines of n_i bytes including their '\n', no header)
        "log_write" => {
            let key = cmd["key"].as_str().unwrap_or("log");
            let (logger, dir) = match st.loggers.get(key) {
                Some(l) => l,
                None => return json!({"error": "log_write before log_open"}),
            };
            let token = cmd["token"].as_str().unwrap_or("t");
            let old = if cmd["noroom"].as_bool().unwrap_or(false) {
                match fsize_zero(dir.parent().unwrap_or(Path::new("."))) {
                    Ok(o) => Some(o),
                    Err(e) => return json!({"error": e}),
                }
            } else {
                None
            };
            let r = catch_unwind(AssertUnwindSafe(|| {
                if let Some(many) = cmd["many"].as_array() {
                    let mut lines = Vec::new();
                    for (i, n) in many.iter().enumerate() {
                        let n = n.as_u64().unwrap_or(1) as usize;
                        let t = if i == 0 { token.to_string() } else { format!("{}+{}", token, i) };
                        lines.push(message(&t, n.saturating_sub(1)));
                    }
                    logger.write_many(lines)
                } else {
                    let bytes = cmd["bytes"].as_u64().unwrap_or(0) as usize;
                    logger.write(LoggerLevel::Info, message(token, bytes.saturating_sub(35)))
                }
            }));
            if let Some(o) = &old {
                fsize_restore(o);
            }
            match r {
                Ok(Ok(())) => json!({"ok": true, "files": listing(dir)}),
                Ok(Err(e)) => json!({"ok": false, "err": e.to_string(), "files": listing(dir)}),
                Err(p) => json!({"ok": false, "panic": panic_text(p), "files": listing(dir)}),
            }
        }
        // the event logger task: once per process
        "ev_start" => {
            if st.ev_dir.is_some() {
                return json!({"error": "ev_start twice in one process (EVENT_QUEUE is process-global)"});
            }
            let dir = PathBuf::from(cmd["dir"].as_str().unwrap_or(""));
            let interval = Duration::from_millis(cmd["interval_ms"].as_u64().unwrap_or(10));
            let cap = cmd["cap"].as_u64().unwrap_or(0) as usize;
            st.ev_dir = Some(dir.clone());
            st.ev_interval = interval;
            st.ev_task = Some(tokio::spawn(event_logger::start(dir.clone(), interval, cap, |_| async {})));
            // let the task run up to its first sleep
            tokio::task::yield_now().await;
            json!({"ok": true, "files": listing(&dir)})
        }
        "ev_push" => {
            let dir = match &st.ev_dir {
                Some(d) => d.clone(),
                None => return json!({"error": "ev_push before ev_start"}),
            };
            let n = cmd["n"].as_u64().unwrap_or(1);
            for _ in 0..n {
                st.ev_seq += 1;
                event_logger::write_event(
                    LoggerLevel::Info,
                    format!("c19 event {}", st.ev_seq),
                    "c19_method",
                    "c19_module",
                    "c19_logger",
                );
            }
            json!({"ok": true, "files": listing(&dir)})
        }
        // let (virtual) time pass: at least two wake-ups of the event logger loop
        "ev_tick" => {
            let dir = match &st.ev_dir {
                Some(d) => d.clone(),
                None => return json!({"error": "ev_tick before ev_start"}),
            };
            let fail = cmd["fail"].as_bool().unwrap_or(false);
            let old = if fail {
                match fsize_zero(dir.parent().unwrap_or(Path::new("."))) {
                    Ok(o) => Some(o),
                    Err(e) => return json!({"error": e}),
                }
            } else {
                None
            };
            tokio::time::sleep(st.ev_interval * 5 / 2).await;
            if let Some(o) = &old {
                fsize_restore(o);
            }
            json!({"ok": true, "files": listing(&dir)})
        }
        // graceful stop: event_logger::stop(), then virtual time passes until the task has ended (the loop wakes
        // up, closes the queue, flushes what is queued subject to the cap, and leaves); "finished": it did end
        "ev_stop" => {
            let dir = match &st.ev_dir {
                Some(d) => d.clone(),
                None => return json!({"error": "ev_stop before ev_start"}),
            };
            let fail = cmd["fail"].as_bool().unwrap_or(false);
            let old = if fail {
                match fsize_zero(dir.parent().unwrap_or(Path::new("."))) {
                    Ok(o) => Some(o),
                    Err(e) => return json!({"error": e}),
                }
            } else {
                None
            };
            event_logger::stop();
            let finished = match st.ev_task.take() {
                Some(mut h) => match tokio::time::timeout(st.ev_interval * 50, &mut h).await {
                    Ok(_) => true,
                    Err(_) => {
                        st.ev_task = Some(h);
                        false
                    }
                },
                None => true,
            };
            if let Some(o) = &old {
                fsize_restore(o);
            }
            json!({"ok": true, "finished": finished, "files": listing(&dir)})
        }
        // the environment's fault: from now on the rename (and removal) of this file fails, appending works
        "log_pin" => {
            let path = PathBuf::from(cmd["path"].as_str().unwrap_or(""));
            match pin(&path) {
                Ok(why) => json!({"ok": true, "rename_error": why,
                                  "files": listing(path.parent().unwrap_or(Path::new(".")))}),
                Err(e) => json!({"error": e}),
            }
        }
        "log_unpin" => {
            let path = PathBuf::from(cmd["path"].as_str().unwrap_or(""));
            match unpin(&path) {
                Ok(()) => json!({"ok": true, "files": listing(path.parent().unwrap_or(Path::new(".")))}),
                Err(e) => json!({"error": e}),
            }
        }
        "dump_write" => {
            let dir = PathBuf::from(cmd["dir"].as_str().unwrap_or(""));
            let max = cmd["max"].as_u64().unwrap_or(0) as usize;
            let tag = cmd["tag"].as_str().unwrap_or("0").to_string();
            let r = catch_unwind(AssertUnwindSafe(|| {
                let item = AuthorizationItem {
                    defaultAccess: "deny".to_string(),
                    mode: "enforce".to_string(),
                    id: tag.clone(),
                    rules: None,
                };
                let computed = ComputedAuthorizationItem::from_authorization_item(item);
                let rules = AuthorizationRulesForLogging::new(
                    None,
                    ComputedAuthorizationRules {
                        imds: Some(computed.clone()),
                        wireserver: Some(computed),
                        hostga: None,
                    },
                );
                rules.write_all(&dir, max);
            }));
            match r {
                Ok(()) => json!({"ok": true, "files": listing(&dir)}),
                Err(p) => json!({"ok": false, "panic": panic_text(p), "files": listing(&dir)}),
            }
        }
        "list" => {
            let dir = PathBuf::from(cmd["dir"].as_str().unwrap_or(""));
            json!({"ok": true, "files": listing(&dir)})
        }
        other => json!({"error": format!("unknown op '{}'", other)}),
    }
}

pub fn main() -> i32 {
    let rt = match tokio::runtime::Builder::new_current_thread()
        .enable_all()
        .start_paused(true)
        .build()
    {
        Ok(r) => r,
        Err(e) => {
            eprintln!("disk: runtime: {}", e);
            return 2;
        }
    };
    rt.block_on(async {
        let mut st = State {
            loggers: HashMap::new(),
            ev_task: None,
            ev_dir: None,
            ev_interval: Duration::from_millis(10),
            ev_seq: 0,
        };
        let stdin = std::io::stdin();
        let stdout = std::io::stdout();
        let mut line = String::new();
        loop {
            line.clear();
            match stdin.lock().read_line(&mut line) {
                Ok(0) => break,
                Ok(_) => {}
                Err(e) => {
                    eprintln!("disk: stdin: {}", e);
                    return 2;
                }
            }
            if line.trim().is_empty() {
                continue;
            }
            let cmd: Value = match serde_json::from_str(&line) {
                Ok(v) => v,
                Err(e) => {
                    eprintln!("disk: bad command: {}", e);
                    return 2;
                }
            };
            let out = handle(&mut st, &cmd).await;
            let mut o = stdout.lock();
            // the agent's own logger prints to stdout (common::logger::write_console_log): answers carry a marker
            if writeln!(o, "@C19@ {}", out).is_err() || o.flush().is_err() {
                return 2;
            }
        }
        0
    })
}
