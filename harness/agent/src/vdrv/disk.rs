//! driver stub (VERIF_CMD=disk)
pub fn main() -> i32 {
    eprintln!("not built yet");
    2
}
