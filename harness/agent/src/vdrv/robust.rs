//! C13 function-level sites: every place that shortens a text at a byte offset, and the log-line header.
//! JSON lines on stdin -> JSON lines in VERIF_OUT.  A panic in the code under test is caught and reported as data.
use crate::shared_state::agent_status_wrapper::{AgentStatusModule, AgentStatusSharedState};
use serde_json::{json, Value};
use std::io::{BufRead, Write};

fn text_of(spec: &Value) -> String {
    // {"pad": n ascii bytes, "tail": [code-point widths]}
    let mut s = "a".repeat(spec["pad"].as_u64().unwrap_or(0) as usize);
    for w in spec["tail"].as_array().cloned().unwrap_or_default() {
        s.push(match w.as_u64().unwrap_or(1) {
            1 => 'b',
            2 => '\u{e9}',
            3 => '\u{20ac}',
            _ => '\u{1F600}',
        });
    }
    s
}

static PANICS: std::sync::atomic::AtomicU64 = std::sync::atomic::AtomicU64::new(0);

async fn actor_cancel() -> Value {
    use crate::provision::ProvisionFlags;
    use proxy_agent_shared::proxy_agent_aggregate_status::ModuleState;
    use std::sync::atomic::Ordering;
    let prev = std::panic::take_hook();
    std::panic::set_hook(Box::new(|_| {
        PANICS.fetch_add(1, Ordering::SeqCst);
    }));
    let shared = crate::shared_state::SharedState::start_all();
    let st = shared.get_agent_status_shared_state();
    let kk = shared.get_key_keeper_shared_state();
    let pv = shared.get_provision_shared_state();
    let rd = shared.get_redirector_shared_state();
    let tm = shared.get_telemetry_shared_state();
    let ps = shared.get_proxy_server_shared_state();
    let mut results: Vec<Value> = Vec::new();
    macro_rules! cancel_once {
        ($actor:expr, $name:expr, $fut:expr) => {{
            let before = PANICS.load(Ordering::SeqCst);
            let polled = {
                let fut = $fut;
                tokio::pin!(fut);
                tokio::select! { biased; _ = &mut fut => "completed", _ = std::future::ready(()) => "pending" }
            }; // the future (and its one-shot receiver) is dropped here
            tokio::time::sleep(std::time::Duration::from_millis(2)).await; // the actor works through its mailbox
            let alive = match $actor {
                "status" => st.get_connection_count().await.is_ok(),
                "keyKeeper" => kk.get_current_key_guid().await.is_ok(),
                "provision" => pv.get_state().await.is_ok(),
                "redirector" => rd.get_local_port().await.is_ok(),
                "telemetry" => tm.get_vm_meta_data().await.is_ok(),
                _ => ps.get_user(1).await.is_ok(),
            };
            results.push(json!({"actor": $actor, "call": $name, "polled": polled, "alive": alive,
                                "panics": PANICS.load(Ordering::SeqCst) - before}));
        }};
    }
    cancel_once!("status", "increase_connection_count", st.increase_connection_count());
    cancel_once!("status", "increase_tcp_connection_count", st.increase_tcp_connection_count());
    cancel_once!("status", "get_connection_count", st.get_connection_count());
    cancel_once!("status", "set_module_state", st.set_module_state(ModuleState::RUNNING, AgentStatusModule::KeyKeeper));
    cancel_once!("status", "set_module_status_message", st.set_module_status_message("m".to_string(), AgentStatusModule::KeyKeeper));
    cancel_once!("status", "get_module_status_message", st.get_module_status_message(AgentStatusModule::KeyKeeper));
    cancel_once!("status", "get_module_status", st.get_module_status(AgentStatusModule::KeyKeeper));
    cancel_once!("status", "get_all_connection_summary", st.get_all_connection_summary());
    cancel_once!("status", "get_all_failed_connection_summary", st.get_all_failed_connection_summary());
    cancel_once!("status", "clear_all_summary", st.clear_all_summary());
    cancel_once!("keyKeeper", "clear_key", kk.clear_key());
    cancel_once!("keyKeeper", "get_current_key_guid_and_value", kk.get_current_key_guid_and_value());
    cancel_once!("keyKeeper", "get_current_key_value", kk.get_current_key_value());
    cancel_once!("keyKeeper", "get_current_key_guid", kk.get_current_key_guid());
    cancel_once!("keyKeeper", "get_current_key_incarnation", kk.get_current_key_incarnation());
    cancel_once!("keyKeeper", "update_current_secure_channel_state", kk.update_current_secure_channel_state("x".to_string()));
    cancel_once!("keyKeeper", "get_current_secure_channel_state", kk.get_current_secure_channel_state());
    cancel_once!("keyKeeper", "update_wireserver_rule_id", kk.update_wireserver_rule_id("r".to_string()));
    cancel_once!("keyKeeper", "get_wireserver_rule_id", kk.get_wireserver_rule_id());
    cancel_once!("keyKeeper", "update_imds_rule_id", kk.update_imds_rule_id("r".to_string()));
    cancel_once!("keyKeeper", "get_imds_rule_id", kk.get_imds_rule_id());
    cancel_once!("keyKeeper", "update_hostga_rule_id", kk.update_hostga_rule_id("r".to_string()));
    cancel_once!("keyKeeper", "get_hostga_rule_id", kk.get_hostga_rule_id());
    cancel_once!("keyKeeper", "set_wireserver_rules", kk.set_wireserver_rules(None));
    cancel_once!("keyKeeper", "get_wireserver_rules", kk.get_wireserver_rules());
    cancel_once!("keyKeeper", "set_imds_rules", kk.set_imds_rules(None));
    cancel_once!("keyKeeper", "get_imds_rules", kk.get_imds_rules());
    cancel_once!("keyKeeper", "set_hostga_rules", kk.set_hostga_rules(None));
    cancel_once!("keyKeeper", "get_hostga_rules", kk.get_hostga_rules());
    cancel_once!("keyKeeper", "get_notify", kk.get_notify());
    cancel_once!("keyKeeper", "notify", kk.notify());
    cancel_once!("provision", "update_one_state", pv.update_one_state(ProvisionFlags::REDIRECTOR_READY));
    cancel_once!("provision", "reset_one_state", pv.reset_one_state(ProvisionFlags::KEY_LATCH_READY));
    cancel_once!("provision", "get_state", pv.get_state());
    cancel_once!("provision", "set_event_log_threads_initialized", pv.set_event_log_threads_initialized());
    cancel_once!("provision", "get_event_log_threads_initialized", pv.get_event_log_threads_initialized());
    cancel_once!("provision", "set_provision_finished", pv.set_provision_finished(true));
    cancel_once!("provision", "set_provision_finished_if_all_ready", pv.set_provision_finished_if_all_ready());
    cancel_once!("provision", "get_provision_finished", pv.get_provision_finished());
    cancel_once!("redirector", "set_local_port", rd.set_local_port(1));
    cancel_once!("redirector", "get_local_port", rd.get_local_port());
    cancel_once!("redirector", "clear_bpf_object", rd.clear_bpf_object());
    cancel_once!("redirector", "get_bpf_object", rd.get_bpf_object());
    cancel_once!("telemetry", "set_vm_meta_data", tm.set_vm_meta_data(None));
    cancel_once!("telemetry", "get_vm_meta_data", tm.get_vm_meta_data());
    cancel_once!("proxyServer", "get_user", ps.get_user(7));
    cancel_once!("proxyServer", "clear_users", ps.clear_users());
    std::panic::set_hook(prev);
    json!({"calls": results})
}

pub fn main() -> i32 {
    let rt = tokio::runtime::Builder::new_current_thread().enable_all().build().unwrap();
    let status = rt.block_on(async { AgentStatusSharedState::start_new() });
    let stdin = std::io::stdin();
    let mut out = std::io::BufWriter::new(std::fs::File::create(super::env("VERIF_OUT")).expect("VERIF_OUT"));
    for line in stdin.lock().lines() {
        let line = line.unwrap();
        if line.trim().is_empty() {
            continue;
        }
        let cmd: Value = serde_json::from_str(&line).expect("bad command");
        let kind = cmd["kind"].as_str().unwrap_or("").to_string();
        let r = std::panic::catch_unwind(std::panic::AssertUnwindSafe(|| match kind.as_str() {
            "event_cut" => {
                let msg = text_of(&cmd["msg"]);
                proxy_agent_shared::telemetry::event_logger::write_event(
                    proxy_agent_shared::logger::LoggerLevel::Info,
                    msg,
                    "verif",
                    "verif",
                    "none",
                );
                json!({"ok": true})
            }
            "status_cut" => {
                let msg = text_of(&cmd["msg"]);
                let len = msg.len();
                let got = rt.block_on(async {
                    let _ = status
                        .set_module_status_message(msg, AgentStatusModule::KeyKeeper)
                        .await;
                    status.get_module_status(AgentStatusModule::KeyKeeper).await
                });
                json!({"ok": true, "inLen": len, "outLen": got.message.len()})
            }
            "log_header" => {
                let n = cmd["n"].as_u64().unwrap_or(1000);
                let mut short = 0u64;
                for _ in 0..n {
                    let h = proxy_agent_shared::logger::get_log_header(proxy_agent_shared::logger::LoggerLevel::Info);
                    if h.len() != 34 {
                        short += 1;
                    }
                }
                json!({"ok": true, "short": short})
            }
            // Robust!Abandon + ActorReply for every actor: a requester that is dropped after its message was queued and
            // before the actor answers (what happens to a request handler whose client went away, and to every task raced
            // against the cancellation token).  Each client call is polled exactly once -- the runtime is single-threaded,
            // so the actor cannot have answered -- and dropped; then the actor gets to run and must still answer.
            "actor_cancel" => rt.block_on(actor_cancel()),
            // n request tasks reach the recording point at the same moment, before the status actor runs again (the
            // runtime here is single-threaded, so nothing drains its mailbox meanwhile): every one must be recorded
            // n DISTINCT callers (different command lines) are each denied once, then the first and the last once more: every
            // caller has its own entry with its own count, however many callers there are within the 24 h window
            "status_many_callers" => rt.block_on(async {
                let n = cmd["n"].as_u64().unwrap_or(1500);
                let st = AgentStatusSharedState::start_new();
                let mk = |i: u64| -> crate::proxy::proxy_summary::ProxySummary {
                    serde_json::from_value(json!({
                        "id": i, "method": "GET", "url": "/metadata/x", "clientIp": "127.0.0.1", "clientPort": 1,
                        "ip": "169.254.169.254", "port": 80, "userId": 1, "userName": "daemon", "userGroups": ["daemon"],
                        "processFullPath": "/bin/sh", "processCmdLine": format!("/bin/sh job.sh --run-id {}", i), "runAsElevated": false,
                        "responseStatus": "403 Forbidden", "elapsedTime": 1, "errorDetails": ""
                    }))
                    .unwrap()
                };
                let mut acked = 0u64;
                for i in 0..n {
                    if st.add_one_failed_connection_summary(mk(i)).await.is_ok() {
                        acked += 1;
                    }
                }
                for i in [0, n - 1, n - 1] {
                    if st.add_one_failed_connection_summary(mk(i)).await.is_ok() {
                        acked += 1;
                    }
                }
                let all = st.get_all_failed_connection_summary().await.unwrap_or_default();
                let total: u64 = all.iter().map(|x| x.count).sum();
                let last = all.iter().filter(|x| x.processCmdLine.ends_with(&format!("--run-id {}", n - 1))).map(|x| x.count).sum::<u64>();
                let first = all.iter().filter(|x| x.processCmdLine.ends_with("--run-id 0")).map(|x| x.count).sum::<u64>();
                // the same through the PUBLISHED document: the real ProxyAgentStatusTask over this actor writes status.json
                // into a fresh directory; it is read once a publication made after the last add is on disk
                let dir = std::env::temp_dir().join(format!("verif_many_{}_{}", std::process::id(), n));
                let _ = std::fs::remove_dir_all(&dir);
                std::fs::create_dir_all(&dir).unwrap();
                let token = tokio_util::sync::CancellationToken::new();
                let task = crate::proxy_agent_status::ProxyAgentStatusTask::new(
                    std::time::Duration::from_millis(50),
                    dir.clone(),
                    token.clone(),
                    crate::shared_state::key_keeper_wrapper::KeyKeeperSharedState::start_new(),
                    st.clone(),
                );
                let h = tokio::spawn(async move { task.start().await });
                let file = dir.join("status.json");
                let (mut f_entries, mut f_total, mut f_first, mut f_last) = (-1i64, -1i64, -1i64, -1i64);
                let t0 = std::time::Instant::now();
                let mut seen_mtime = None;
                while t0.elapsed() < std::time::Duration::from_secs(20) {
                    tokio::time::sleep(std::time::Duration::from_millis(60)).await;
                    let mt = std::fs::metadata(&file).and_then(|m| m.modified()).ok();
                    if mt.is_none() {
                        continue;
                    }
                    if seen_mtime.is_none() {
                        seen_mtime = mt; // first publication seen; take the NEXT one (written wholly after the adds)
                        continue;
                    }
                    if mt == seen_mtime {
                        continue;
                    }
                    if let Ok(text) = std::fs::read_to_string(&file) {
                        if let Ok(v) = serde_json::from_str::<Value>(&text) {
                            let arr = v["failedAuthenticateSummary"].as_array().cloned().unwrap_or_default();
                            let cnt = |x: &Value| x["count"].as_i64().unwrap_or(0);
                            let cmdl = |x: &Value| x["processCmdLine"].as_str().unwrap_or("").to_string();
                            f_entries = arr.len() as i64;
                            f_total = arr.iter().map(cnt).sum();
                            f_first = arr.iter().filter(|x| cmdl(x).ends_with("--run-id 0")).map(cnt).sum();
                            f_last = arr.iter().filter(|x| cmdl(x).ends_with(&format!("--run-id {}", n - 1))).map(cnt).sum();
                            break;
                        }
                    }
                }
                token.cancel();
                let _ = h.await;
                let _ = std::fs::remove_dir_all(&dir);
                json!({"n": n, "acked": acked, "entries": all.len(), "total": total, "firstCaller": first, "lastCaller": last,
                    "fileEntries": f_entries, "fileTotal": f_total, "fileFirstCaller": f_first, "fileLastCaller": f_last})
            }),
            "status_burst" => rt.block_on(async {
                let n = cmd["n"].as_u64().unwrap_or(250);
                let st = AgentStatusSharedState::start_new();
                let mut hs = Vec::new();
                for i in 0..n {
                    let st = st.clone();
                    hs.push(tokio::spawn(async move {
                        let s: crate::proxy::proxy_summary::ProxySummary = serde_json::from_value(json!({
                            "id": i, "method": "GET", "url": format!("/metadata/burst?b={}", i % 5), "clientIp": "127.0.0.1", "clientPort": 1,
                            "ip": "169.254.169.254", "port": 80, "userId": 1, "userName": "daemon", "userGroups": ["daemon"],
                            "processFullPath": "/bin/x", "processCmdLine": "/bin/x", "runAsElevated": false,
                            "responseStatus": "403 Forbidden", "elapsedTime": 1, "errorDetails": ""
                        }))
                        .unwrap();
                        let failed = st.add_one_failed_connection_summary(s).await.is_ok();
                        let s2: crate::proxy::proxy_summary::ProxySummary = serde_json::from_value(json!({
                            "id": i, "method": "GET", "url": "/ok", "clientIp": "127.0.0.1", "clientPort": 1,
                            "ip": "169.254.169.254", "port": 80, "userId": 1, "userName": "daemon", "userGroups": ["daemon"],
                            "processFullPath": "/bin/x", "processCmdLine": "/bin/x", "runAsElevated": false,
                            "responseStatus": "200 OK", "elapsedTime": 1, "errorDetails": ""
                        }))
                        .unwrap();
                        let okc = st.add_one_connection_summary(s2).await.is_ok();
                        (failed, okc)
                    }));
                }
                let mut acked = 0u64;
                for h in hs {
                    if let Ok((a, b)) = h.await {
                        if a && b {
                            acked += 1;
                        }
                    }
                }
                let failed: u64 = st.get_all_failed_connection_summary().await.unwrap_or_default().iter().map(|x| x.count).sum();
                let okc: u64 = st.get_all_connection_summary().await.unwrap_or_default().iter().map(|x| x.count).sum();
                json!({"n": n, "acked": acked, "failedRecorded": failed, "summaryRecorded": okc})
            }),
            other => json!({"error": format!("unknown kind {}", other)}),
        }));
        let v = match r {
            Ok(v) => v,
            Err(_) => json!({"panic": true}),
        };
        writeln!(out, "{}", v).unwrap();
    }
    out.flush().unwrap();
    0
}
