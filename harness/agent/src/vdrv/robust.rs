//! C13 function-level sites: every place that shortens a text at a byte offset, and the log-line header.
//! JSON lines on stdin -> JSON lines in VERIF_OUT.  A panic in the code under test is caught and reported as data.
use crate::shared_state::agent_status_wrapper::{AgentStatusModule, AgentStatusSharedState};
use serde_json::{json, Value};
use std::io::{BufRead, Write};

fn text_of(spec: &Value) -> String {
    // {"pad": n ascii bytes, "tail": [code-point widths]}
    let mut s = "a".repeat(spec["pad"].as_u64().unwrap_or(0) as usize);
    for w in spec["tail"].as_array().cloned().unwrap_or_default() {
        s.push(match w.as_u64().unwrap_or(1) {
            1 => 'b',
            2 => '\u{e9}',
            3 => '\u{20ac}',
            _ => '\u{1F600}',
        });
    }
    s
}

pub fn main() -> i32 {
    let rt = tokio::runtime::Builder::new_current_thread().enable_all().build().unwrap();
    let status = rt.block_on(async { AgentStatusSharedState::start_new() });
    let stdin = std::io::stdin();
    let mut out = std::io::BufWriter::new(std::fs::File::create(super::env("VERIF_OUT")).expect("VERIF_OUT"));
    for line in stdin.lock().lines() {
        let line = line.unwrap();
        if line.trim().is_empty() {
            continue;
        }
        let cmd: Value = serde_json::from_str(&line).expect("bad command");
        let kind = cmd["kind"].as_str().unwrap_or("").to_string();
        let r = std::panic::catch_unwind(std::panic::AssertUnwindSafe(|| match kind.as_str() {
            "event_cut" => {
                let msg = text_of(&cmd["msg"]);
                proxy_agent_shared::telemetry::event_logger::write_event(
                    proxy_agent_shared::logger::LoggerLevel::Info,
                    msg,
                    "verif",
                    "verif",
                    "none",
                );
                json!({"ok": true})
            }
            "status_cut" => {
                let msg = text_of(&cmd["msg"]);
                let len = msg.len();
                let got = rt.block_on(async {
                    let _ = status
                        .set_module_status_message(msg, AgentStatusModule::KeyKeeper)
                        .await;
                    status.get_module_status(AgentStatusModule::KeyKeeper).await
                });
                json!({"ok": true, "inLen": len, "outLen": got.message.len()})
            }
            "log_header" => {
                let n = cmd["n"].as_u64().unwrap_or(1000);
                let mut short = 0u64;
                for _ in 0..n {
                    let h = proxy_agent_shared::logger::get_log_header(proxy_agent_shared::logger::LoggerLevel::Info);
                    if h.len() != 34 {
                        short += 1;
                    }
                }
                json!({"ok": true, "short": short})
            }
            other => json!({"error": format!("unknown kind {}", other)}),
        }));
        let v = match r {
            Ok(v) => v,
            Err(_) => json!({"panic": true}),
        };
        writeln!(out, "{}", v).unwrap();
    }
    out.flush().unwrap();
    0
}
