//! driver stub (VERIF_CMD=robust)
pub fn main() -> i32 {
    eprintln!("not built yet");
    2
}
