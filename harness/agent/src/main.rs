// Conformance harness for the agent crate (azure-proxy-agent is bin-only): every entry of
// /repo/proxy_agent/src except main.rs is symlinked into this directory; this file replaces main.rs.
// No command-line arguments (common::cli::CLI parses the process arguments lazily): the command comes from
// VERIF_CMD, inputs/outputs from VERIF_* environment variables.

pub mod acl;
pub mod common;
pub mod host_clients;
pub mod key_keeper;
pub mod provision;
pub mod proxy;
pub mod proxy_agent_status;
pub mod redirector;
pub mod service;
pub mod shared_state;
pub mod telemetry;
pub mod verif;

mod vdrv;

fn main() {
    let cmd = std::env::var("VERIF_CMD").unwrap_or_default();
    vdrv::install_panic_hook();
    let code = match cmd.as_str() {
        "rig" => vdrv::rig::main(),
        "fn-table" => vdrv::fntable::main(),
        "disk" => vdrv::disk::main(),
        "telemetry" => vdrv::telemetry::main(),
        "provision" => vdrv::provision::main(),
        "keykeeper" => vdrv::keykeeper::main(),
        "robust" => vdrv::robust::main(),
        "status" => vdrv::status::main(),
        "lifecycle" => vdrv::lifecycle::main(),
        "realmaps" => vdrv::realmaps::main(),
        other => {
            eprintln!("verif-agent: unknown VERIF_CMD '{}'", other);
            2
        }
    };
    verif::trace::flush();
    std::process::exit(code);
}
