#!/usr/bin/env python3
"""Scripted secure-channel host (WireServer side of /secure-channel/*), Python stdlib only.

A separate process, so it survives the agent being killed.  It listens on the REAL endpoint address
(168.63.129.16:80, added to lo inside a private network namespace by the caller) and on a unix control socket through
which the check drives it (one JSON object per line, request/response).

 * state: the status document (concrete JSON without keyGuid), the guid the status names (`named`), the guid the host
   regards as attested (`latched`), the keys it issued, a queue of keys to hand out next.
 * every request is classified: status | acquire | attest | signed | other.  Signatures (attestation and signed probe)
   are verified INDEPENDENTLY here with hmac/hashlib over the canonical string rebuilt from the raw request.
 * hold mode (C09 lock-step): every request is withheld until the controller decides how to answer it, so the arrival
   of status request n+1 proves that poll n is complete and the key keeper is parked on its socket.
 * auto mode (C08 crash sweep): requests are answered at once from per-kind plans (fault at the k-th request of a kind).
 * answers: ok (process normally) | http (status/body/ctype, no processing) | raw200 (200 with the given body) |
   reset (RST, no answer) | close (FIN, no answer) | lost (process, then RST instead of answering) |
   truncate (headers promise more bytes than are sent, then FIN) | drop (forget a dead connection).
 * quiesce: wait until no connection is in progress, so that the latch is read only after the host has finished with
   whatever the (killed) agent sent last.
 * spawn/wait/kill: the host can start the agent processes itself (it already lives in the namespace), e.g. under
   strace with kill injection; it is their parent and outlives them.
"""
import hashlib
import hmac
import json
import os
import socket
import socketserver
import struct
import subprocess
import sys
import threading
import time

AUTHZ = "x-ms-azure-host-authorization"
SCHEME = "Azure-HMAC-SHA256"


class State:
    def __init__(self):
        self.lock = threading.Condition()
        self.doc = {"authorizationScheme": SCHEME, "keyDeliveryMethod": "http", "version": "1.0",
                    "secureChannelState": "Disabled"}
        self.named = None
        self.named_repr = "null"        # null | absent | empty (how "no key latched" is written)
        self.latched = None
        self.keys = {}                  # guid -> hex key
        self.issue_queue = []           # [{"guid","key"}]
        self.hold = False
        self.plans = {}                 # kind -> [action, ...] consumed per request of that kind (auto mode)
        self.log = []
        self.seq = 0
        self.pending = {}               # id -> request record (hold mode)
        self.arrivals = []              # ids in arrival order, not yet handed to the controller
        self.decisions = {}             # id -> action
        self.children = {}
        self.epoch = 0
        self.active = 0                 # connections being handled right now
        self.keydir = None              # the guest's key directory (same file system): looked at when an attestation arrives


S = State()


def canonical_input(method, target, headers, body):
    data = method.encode() + b"\n" + body + b"\n"
    hmap = {}
    for n, v in headers:
        hmap[n.lower()] = v
    for k in sorted(hmap):
        if k == AUTHZ:
            continue
        data += ("%s:%s\n" % (k, hmap[k].strip())).encode("latin-1")
    path, _, query = target.partition("?")
    pairs = {}
    for pair in query.split("&"):
        k, _, v = pair.partition("=")
        if k == "":
            continue
        pairs[k.lower() + v] = (k.lower(), v)
    parts = []
    for mk in sorted(pairs):
        k, v = pairs[mk]
        parts.append(mk if v == "" else "%s=%s" % (k, v))
    data += path.encode() + b"\n" + "&".join(parts).encode()
    return data


def verify(method, target, headers, body):
    """-> (ok, guid, why)"""
    az = [v for n, v in headers if n.lower() == AUTHZ]
    if not az:
        return False, None, "no authorization header"
    parts = az[-1].split(" ")
    if len(parts) != 3 or parts[0] != SCHEME:
        return False, None, "malformed authorization header"
    guid, sig = parts[1], parts[2]
    key = S.keys.get(guid)
    if key is None:
        return False, guid, "unknown key guid"
    try:
        raw = bytes.fromhex(key)
    except ValueError:
        return False, guid, "key is not hex"
    want = hmac.new(raw, canonical_input(method, target, headers, body), hashlib.sha256).hexdigest()
    if hmac.compare_digest(want, sig.lower()):
        return True, guid, ""
    return False, guid, "signature mismatch"


def classify(method, target):
    path = target.partition("?")[0]
    if method == "GET" and path == "/secure-channel/status":
        return "status", None
    if method == "POST" and path == "/secure-channel/key":
        return "acquire", None
    if method == "POST" and path.startswith("/secure-channel/key/") and path.endswith("/key-attestation"):
        return "attest", path[len("/secure-channel/key/"):-len("/key-attestation")]
    if path.startswith("/verif/signed"):
        return "signed", None
    return "other", None


def status_body():
    d = dict(S.doc)
    if S.named is not None:
        d["keyGuid"] = S.named
    elif S.named_repr == "null":
        d["keyGuid"] = None
    elif S.named_repr == "empty":
        d["keyGuid"] = ""
    return json.dumps(d)


def key_file_state(guid):
    if not S.keydir or not guid:
        return "unknown"
    try:
        with open(os.path.join(S.keydir, guid + ".key"), "rb") as f:
            d = json.loads(f.read().decode("utf-8", "replace"))
        return "key" if isinstance(d, dict) and d.get("guid") == guid and d.get("key") == S.keys.get(guid) else "corrupt"
    except FileNotFoundError:
        return "none"
    except (OSError, ValueError):
        return "corrupt"


def new_key():
    if S.issue_queue:
        k = S.issue_queue.pop(0)
    else:
        n = len(S.keys) + 1
        guid = "%08x-5c5c-4c5c-8c5c-%012x" % (n, n)
        k = {"guid": guid, "key": hashlib.sha256(("auto" + guid).encode()).hexdigest().upper()}
    S.keys[k["guid"]] = k["key"]
    return k


def process(rec):
    """normal processing under S.lock -> (status, ctype, body)"""
    kind = rec["kind"]
    if kind == "status":
        return 200, "application/json; charset=utf-8", status_body()
    if kind == "acquire":
        k = new_key()
        rec["issued"] = k["guid"]
        body = {"authorizationScheme": SCHEME, "guid": k["guid"], "issued": "2021-05-05T 12:00:00Z", "key": k["key"]}
        if k.get("incarnationId") is not None:
            body["incarnationId"] = k["incarnationId"]
        return 200, "application/json; charset=utf-8", json.dumps(body)
    if kind == "attest":
        ok, guid, why = rec["mac_ok"], rec["mac_guid"], rec["mac_why"]
        if ok and guid == rec["path_guid"]:
            S.latched = guid
            S.named = guid
            rec["latched"] = guid
            return 200, "application/json; charset=utf-8", ""
        rec["refused"] = why or "guid in path differs from the signing key"
        return 403, "text/plain", "attestation refused: " + rec["refused"]
    if kind == "signed":
        ok, guid, why = rec["mac_ok"], rec["mac_guid"], rec["mac_why"]
        if ok and guid == S.latched:
            rec["accepted"] = True
            return 200, "application/json", json.dumps({"ok": True, "guid": guid})
        rec["accepted"] = False
        rec["refused"] = why or "signed with a key that is not the latched one"
        return 403, "text/plain", "refused: " + rec["refused"]
    return 404, "text/plain", "not found"


def read_request(conn):
    buf = b""
    while b"\r\n\r\n" not in buf:
        chunk = conn.recv(65536)
        if not chunk:
            return None
        buf += chunk
        if len(buf) > 1 << 20:
            return None
    head, _, rest = buf.partition(b"\r\n\r\n")
    lines = head.split(b"\r\n")
    first = lines[0].decode("latin-1").split(" ")
    if len(first) < 3:
        return None
    headers = []
    for ln in lines[1:]:
        n, _, v = ln.partition(b":")
        headers.append((n.decode("latin-1"), v.decode("latin-1").strip(" \t")))
    clen = 0
    for n, v in headers:
        if n.lower() == "content-length":
            try:
                clen = int(v)
            except ValueError:
                clen = 0
    while len(rest) < clen:
        chunk = conn.recv(65536)
        if not chunk:
            return None
        rest += chunk
    return first[0], first[1], headers, rest[:clen]


def rst(conn):
    try:
        conn.setsockopt(socket.SOL_SOCKET, socket.SO_LINGER, struct.pack("ii", 1, 0))
    except OSError:
        pass
    conn.close()


def send_http(conn, status, ctype, body, truncate=False):
    b = body.encode() if isinstance(body, str) else body
    reason = {200: "OK", 400: "Bad Request", 403: "Forbidden", 404: "Not Found", 410: "Gone", 429: "Too Many Requests",
              500: "Internal Server Error", 502: "Bad Gateway", 503: "Service Unavailable"}.get(status, "Status")
    head = "HTTP/1.1 %d %s\r\n" % (status, reason)
    if ctype:
        head += "Content-Type: %s\r\n" % ctype
    head += "Content-Length: %d\r\nConnection: close\r\n\r\n" % (len(b) + (40 if truncate else 0))
    conn.sendall(head.encode() + b)


class Handler(socketserver.BaseRequestHandler):
    def handle(self):
        with S.lock:
            S.active += 1
        try:
            self.handle_one()
        finally:
            with S.lock:
                S.active -= 1
                S.lock.notify_all()

    def handle_one(self):
        conn = self.request
        conn.settimeout(30)
        try:
            req = read_request(conn)
        except OSError:
            req = None
        if req is None:
            with S.lock:
                S.seq += 1
                S.log.append({"seq": S.seq, "kind": "noreq", "epoch": S.epoch, "t": time.time()})
            conn.close()
            return
        method, target, headers, body = req
        kind, path_guid = classify(method, target)
        with S.lock:
            S.seq += 1
            rec = {"seq": S.seq, "id": S.seq, "kind": kind, "method": method, "target": target, "epoch": S.epoch,
                   "t": time.time(), "path_guid": path_guid}
            if kind in ("attest", "signed"):
                ok, guid, why = verify(method, target, headers, body)
                rec.update({"mac_ok": ok, "mac_guid": guid, "mac_why": why})
                if kind == "attest":
                    # observation only (no answer depends on it): is the key the guest asks to latch on its disk right
                    # now, complete and equal to what was issued?
                    rec["file_at_attest"] = key_file_state(path_guid)
            else:
                rec["has_authz"] = any(n.lower() == AUTHZ for n, v in headers)
            S.log.append(rec)
            if S.hold:
                S.pending[rec["id"]] = rec
                S.arrivals.append(rec["id"])
                S.lock.notify_all()
                t_end = time.time() + 600
                while rec["id"] not in S.decisions:
                    left = t_end - time.time()
                    if left <= 0:
                        break
                    S.lock.wait(left)
                action = S.decisions.pop(rec["id"], {"a": "reset"})
                S.pending.pop(rec["id"], None)
            else:
                plan = S.plans.get(kind) or []
                action = plan.pop(0) if plan else {"a": "ok"}
            rec["action"] = action
            a = action.get("a", "ok")
            out = None
            if a in ("ok", "lost"):
                out = process(rec)
            rec["latched_after"] = S.latched
            rec["named_after"] = S.named
        try:
            if a == "ok":
                send_http(conn, *out)
            elif a == "http":
                send_http(conn, int(action.get("status", 500)), action.get("ctype", "text/plain"), action.get("body", "error"))
            elif a == "raw200":
                send_http(conn, 200, action.get("ctype", "application/json; charset=utf-8"), action.get("body", ""))
            elif a == "truncate":
                send_http(conn, 200, "application/json; charset=utf-8", action.get("body", '{"authorizationScheme": "Az'), truncate=True)
            elif a in ("reset", "lost"):
                rst(conn)
                return
            elif a in ("close", "drop"):
                pass
            rec["sent"] = True
        except OSError as ex:
            rec["send_error"] = str(ex)
        try:
            conn.shutdown(socket.SHUT_WR)
        except OSError:
            pass
        try:
            conn.close()
        except OSError:
            pass


class Server(socketserver.ThreadingMixIn, socketserver.TCPServer):
    allow_reuse_address = True
    daemon_threads = True
    request_queue_size = 64


def snapshot():
    return {"named": S.named, "latched": S.latched, "keys": dict(S.keys), "seq": S.seq, "epoch": S.epoch,
            "pending": sorted(S.pending), "doc": S.doc}


def public(rec):
    return {k: v for k, v in rec.items() if k not in ("t",)}


def control(cmd):
    op = cmd.get("op")
    if op == "set":
        with S.lock:
            for k in ("doc", "named", "named_repr", "latched", "hold", "keydir"):
                if k in cmd:
                    setattr(S, k, cmd[k])
            if "keys" in cmd:
                S.keys.update(cmd["keys"])
            if "issue_queue" in cmd:
                S.issue_queue = list(cmd["issue_queue"])
            if "plans" in cmd:
                S.plans = {k: list(v) for k, v in cmd["plans"].items()}
            if cmd.get("reset"):
                S.keys = dict(cmd.get("keys", {}))
                S.log = []
                S.pending = {}
                S.arrivals = []
                S.decisions = {}
            return snapshot()
    if op == "reset":            # forget everything; connections still withheld are dropped
        with S.lock:
            for rid in list(S.pending):
                S.decisions[rid] = {"a": "drop"}
            S.arrivals = []
            S.log = []
            S.keys = {}
            S.issue_queue = []
            S.plans = {}
            S.latched = None
            S.named = None
            S.named_repr = "null"
            S.lock.notify_all()
            return {"ok": True}
    if op == "epoch":            # marks the log (e.g. "after restart")
        with S.lock:
            S.epoch += 1
            return {"epoch": S.epoch}
    if op == "next":             # next withheld request, in arrival order
        t_end = time.time() + float(cmd.get("timeout", 10))
        with S.lock:
            while not S.arrivals:
                left = t_end - time.time()
                if left <= 0:
                    return {"timeout": True}
                S.lock.wait(left)
            rid = S.arrivals.pop(0)
            return {"request": public(S.pending.get(rid) or {"id": rid, "kind": "gone"})}
    if op == "reply":
        with S.lock:
            S.decisions[cmd["id"]] = cmd.get("action", {"a": "ok"})
            S.lock.notify_all()
            return {"ok": True}
    if op == "quiesce":          # wait until no connection is being handled (e.g. after the agent was killed)
        t_end = time.time() + float(cmd.get("timeout", 5))
        while True:
            with S.lock:
                while S.active > 0:
                    left = t_end - time.time()
                    if left <= 0:
                        return {"quiet": False, "active": S.active}
                    S.lock.wait(left)
                seq = S.seq
            time.sleep(0.01)     # a connection the kernel completed but the listener has not accepted yet
            with S.lock:
                if S.active == 0 and S.seq == seq:
                    return {"quiet": True}
    if op == "state":
        with S.lock:
            return snapshot()
    if op == "log":
        with S.lock:
            since = cmd.get("since", 0)
            return {"log": [public(r) for r in S.log if r["seq"] > since]}
    if op == "spawn":
        env = dict(os.environ)
        env.update(cmd.get("env") or {})
        out = open(cmd["stdout"], "ab") if cmd.get("stdout") else subprocess.DEVNULL
        err = open(cmd["stderr"], "ab") if cmd.get("stderr") else subprocess.DEVNULL
        p = subprocess.Popen(cmd["argv"], env=env, cwd=cmd.get("cwd"), stdin=subprocess.DEVNULL, stdout=out, stderr=err)
        S.children[p.pid] = p
        return {"pid": p.pid}
    if op == "wait":
        p = S.children.get(cmd["pid"])
        if p is None:
            return {"error": "no such child"}
        try:
            rc = p.wait(timeout=float(cmd.get("timeout", 30)))
        except subprocess.TimeoutExpired:
            p.kill()
            p.wait()
            S.children.pop(cmd["pid"], None)
            return {"timeout": True, "rc": None}
        S.children.pop(cmd["pid"], None)
        return {"rc": rc}
    if op == "run":              # spawn + wait
        r = control(dict(cmd, op="spawn"))
        return control({"op": "wait", "pid": r["pid"], "timeout": cmd.get("timeout", 30)})
    if op == "ping":
        return {"pong": True}
    if op == "quit":
        for p in S.children.values():
            try:
                p.kill()
            except OSError:
                pass
        os._exit(0)
    return {"error": "unknown op %r" % op}


def control_conn(c):
    f = c.makefile("rwb")
    for line in f:
        line = line.strip()
        if not line:
            continue
        try:
            rep = control(json.loads(line))
        except Exception as ex:          # a controller error must not take the host down
            rep = {"error": "%s: %s" % (type(ex).__name__, ex)}
        f.write(json.dumps(rep).encode() + b"\n")
        f.flush()


def main():
    ctl = os.environ["SC_HOST_CTL"]
    addr = os.environ.get("SC_HOST_BIND", "168.63.129.16:80")
    ip, _, port = addr.partition(":")
    srv = Server((ip, int(port)), Handler)
    threading.Thread(target=srv.serve_forever, daemon=True).start()
    try:
        os.unlink(ctl)
    except FileNotFoundError:
        pass
    us = socket.socket(socket.AF_UNIX, socket.SOCK_STREAM)
    us.bind(ctl)
    us.listen(4)
    sys.stdout.write("sc_host ready\n")
    sys.stdout.flush()
    while True:
        c, _ = us.accept()
        threading.Thread(target=control_conn, args=(c,), daemon=True).start()


if __name__ == "__main__":
    main()
