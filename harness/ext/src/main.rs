// Conformance harness for the extension crate (ProxyAgentExt is bin-only): src/* are symlinks into
// /repo/proxy_agent_extension/src, this file replaces main.rs.  No command-line arguments.
#![allow(non_snake_case)]

pub mod common;
pub mod constants;
pub mod error;
pub mod handler_main;
pub mod linux;
pub mod logger;
pub mod result;
pub mod service_main;
pub mod structs;

mod handler_drv; // X02_EXTHANDLER: handler commands and service loop (checks/x02_exthandler.py)
mod monitor_drv; // C20: the real monitor loop under a paused clock (hook H10), sequence-number changes, status files read back

use std::io::{BufRead, Write};

// handler_main.rs refers to crate::ExtensionCommand (declared in the real main.rs)
#[derive(clap::Subcommand, Debug)]
pub enum ExtensionCommand {
    Enable,
    Disable,
    Uninstall,
    Install,
    Update,
    Reset,
}

#[derive(serde::Deserialize)]
struct Cmd {
    kind: String,
    #[serde(default)]
    rle: Vec<(u8, u64)>, // health: (1 = success observation / 0 = failure, repeat)
    #[serde(default)]
    events: Vec<(String, String, u64)>, // rate: (key, value, repeat)
    #[serde(default)]
    max: u32,
    #[serde(default)]
    graph: String, // cover: path of a graph file written by the orchestrator from TLC's EDGE lines
    #[serde(default)]
    machine: String,
    #[serde(default)]
    polls: String, // report: one letter per poll of the monitor loop (see "report" below)
}

/// Labelled transition graph printed by TLC (node 0 = initial state).
#[derive(serde::Deserialize)]
struct Graph {
    nodes: usize,
    labels: Vec<serde_json::Value>, // input labels
    outs: Vec<serde_json::Value>,   // expected observable outputs
    edges: Vec<(usize, usize, usize, usize)>, // (src, label, dst, out)
}

/// Transition cover: greedy walks from the initial state that take every edge of the specification's
/// graph at least once; after *every* step the implementation's output is compared with the edge's.
fn cover<T>(
    g: &Graph,
    new: &dyn Fn() -> T,
    step: &dyn Fn(&mut T, &serde_json::Value) -> serde_json::Value,
) -> serde_json::Value {
    let mut out_edges: Vec<Vec<usize>> = vec![Vec::new(); g.nodes];
    for (i, e) in g.edges.iter().enumerate() {
        out_edges[e.0].push(i);
    }
    // BFS tree
    let mut parent: Vec<Option<usize>> = vec![None; g.nodes];
    let mut seen = vec![false; g.nodes];
    let mut order = Vec::new();
    let mut q = std::collections::VecDeque::new();
    seen[0] = true;
    q.push_back(0usize);
    while let Some(u) = q.pop_front() {
        order.push(u);
        for &ei in &out_edges[u] {
            let v = g.edges[ei].2;
            if !seen[v] {
                seen[v] = true;
                parent[v] = Some(ei);
                q.push_back(v);
            }
        }
    }
    let mut covered = vec![false; g.edges.len()];
    let mut next_ptr = vec![0usize; g.nodes];
    let (mut replays, mut steps, mut mismatch_count, mut unreached) = (0u64, 0u64, 0u64, 0u64);
    let mut mismatches: Vec<serde_json::Value> = Vec::new();
    for &start in &order {
        loop {
            // does `start` still have an uncovered out-edge?
            while next_ptr[start] < out_edges[start].len() && covered[out_edges[start][next_ptr[start]]] {
                next_ptr[start] += 1;
            }
            if next_ptr[start] >= out_edges[start].len() {
                break;
            }
            // tree path to start
            let mut path = Vec::new();
            let mut u = start;
            while let Some(ei) = parent[u] {
                path.push(ei);
                u = g.edges[ei].0;
            }
            path.reverse();
            replays += 1;
            let mut obj = new();
            let mut hist: Vec<(usize, serde_json::Value)> = Vec::new();
            let mut cur = 0usize;
            let mut idx = 0usize;
            let mut failed = false;
            loop {
                let ei = if idx < path.len() {
                    path[idx]
                } else {
                    while next_ptr[cur] < out_edges[cur].len() && covered[out_edges[cur][next_ptr[cur]]] {
                        next_ptr[cur] += 1;
                    }
                    if next_ptr[cur] >= out_edges[cur].len() {
                        break;
                    }
                    out_edges[cur][next_ptr[cur]]
                };
                idx += 1;
                let e = g.edges[ei];
                let got = step(&mut obj, &g.labels[e.1]);
                steps += 1;
                covered[ei] = true;
                hist.push((e.1, got.clone()));
                if got != g.outs[e.3] {
                    mismatch_count += 1;
                    if mismatches.len() < 40 {
                        // run-length encode the replay for the property-level trace validation
                        let mut rle: Vec<(serde_json::Value, serde_json::Value, u64)> = Vec::new();
                        for (l, o) in hist.iter() {
                            if let Some(last) = rle.last_mut() {
                                if last.0 == g.labels[*l] && last.1 == *o {
                                    last.2 += 1;
                                    continue;
                                }
                            }
                            rle.push((g.labels[*l].clone(), o.clone(), 1));
                        }
                        mismatches.push(serde_json::json!({"edge": ei, "step": hist.len(), "got": got,
                            "want": g.outs[e.3], "replay": rle}));
                    }
                    failed = true;
                    break;
                }
                cur = e.2;
            }
            if failed && idx <= path.len() {
                // diverged on the way to `start`: its remaining out-edges cannot be reached along the tree
                // path; give them up (reported as unreached) instead of retrying forever
                while next_ptr[start] < out_edges[start].len() {
                    let ei = out_edges[start][next_ptr[start]];
                    if !covered[ei] {
                        covered[ei] = true;
                        unreached += 1;
                    }
                    next_ptr[start] += 1;
                }
            }
        }
    }
    let uncovered = covered.iter().filter(|c| !**c).count();
    serde_json::json!({"replays": replays, "steps": steps, "edges": g.edges.len(), "uncovered": uncovered, "unreached_after_divergence": unreached,
        "mismatch_count": mismatch_count, "mismatches": mismatches})
}

fn push_rle<T: PartialEq + Clone>(v: &mut Vec<(T, u64)>, x: T) {
    if let Some(last) = v.last_mut() {
        if last.0 == x {
            last.1 += 1;
            return;
        }
    }
    v.push((x, 1));
}

fn main() {
    let stdin = std::io::stdin();
    let stdout = std::io::stdout();
    let mut out = std::io::BufWriter::new(stdout.lock());
    for line in stdin.lock().lines() {
        let line = line.unwrap();
        if line.trim().is_empty() {
            continue;
        }
        let cmd: Cmd = serde_json::from_str(&line).expect("bad command");
        match cmd.kind.as_str() {
            // one fresh StatusState per command; every step's returned report is recorded (run-length encoded)
            "health" => {
                let mut s = common::StatusState::new();
                let mut outs: Vec<(String, u64)> = Vec::new();
                for (ok, n) in cmd.rle.iter() {
                    for _ in 0..*n {
                        let r = s.update_state(*ok == 1);
                        push_rle(&mut outs, r);
                    }
                }
                writeln!(out, "{}", serde_json::json!({ "out": outs })).unwrap();
            }
            "rate" => {
                let mut s = service_main::service_state::ServiceState::default();
                let mut outs: Vec<(bool, u64)> = Vec::new();
                for (k, v, n) in cmd.events.iter() {
                    for _ in 0..*n {
                        let r = s.update_service_state_entry(k, v, cmd.max);
                        push_rle(&mut outs, r);
                    }
                }
                writeln!(out, "{}", serde_json::json!({ "out": outs })).unwrap();
            }
            "cover" => {
                let g: Graph = serde_json::from_str(&std::fs::read_to_string(&cmd.graph).unwrap()).unwrap();
                let res = match cmd.machine.as_str() {
                    "health" => cover(
                        &g,
                        &|| common::StatusState::new(),
                        &|s: &mut common::StatusState, l| serde_json::json!(s.update_state(l == "ok")),
                    ),
                    "rate" => {
                        let max = cmd.max;
                        cover(
                            &g,
                            &|| service_main::service_state::ServiceState::default(),
                            &move |s: &mut service_main::service_state::ServiceState, l| {
                                serde_json::json!(s.update_service_state_entry(
                                    l[0].as_str().unwrap(),
                                    l[1].as_str().unwrap(),
                                    max
                                ))
                            },
                        )
                    }
                    m => panic!("unknown machine {}", m),
                };
                writeln!(out, "{}", res).unwrap();
            }
            "constants" => {
                writeln!(
                    out,
                    "{}",
                    serde_json::json!({
                        "success": constants::SUCCESS_STATUS,
                        "transitioning": constants::TRANSITIONING_STATUS,
                        "error": constants::ERROR_STATUS,
                    })
                )
                .unwrap();
            }
            // the monitor loop's health report, poll by poll (hook service_main::verif_report_step), with the objects
            // the loop keeps between polls.  Before each poll the agent's aggregate status file is put into the state the
            // letter names: 's' refreshed by a healthy agent (new timestamp), 'u' left as it is (a healthy agent that has
            // not rewritten it since: same timestamp), 'm' missing, 'v' written by another version, 'g' not JSON.
            // MUST run in a private mount namespace with a tmpfs over /var/log (the path is a constant of the code).
            "report" => {
                let dir = std::path::PathBuf::from(proxy_agent_shared::proxy_agent_aggregate_status::PROXY_AGENT_AGGREGATE_STATUS_FOLDER);
                let file = dir.join(proxy_agent_shared::proxy_agent_aggregate_status::PROXY_AGENT_AGGREGATE_STATUS_FILE_NAME);
                if std::env::var("VERIF_VARLOG_IS_PRIVATE").unwrap_or_default() != "1" {
                    panic!("report: refusing to write {} outside the private mount namespace", file.display());
                }
                std::fs::create_dir_all(&dir).unwrap();
                logger::init_logger("/var/log/verif-ext-logs".to_string(), constants::SERVICE_LOG_FILE);
                let version = "1.0.30".to_string();
                let doc = |ver: &str, n: u64| {
                    serde_json::json!({
                        "timestamp": format!("2026-01-01T00:00:{:02}.{:03}Z", n % 60, n % 1000),
                        "proxyAgentStatus": {
                            "version": ver, "status": "SUCCESS",
                            "monitorStatus": {"status": "RUNNING", "message": "m"},
                            "keyLatchStatus": {"status": "RUNNING", "message": "k"},
                            "ebpfProgramStatus": {"status": "RUNNING", "message": "e"},
                            "proxyListenerStatus": {"status": "RUNNING", "message": "l"},
                            "telemetryLoggerStatus": {"status": "RUNNING", "message": "t"},
                            "proxyConnectionsCount": n
                        },
                        "proxyConnectionSummary": [{"userName": "VERIFUSER", "ip": "168.63.129.16", "port": 80, "processCmdLine": "c",
                            "responseStatus": "200 OK", "count": n + 1, "userGroups": [], "processFullPath": "/p"}],
                        "failedAuthenticateSummary": []
                    })
                    .to_string()
                };
                let mut status = structs::StatusObj {
                    name: "n".to_string(),
                    operation: "o".to_string(),
                    configurationAppliedTime: String::new(),
                    status: constants::TRANSITIONING_STATUS.to_string(),
                    code: 0,
                    formattedMessage: structs::FormattedMessage { lang: "en-US".to_string(), message: String::new() },
                    substatus: Vec::new(),
                };
                let mut st = common::StatusState::new();
                let mut restored = false;
                let mut ss = service_main::service_state::ServiceState::default();
                let mut outs: Vec<String> = Vec::new();
                let mut oks: Vec<u8> = Vec::new();
                // state notifications emitted during a poll, read back from the service log (every emitted event is logged):
                // [read-file success, read-file error, file-version error, file-version success]
                let mut emits: Vec<[bool; 4]> = Vec::new();
                let log_file = std::path::PathBuf::from("/var/log/verif-ext-logs").join(constants::SERVICE_LOG_FILE);
                let mut log_seen = std::fs::read(&log_file).map(|b| b.len()).unwrap_or(0);
                let mut have_good = false;
                let mut last_good: Option<String> = None; // what the healthy agent wrote last (restored by 'u' after a failure)
                // nothing drains the process-wide event queue here (bounded, 1000): once it is full an emitted event is logged
                // as "Failed to push event ..." instead of its text and could not be told from silence; reported, so that the
                // orchestrator keeps the number of histories per process small and treats a full queue as a tool error
                let mut queue_full = false;
                for (n, ch) in cmd.polls.chars().enumerate() {
                    match ch {
                        's' => {
                            let d = doc(&version, n as u64);
                            std::fs::write(&file, &d).unwrap();
                            last_good = Some(d);
                            have_good = true;
                        }
                        'u' => {
                            if !have_good {
                                let d = last_good.clone().unwrap_or_else(|| doc(&version, n as u64));
                                std::fs::write(&file, &d).unwrap();
                                last_good = Some(d);
                                have_good = true;
                            }
                        }
                        'm' => { let _ = std::fs::remove_file(&file); have_good = false; }
                        'v' => { std::fs::write(&file, doc("0.9.9", n as u64)).unwrap(); have_good = false; }
                        'g' => { std::fs::write(&file, "{ not json").unwrap(); have_good = false; }
                        other => panic!("report: unknown poll letter {}", other),
                    }
                    service_main::verif_report_step(&version, &mut status, &mut st, &mut restored, &mut ss);
                    oks.push(if have_good { 1 } else { 0 });
                    outs.push(status.status.clone());
                    let all = std::fs::read(&log_file).unwrap_or_default();
                    let fresh = String::from_utf8_lossy(&all[log_seen.min(all.len())..]).to_string();
                    log_seen = all.len();
                    queue_full |= fresh.contains("Failed to push event to the queue");
                    emits.push([
                        fresh.contains("Successfully read proxy agent aggregate status file"),
                        fresh.contains("Error in reading proxy agent aggregate status file"),
                        fresh.contains("does not match proxy agent file version"),
                        fresh.contains("VERIFUSER"),
                    ]);
                }
                let _ = std::fs::remove_file(&file);
                writeln!(out, "{}", serde_json::json!({ "out": outs, "ok": oks, "emit": emits, "queue_full": queue_full })).unwrap();
            }
            "handler" => handler_drv::run(&line, &mut out),
            // C20: one history of the REAL monitor loop (paused clock) per line; must run inside harness/sys/ns_enter.sh
            "monitor" => monitor_drv::run(&line, &mut out),
            other => panic!("unknown kind {}", other),
        }
    }
    out.flush().unwrap();
}
