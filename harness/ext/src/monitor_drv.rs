// C20, kind "monitor": the REAL monitor loop (service_main::monitor_thread through hook H10
// service_main::verif_monitor_thread) on a current-thread tokio runtime with a PAUSED clock, next to a driver task
// that plays the environment between two polls: the agent rewriting / losing its aggregate status file and the
// enable handler moving the sequence number.  After every completed poll every <seq>.status file of the status
// folder is read back; checks/c20.py turns the record into a trace for spec/trace/HealthLoopTrace.tla.
//
// One JSON line on stdin per history:
//   {"kind":"monitor","seq0":"0","ext_version":"1.0.30","tmp":"same","steps":[[["1"],"u",""], [[],"s","1"], ...]}
// ext_version = what the extension's copy of the agent answers to --version (the installed stand-in always answers
// 1.0.30: another value here is a VERSION MISMATCH, and the loop runs the install step on every new sequence number);
// tmp = where the process's temporary directory (TMPDIR) is: "same" a directory of the scratch file system, which
// also holds the status folder, "other" /tmp (this run's overlay, another file system); both are verified by st_dev.
// steps[k] = what happens before poll k (third element: what the STAND-IN setup tool's `install` does from now on:
// "" no change, "<n>" exit with n, "x" cannot be started = its x bits are taken away): the sequence-number changes (each one = the enable handler's two calls,
// common::update_current_seq_no and, when it says so, common::report_status_enable_command) and then the state of
// the agent's aggregate status file, one letter as in kind "report": 's' refreshed by a healthy agent (new
// content), 'u' left as it is / the last healthy content again, 'm' missing, 'v' other version, 'g' not JSON.
// `enable` with seq0 has run before the loop starts (as on a VM: the handler starts the service).
//
// WHAT THE LOOP TOUCHES, AND WHY NOTHING OF IT IS THE REAL SYSTEM
//   * everything it finds through the directory of the running executable (misc_helpers::get_current_exe_dir):
//     HandlerEnvironment.json (-> statusFolder, logFolder), current_seq_no.txt, status/ (interim install report),
//     ProxyAgent/ProxyAgent/azure-proxy-agent (get_proxy_agent_exe_path, run with --version) and the SETUP TOOL
//     ProxyAgent/proxy_agent_setup (common::setup_tool_exe_path).  The orchestrator hard-links this binary into a
//     scratch directory under /verif/.build, so all of these are scratch files; the setup tool there is a STUB
//     shell script written below (it appends its arguments to setup_calls.log and exits 0).  The real
//     proxy_agent_setup is never built, copied or executed by this kind.
//   * two constant paths: /usr/sbin/azure-proxy-agent (common::get_proxy_agent_service_path, run with --version on
//     every sequence-number change; when its answer differs from the extension's copy the loop runs
//     `<setup tool> backup` and `<setup tool> install`) and /var/log/azure-proxy-agent/status.json (read only).
//     Both are created HERE, inside the sandbox of harness/sys/ns_enter.sh: a private mount namespace
//     (`unshare -m --propagation private`) with an overlayfs over /etc /usr /var /tmp /root /home /opt ... whose
//     upper layers live in the scratch directory.  The service-path stub prints the same version as the
//     extension's copy unless the history asks for a version mismatch, so by default the loop runs neither backup
//     nor install and the only setup tool calls are the one `purge` / `restore` of restore_purge_proxyagent (first
//     Success / Error report); in a mismatch history `backup` and `install` are run too.  ALL of them reach the
//     stub, which only logs its arguments and, for `install`, exits with the code the history prescribes.  The
//     orchestrator treats backup/install calls in a history without mismatch as a tool error.
//   * before anything is written or the loop is started, `sandbox()` below verifies from /proc/self/mounts that
//     /usr, /var and /etc ARE this run's overlays (upperdir under $VERIF_C17_SANDBOX), that the mount namespace is
//     not the one ns_enter.sh was started from, and that the executable itself lives in the scratch directory;
//     otherwise it panics (exit 101 = tool error) without having touched anything.
// So even a mutant of the loop that ran the stub with other arguments, or wrote to /usr or /var directly, would
// only change the overlay's upper layer in the scratch directory, which is deleted after the run.
use crate::{common, constants, logger, service_main};
use proxy_agent_shared::misc_helpers;
use proxy_agent_shared::proxy_agent_aggregate_status as agg;
use std::io::Write;
use std::path::{Path, PathBuf};
use std::time::Duration;

const INSTALLED_VERSION: &str = "1.0.30";
const OTHER_VERSION: &str = "0.9.9";

#[derive(serde::Deserialize)]
struct MCmd {
    seq0: String,
    #[serde(default)]
    ext_version: String,
    #[serde(default)]
    tmp: String,
    steps: Vec<(Vec<String>, String, String)>,
}

fn version_stub(v: &str) -> String {
    format!("#!/bin/sh\n# verif stand-in (C20 monitor): answers --version only\necho {}\n", v)
}

fn dev_of(p: &Path) -> u64 {
    use std::os::unix::fs::MetadataExt;
    std::fs::metadata(p).unwrap_or_else(|e| panic!("monitor: stat {}: {}", p.display(), e)).dev()
}

fn sandbox(exe_dir: &Path) -> PathBuf {
    let s = std::env::var("VERIF_C17_SANDBOX").expect("monitor: not started through harness/sys/ns_enter.sh");
    let outer = std::env::var("VERIF_OUTER_MNTNS").expect("monitor: VERIF_OUTER_MNTNS missing");
    let mine = std::fs::read_link("/proc/self/ns/mnt").expect("monitor: /proc/self/ns/mnt");
    if mine.to_string_lossy() == outer || outer.is_empty() {
        panic!("monitor: not in a private mount namespace, refusing to run the monitor loop");
    }
    let mounts = std::fs::read_to_string("/proc/self/mounts").expect("monitor: /proc/self/mounts");
    for d in ["usr", "var", "etc"] {
        let ok = mounts.lines().any(|l| {
            l.starts_with(&format!("verif-c17-{} /{} overlay ", d, d)) && l.contains(&format!("upperdir={}/ov/{}/up", s, d))
        });
        if !ok {
            panic!("monitor: /{} is not this run's overlay, refusing to run the monitor loop", d);
        }
    }
    if !exe_dir.starts_with(&s) {
        panic!("monitor: the executable is not inside the scratch directory {}", s);
    }
    PathBuf::from(s)
}

fn put_script(path: &Path, text: &str) {
    use std::os::unix::fs::PermissionsExt;
    std::fs::create_dir_all(path.parent().unwrap()).unwrap();
    std::fs::write(path, text).unwrap();
    std::fs::set_permissions(path, std::fs::Permissions::from_mode(0o755)).unwrap();
}

fn prepare(exe_dir: &Path) {
    static ONCE: std::sync::Once = std::sync::Once::new();
    ONCE.call_once(|| {
        // inside the /usr overlay of this run (sandbox() has verified it)
        put_script(&common::get_proxy_agent_service_path(), &version_stub(INSTALLED_VERSION));
        put_script(
            &common::setup_tool_exe_path(),
            "#!/bin/sh\n# verif stand-in for proxy_agent_setup (C20 monitor): records its arguments and does nothing;\n\
             # `install` exits with the code found in setup_install_rc\n\
             d=\"$(dirname \"$0\")/..\"\necho \"$*\" >> \"$d/setup_calls.log\"\n\
             if [ \"$1\" = install ] && [ -f \"$d/setup_install_rc\" ]; then exit \"$(cat \"$d/setup_install_rc\")\"; fi\nexit 0\n",
        );
        std::fs::create_dir_all(exe_dir.join("tmp")).unwrap();
        std::fs::create_dir_all(agg::PROXY_AGENT_AGGREGATE_STATUS_FOLDER).unwrap();
        logger::init_logger(
            misc_helpers::path_to_string(&exe_dir.join("log")),
            constants::SERVICE_LOG_FILE,
        );
    });
}

fn agg_doc(ver: &str, n: u64) -> String {
    serde_json::json!({
        "timestamp": format!("2026-01-01T00:{:02}:{:02}.{:03}Z", (n / 60) % 60, n % 60, n % 1000),
        "proxyAgentStatus": {
            "version": ver, "status": "SUCCESS",
            "monitorStatus": {"status": "RUNNING", "message": "m"},
            "keyLatchStatus": {"status": "RUNNING", "message": "k"},
            "ebpfProgramStatus": {"status": "RUNNING", "message": "e"},
            "proxyListenerStatus": {"status": "RUNNING", "message": "l"},
            "telemetryLoggerStatus": {"status": "RUNNING", "message": "t"},
            "proxyConnectionsCount": n
        },
        // count = the tag of this content: it reaches the report (ProxyAgentConnectionSummary substatus)
        "proxyConnectionSummary": [{"userName": "VERIFUSER", "ip": "168.63.129.16", "port": 80, "processCmdLine": "c",
            "responseStatus": "200 OK", "count": n, "userGroups": [], "processFullPath": "/p"}],
        "failedAuthenticateSummary": []
    })
    .to_string()
}

/// every <seq>.status of the status folder: seq -> {status, code, message, sub: [[name, status, message]..]}
fn read_status_folder(folder: &Path) -> serde_json::Value {
    let mut m = serde_json::Map::new();
    if let Ok(rd) = std::fs::read_dir(folder) {
        for e in rd.flatten() {
            let p = e.path();
            if p.extension().and_then(|x| x.to_str()) != Some(constants::STATUS_FILE_SUFFIX) {
                continue;
            }
            let seq = p.file_stem().unwrap().to_string_lossy().to_string();
            let text = std::fs::read_to_string(&p).unwrap_or_default();
            let v: serde_json::Value = serde_json::from_str(&text).unwrap_or(serde_json::Value::Null);
            let s = &v[0]["status"];
            if s.is_object() {
                let sub: Vec<serde_json::Value> = s["substatus"]
                    .as_array()
                    .map(|a| a.iter().map(|x| serde_json::json!([x["name"], x["status"], x["formattedMessage"]["message"]])).collect())
                    .unwrap_or_default();
                m.insert(seq, serde_json::json!({"status": s["status"], "code": s["code"], "operation": s["operation"],
                    "message": s["formattedMessage"]["message"], "sub": sub}));
            } else {
                m.insert(seq, serde_json::json!({"raw": text.chars().take(200).collect::<String>()}));
            }
        }
    }
    serde_json::Value::Object(m)
}

struct Env {
    version: String,           // the extension's copy of the agent (what a healthy aggregate status must carry)
    exe_dir: PathBuf,
    status_folder: PathBuf,
    agg_file: PathBuf,
    n: u64,                    // content counter of the healthy agent
    have_good: bool,           // the aggregate status file currently holds a healthy document
    last_good: Option<(String, u64)>,
    events: Vec<serde_json::Value>,
}

impl Env {
    /// the enable handler's part that the loop can see (handler_main.rs enable_handler)
    fn enable(&mut self, seq: &str) {
        let wrote = match common::update_current_seq_no(seq, &self.exe_dir) {
            Ok(true) => {
                common::report_status_enable_command(self.status_folder.to_path_buf(), seq, None);
                true
            }
            Ok(false) => false,
            Err(e) => panic!("monitor: update_current_seq_no failed: {}", e),
        };
        self.events.push(serde_json::json!({"e": "seq", "to": seq, "wrote": wrote, "files": read_status_folder(&self.status_folder)}));
    }

    /// what the stand-in setup tool's `install` does from now on
    fn set_install(&mut self, what: &str) {
        use std::os::unix::fs::PermissionsExt;
        let tool = common::setup_tool_exe_path();
        let mode = |m: u32| std::fs::set_permissions(&tool, std::fs::Permissions::from_mode(m)).unwrap();
        match what {
            "" => {}
            "x" => mode(0o644),
            n => {
                let _: i32 = n.parse().expect("monitor: install exit code");
                std::fs::write(self.exe_dir.join("setup_install_rc"), n).unwrap();
                mode(0o755);
            }
        }
    }

    /// the stand-in's calls since the last look
    fn take_setup_calls(&mut self) -> Vec<String> {
        let p = self.exe_dir.join("setup_calls.log");
        let calls = std::fs::read_to_string(&p).unwrap_or_default();
        let _ = std::fs::remove_file(&p);
        calls.lines().map(|l| l.to_string()).collect()
    }

    /// returns (success observation expected, tag of the content the loop will read)
    fn set_agg(&mut self, letter: &str) -> (u8, String) {
        match letter {
            "s" => {
                self.n += 1;
                let d = agg_doc(&self.version, self.n);
                std::fs::write(&self.agg_file, &d).unwrap();
                self.last_good = Some((d, self.n));
                self.have_good = true;
            }
            "u" => {
                if !self.have_good {
                    let (d, n) = self.last_good.clone().unwrap_or_else(|| {
                        self.n += 1;
                        (agg_doc(&self.version, self.n), self.n)
                    });
                    std::fs::write(&self.agg_file, &d).unwrap();
                    self.last_good = Some((d, n));
                    self.have_good = true;
                }
            }
            "m" => {
                let _ = std::fs::remove_file(&self.agg_file);
                self.have_good = false;
            }
            "v" => {
                self.n += 1;
                std::fs::write(&self.agg_file, agg_doc(OTHER_VERSION, self.n)).unwrap();
                self.have_good = false;
            }
            "g" => {
                std::fs::write(&self.agg_file, "{ not json").unwrap();
                self.have_good = false;
            }
            other => panic!("monitor: unknown letter {}", other),
        }
        if self.have_good {
            (1, format!("t{}", self.last_good.as_ref().unwrap().1))
        } else {
            (0, letter.to_string())
        }
    }
}

fn count_polls(log_file: &Path, seen: &mut usize) -> usize {
    let all = std::fs::read(log_file).unwrap_or_default();
    if all.len() < *seen {
        *seen = 0; // rolled
    }
    let fresh = String::from_utf8_lossy(&all[*seen..]).to_string();
    *seen = all.len();
    // common::get_current_seq_no logs one of these once per iteration of the loop
    fresh.matches("Current seq no: ").count() + fresh.matches("Error reading current seq no file").count()
}

pub fn run(line: &str, out: &mut dyn Write) {
    let c: MCmd = serde_json::from_str(line).expect("bad monitor command");
    let exe_dir = misc_helpers::get_current_exe_dir();
    sandbox(&exe_dir);
    prepare(&exe_dir);

    static HIST: std::sync::atomic::AtomicUsize = std::sync::atomic::AtomicUsize::new(0);
    let idx = HIST.fetch_add(1, std::sync::atomic::Ordering::SeqCst);
    let hdir = exe_dir.join(format!("h{}", idx));
    let status_folder = hdir.join("status");
    std::fs::create_dir_all(&status_folder).unwrap();
    // a write probe of the harness itself: only if THIS fails the folder is unusable (tool error); whatever the code under
    // test fails to put there afterwards is an observation
    {
        let probe = status_folder.join("verif-probe");
        std::fs::write(&probe, b"probe").expect("monitor: the status folder is not writable");
        std::fs::remove_file(&probe).expect("monitor: the status folder is not writable");
    }
    // the environment dimension "temporary directory of the process": same file system as the status folder, or another one
    let tmpdir = match c.tmp.as_str() {
        "" | "same" => exe_dir.join("tmp"),
        "other" => PathBuf::from("/tmp"),
        o => panic!("monitor: unknown tmp layout {}", o),
    };
    std::env::set_var("TMPDIR", &tmpdir);
    let same_fs = dev_of(&std::env::temp_dir()) == dev_of(&status_folder);
    if same_fs != (c.tmp != "other") {
        panic!("monitor: layout {:?} asked for, but temp dir {} and the status folder are {} file system",
               c.tmp, std::env::temp_dir().display(), if same_fs { "one" } else { "not one" });
    }
    // what the enable handler's document looks like: written by the real function into a folder INSIDE the temporary
    // directory (no file-system boundary in between, whatever the layout)
    let handler_doc = {
        let pf = std::env::temp_dir().join(format!("verif-c20-probe-{}", std::process::id()));
        let _ = std::fs::remove_dir_all(&pf);
        common::report_status_enable_command(pf.to_path_buf(), "0", None);
        let v = read_status_folder(&pf);
        let _ = std::fs::remove_dir_all(&pf);
        v["0"].clone()
    };
    let p2s = |p: &Path| misc_helpers::path_to_string(p);
    std::fs::write(
        exe_dir.join(constants::HANDLER_ENVIRONMENT_FILE),
        serde_json::json!([{"version": 1.0, "handlerEnvironment": {
            "logFolder": p2s(&exe_dir.join("log")), "configFolder": p2s(&hdir.join("config")),
            "statusFolder": p2s(&status_folder), "heartbeatFile": p2s(&hdir.join("heartbeat.json")),
            "eventsFolder": p2s(&hdir.join("events"))}}])
        .to_string(),
    )
    .unwrap();
    let version = if c.ext_version.is_empty() { INSTALLED_VERSION.to_string() } else { c.ext_version.clone() };
    put_script(&exe_dir.join("ProxyAgent/ProxyAgent/azure-proxy-agent"), &version_stub(&version));
    let _ = std::fs::remove_file(exe_dir.join(constants::CURRENT_SEQ_NO_FILE));
    let _ = std::fs::remove_dir_all(exe_dir.join("status")); // interim reports of the install step
    let agg_file = PathBuf::from(agg::PROXY_AGENT_AGGREGATE_STATUS_FOLDER).join(agg::PROXY_AGENT_AGGREGATE_STATUS_FILE_NAME);
    let _ = std::fs::remove_file(&agg_file);
    let log_file = exe_dir.join("log").join(constants::SERVICE_LOG_FILE);
    // the rolling logger opens its file for every line: start every history with an empty log (short reads below)
    let _ = std::fs::remove_file(&log_file);
    let mut log_seen = 0usize;

    let mut env = Env { version, exe_dir, status_folder: status_folder.clone(), agg_file, n: (idx as u64) * 100_000, have_good: false,
                        last_good: None, events: Vec::new() };
    env.set_install("0");
    let _ = env.take_setup_calls();
    env.enable(&c.seq0);
    {
        let first = env.events.pop().unwrap();
        env.events.push(serde_json::json!({"e": "reset", "cur": c.seq0, "wrote": first["wrote"], "files": first["files"]}));
    }

    let rt = tokio::runtime::Builder::new_current_thread()
        .enable_time()
        .start_paused(true)
        .build()
        .expect("paused current-thread runtime");
    let wall = std::time::Instant::now();
    let steps = c.steps;
    let (mut env, polls_total, virtual_s) = rt.block_on(async move {
        let mut polls_total = 0usize;
        let apply = |env: &mut Env, step: &(Vec<String>, String, String)| -> (u8, String) {
            for s in step.0.iter() {
                env.enable(s);
            }
            env.set_install(&step.2);
            env.set_agg(&step.1)
        };
        let mut expected = if steps.is_empty() { (0, String::new()) } else { apply(&mut env, &steps[0]) };
        let t0 = tokio::time::Instant::now();
        // the loop polls at t0, t0 + 15 s, ...; it has no suspension point inside an iteration, so on this
        // single-threaded runtime the driver below (awake at t0 + 15 k + 7 s) only ever runs between two polls
        let task = tokio::spawn(service_main::verif_monitor_thread());
        for k in 0..steps.len() {
            tokio::time::sleep_until(t0 + Duration::from_secs(15 * k as u64 + 7)).await;
            if task.is_finished() {
                panic!("monitor: the monitor loop ended");
            }
            let seen = count_polls(&log_file, &mut log_seen);
            polls_total += seen;
            let calls = env.take_setup_calls();
            env.events.push(serde_json::json!({"e": "poll", "k": k, "ok": expected.0, "obs": expected.1, "letter": steps[k].1,
                "polls_seen": seen, "setup": calls, "files": read_status_folder(&env.status_folder)}));
            if k + 1 < steps.len() {
                expected = apply(&mut env, &steps[k + 1]);
            }
        }
        task.abort();
        let _ = task.await;
        (env, polls_total, (tokio::time::Instant::now() - t0).as_secs())
    });
    drop(rt);
    env.set_install("0");
    let _ = std::fs::remove_file(&env.agg_file);
    let cur = common::get_current_seq_no(&env.exe_dir);
    let _ = env.take_setup_calls();
    writeln!(
        out,
        "{}",
        serde_json::json!({"events": env.events, "polls": polls_total, "virtual_s": virtual_s, "wall_ms": wall.elapsed().as_millis() as u64,
            "cur": cur, "handler_doc": handler_doc, "same_fs": same_fs, "installed_version": INSTALLED_VERSION, "ext_version": env.version,
            "names": [constants::PLUGIN_CONNECTION_NAME, constants::PLUGIN_STATUS_NAME, constants::PLUGIN_FAILED_AUTH_NAME]})
    )
    .unwrap();
}
