// X02_EXTHANDLER driver: the VM extension's handler commands and service loop, driven through the REAL entry points.
//
// One JSON line on stdin: {"kind":"handler","cmd":<c>, ...}
//
//   cmd = install | enable | disable | update | uninstall | reset     (+ "seq": the ConfigSequenceNumber)
//       runs handler_main::program_start(command, seq) exactly as the real main.rs does for a sub-command
//       (multi-thread runtime, one process per command) and then leaves the process with exit code 0; the
//       error paths of the code leave through their own process::exit codes.  Everything the command reads is
//       found through the directory of the running executable (HandlerEnvironment.json, current_seq_no.txt,
//       ../update.tag, ProxyAgent/proxy_agent_setup, ProxyAgentExt), so the orchestrator hard-links this binary
//       into a scratch handler directory.  A ProxyAgentExt started by `enable` is a hard link of this binary
//       too: it inherits stdin and blocks on it (a long-running process with a one-element command line, which
//       is what get_linux_extension_long_running_process looks for) until the orchestrator either closes the
//       pipe or sends it {"kind":"handler","cmd":"service"}.
//
//   cmd = service
//       the no-argument branch of the real main.rs: logger, event logger, linux::start_service_wait()
//       (service_main::run(): the real monitor and heartbeat loops on the real clock).  Never returns.
//
//   cmd = fn, op = update_seq | get_seq | report_enable | heartbeat | file_path   (+ dir/seq/status/log)
//       direct calls of the pub functions of common.rs with explicit directories (as the unit tests do);
//       answers one JSON line and keeps reading.
use crate::{common, constants, handler_main, linux, logger, structs, ExtensionCommand};
use proxy_agent_shared::misc_helpers;
use std::io::Write;
use std::path::PathBuf;

#[derive(serde::Deserialize)]
struct HCmd {
    cmd: String,
    #[serde(default)]
    seq: String,
    #[serde(default)]
    op: String,
    #[serde(default)]
    dir: String,
    #[serde(default)]
    status: Option<String>,
    #[serde(default)]
    log: String,
}

fn command_of(name: &str) -> Option<ExtensionCommand> {
    Some(match name {
        "install" => ExtensionCommand::Install,
        "enable" => ExtensionCommand::Enable,
        "disable" => ExtensionCommand::Disable,
        "update" => ExtensionCommand::Update,
        "uninstall" => ExtensionCommand::Uninstall,
        "reset" => ExtensionCommand::Reset,
        _ => return None,
    })
}

fn runtime() -> tokio::runtime::Runtime {
    tokio::runtime::Builder::new_multi_thread()
        .enable_all()
        .build()
        .expect("tokio runtime")
}

pub fn run(line: &str, out: &mut dyn Write) {
    let c: HCmd = serde_json::from_str(line).expect("bad handler command");
    if let Some(command) = command_of(&c.cmd) {
        let seq = c.seq.clone();
        runtime().block_on(async move {
            handler_main::program_start(command, seq).await;
        });
        writeln!(out, "{}", serde_json::json!({"done": c.cmd})).unwrap();
        out.flush().unwrap();
        // one process per handler command: never read a second line (a ProxyAgentExt started by `enable`
        // shares this stdin)
        std::process::exit(0);
    }
    match c.cmd.as_str() {
        "service" => {
            runtime().block_on(async move {
                let exe_path = misc_helpers::get_current_exe_dir();
                let log_folder = common::get_handler_environment(&exe_path).logFolder.to_string();
                logger::init_logger(log_folder, constants::SERVICE_LOG_FILE);
                common::start_event_logger().await;
                linux::start_service_wait().await;
            });
            std::process::exit(0);
        }
        "fn" => {
            if !c.log.is_empty() {
                logger::init_logger(c.log.clone(), constants::HANDLER_LOG_FILE);
            }
            let dir = PathBuf::from(&c.dir);
            let r = match c.op.as_str() {
                "update_seq" => match common::update_current_seq_no(&c.seq, &dir) {
                    Ok(b) => serde_json::json!({"ok": true, "report": b}),
                    Err(e) => serde_json::json!({"ok": false, "err": e.to_string()}),
                },
                "get_seq" => serde_json::json!({"seq": common::get_current_seq_no(&dir)}),
                "report_enable" => {
                    common::report_status_enable_command(dir, &c.seq, c.status.clone());
                    serde_json::json!({"ok": true})
                }
                "file_path" => serde_json::json!({"path": misc_helpers::path_to_string(
                    &common::get_file_path(dir, &c.seq, constants::STATUS_FILE_SUFFIX))}),
                "heartbeat" => {
                    common::report_heartbeat(
                        dir,
                        structs::HeartbeatObj {
                            status: constants::HEARTBEAT_READY_STATUS.to_string(),
                            code: constants::STATUS_CODE_OK.to_string(),
                            formattedMessage: structs::FormattedMessage {
                                lang: constants::LANG_EN_US.to_string(),
                                message: "Extension is running".to_string(),
                            },
                        },
                    );
                    serde_json::json!({"ok": true})
                }
                other => panic!("unknown handler fn op {}", other),
            };
            writeln!(out, "{}", r).unwrap();
        }
        other => panic!("unknown handler cmd {}", other),
    }
}
