#!/bin/sh
# Private mount namespace + overlayfs sandbox for running the REAL proxy_agent_setup binary (C17).
#
#   [VERIF_C17_LAYOUT=separate|samefs] ns_enter.sh <scratch-dir-under-.build> <command> [args...]
#
# Re-executes itself under `unshare -m --propagation private` and builds one of two layouts (the environment
# dimension "is the tool's own folder on the file system of the system locations?"), then executes the command.
#
# separate (default)  an overlayfs (lower = the real directory, upper/work = <scratch>/ov/<dir>/{up,wk}) over every
#                     top-level directory the tool could touch; the tool's folder stays in the scratch directory.
#                     /etc, /usr and the tool's folder are three different mounts: link(2) between them is EXDEV.
# samefs              ONE overlayfs whose lower layer is the whole real root (read-only by construction) and whose
#                     upper/work live on a tmpfs private to the namespace (<scratch>/ov), mounted at <scratch>/root;
#                     the command runs chroot-ed into it.  /etc/azure, /usr/sbin, /usr/lib/azure-proxy-agent,
#                     /usr/lib/systemd/system and the tool's folder (/var/lib/waagent/...) are plain directories of
#                     that one mount, so link(2) between them succeeds, as on a VM with one root file system.
#                     Inside the new root only /proc (a fresh procfs), four device nodes (null zero urandom random,
#                     bound one by one), the scratch directory and the tmpfs are not the overlay: every other path,
#                     /verif and /repo included, is copy-on-write into the tmpfs and is gone with the namespace.
#
# Nothing is ever created in the real root: mount points are existing directories only (the missing /etc/azure,
# /usr/lib/azure-proxy-agent are created by the tool itself, inside the upper layer); in the samefs layout the
# mount points made for the device nodes are files of the upper layer.
# The stand-in systemctl is installed at /usr/bin/systemctl *inside the overlay* and first on PATH.
# Exit codes 96..99 are sandbox set-up failures (tool errors for the check, never verdicts).
set -eu
HERE=$(cd "$(dirname "$0")" && pwd)
VERIF=$(cd "$HERE/../.." && pwd)
OVERLAY_DIRS="etc usr var tmp root home opt srv mnt media"
LAYOUT=${VERIF_C17_LAYOUT:-separate}
case "$LAYOUT" in
  separate|samefs) ;;
  *) echo "ns_enter: unknown layout $LAYOUT" >&2; exit 96 ;;
esac

if [ "${1:-}" != "--inside" ]; then
  S=$1
  case "$S" in
    "$VERIF"/.build/?*) ;;
    *) echo "ns_enter: scratch dir must be under $VERIF/.build/: $S" >&2; exit 96 ;;
  esac
  VERIF_OUTER_MNTNS=$(readlink /proc/self/ns/mnt)
  export VERIF_OUTER_MNTNS
  if [ "$LAYOUT" = samefs ]; then
    # mount points for the tmpfs and the new root: plain directories of the scratch directory
    rm -rf "$S/ov" "$S/root"
    mkdir -p "$S/ov" "$S/root"
  fi
  exec unshare -m --propagation private -- "$0" --inside "$@"
fi
shift
S=$1
shift
if [ "$(readlink /proc/self/ns/mnt)" = "${VERIF_OUTER_MNTNS:-none}" ] || [ -z "${VERIF_OUTER_MNTNS:-}" ]; then
  echo "ns_enter: not in a private mount namespace, refusing" >&2
  exit 97
fi
VERIF_C17_SANDBOX="$S"
export VERIF_C17_SANDBOX
VERIF_C17_LAYOUT="$LAYOUT"
export VERIF_C17_LAYOUT

if [ "$LAYOUT" = samefs ]; then
  R="$S/root"
  [ -d "$S/ov" ] && [ -d "$R" ] || { echo "ns_enter: $S/ov or $R missing" >&2; exit 98; }
  mount -t tmpfs -o mode=755 verif-c17-upper "$S/ov" || { echo "ns_enter: tmpfs mount failed" >&2; exit 98; }
  grep -q "^verif-c17-upper $S/ov tmpfs " /proc/self/mounts || { echo "ns_enter: $S/ov is not the tmpfs" >&2; exit 98; }
  mkdir "$S/ov/up" "$S/ov/wk"
  mount -t overlay verif-c17-root -o "lowerdir=/,upperdir=$S/ov/up,workdir=$S/ov/wk" "$R" || {
    echo "ns_enter: root overlay mount failed" >&2; exit 98; }
  grep -q "^verif-c17-root $R overlay " /proc/self/mounts || { echo "ns_enter: $R is not the overlay" >&2; exit 98; }
  # from here on everything is created below $R, i.e. in the upper layer on the tmpfs
  mount -t proc verif-c17-proc "$R/proc" || { echo "ns_enter: proc mount failed" >&2; exit 98; }
  for n in null zero urandom random; do
    : > "$R/dev/$n"
    mount --bind "/dev/$n" "$R/dev/$n" || { echo "ns_enter: bind of /dev/$n failed" >&2; exit 98; }
  done
  # the scratch directory (job, results, strace output, systemctl log) and the tmpfs (the driver lists the upper layer)
  mount --bind "$S" "$R$S" || { echo "ns_enter: bind of the scratch directory failed" >&2; exit 98; }
  mount --bind "$S/ov" "$R$S/ov" || { echo "ns_enter: bind of the tmpfs failed" >&2; exit 98; }
  mkdir -p "$S/bin"
  cp "$HERE/systemctl" "$S/bin/systemctl"
  chmod 755 "$S/bin/systemctl"
  cp "$HERE/systemctl" "$R/usr/bin/systemctl"
  chmod 755 "$R/usr/bin/systemctl"
  [ -e "$S/ov/up/usr/bin/systemctl" ] || { echo "ns_enter: stand-in systemctl did not land in the upper layer" >&2; exit 99; }
  PATH="$S/bin:$PATH"
  export PATH
  # shellcheck disable=SC2016
  exec chroot "$R" /bin/sh -c '
    HERE=$1; shift
    grep -q "^verif-c17-root / overlay " /proc/self/mounts || { echo "ns_enter: / is not the overlay" >&2; exit 98; }
    cmp -s "$HERE/systemctl" "$(command -v systemctl)" || { echo "ns_enter: systemctl is not the stand-in" >&2; exit 99; }
    cmp -s "$HERE/systemctl" /usr/bin/systemctl || { echo "ns_enter: /usr/bin/systemctl is not the stand-in" >&2; exit 99; }
    exec "$@"' sh "$HERE" "$@"
fi

rm -rf "$S/ov"
for d in $OVERLAY_DIRS; do
  [ -d "/$d" ] && [ ! -L "/$d" ] || continue
  mkdir -p "$S/ov/$d/up" "$S/ov/$d/wk"
  mount -t overlay "verif-c17-$d" -o "lowerdir=/$d,upperdir=$S/ov/$d/up,workdir=$S/ov/$d/wk" "/$d" || {
    echo "ns_enter: overlay mount over /$d failed" >&2; exit 98; }
done
for d in etc usr var; do
  grep -q "^verif-c17-$d /$d overlay " /proc/self/mounts || { echo "ns_enter: /$d is not overlaid" >&2; exit 98; }
done
# stand-in systemctl: in the overlay at the real location and first on PATH
mkdir -p "$S/bin"
cp "$HERE/systemctl" "$S/bin/systemctl"
chmod 755 "$S/bin/systemctl"
cp "$HERE/systemctl" /usr/bin/systemctl
chmod 755 /usr/bin/systemctl
cmp -s "$HERE/systemctl" "$(command -v systemctl)" || { echo "ns_enter: systemctl is not the stand-in" >&2; exit 99; }
PATH="$S/bin:$PATH"
export PATH
exec "$@"
