#!/bin/sh
# Private mount namespace + overlayfs sandbox for running the REAL proxy_agent_setup binary (C17).
#
#   ns_enter.sh <scratch-dir-under-.build> <command> [args...]
#
# Re-executes itself under `unshare -m --propagation private`, mounts an overlayfs (lower = the real directory,
# upper/work = <scratch>/ov/<dir>/{up,wk}) over every top-level directory the tool could touch, installs the
# stand-in systemctl at /usr/bin/systemctl *inside the overlay* and first on PATH, and only then executes the
# command.  Nothing is ever created in the real root: mount points are existing directories only (the missing
# /etc/azure, /usr/lib/azure-proxy-agent are created by the tool itself, inside the upper layer).
# Exit codes 96..99 are sandbox set-up failures (tool errors for the check, never verdicts).
set -eu
HERE=$(cd "$(dirname "$0")" && pwd)
VERIF=$(cd "$HERE/../.." && pwd)
OVERLAY_DIRS="etc usr var tmp root home opt srv mnt media"

if [ "${1:-}" != "--inside" ]; then
  S=$1
  case "$S" in
    "$VERIF"/.build/?*) ;;
    *) echo "ns_enter: scratch dir must be under $VERIF/.build/: $S" >&2; exit 96 ;;
  esac
  VERIF_OUTER_MNTNS=$(readlink /proc/self/ns/mnt)
  export VERIF_OUTER_MNTNS
  exec unshare -m --propagation private -- "$0" --inside "$@"
fi
shift
S=$1
shift
if [ "$(readlink /proc/self/ns/mnt)" = "${VERIF_OUTER_MNTNS:-none}" ] || [ -z "${VERIF_OUTER_MNTNS:-}" ]; then
  echo "ns_enter: not in a private mount namespace, refusing" >&2
  exit 97
fi
rm -rf "$S/ov"
for d in $OVERLAY_DIRS; do
  [ -d "/$d" ] && [ ! -L "/$d" ] || continue
  mkdir -p "$S/ov/$d/up" "$S/ov/$d/wk"
  mount -t overlay "verif-c17-$d" -o "lowerdir=/$d,upperdir=$S/ov/$d/up,workdir=$S/ov/$d/wk" "/$d" || {
    echo "ns_enter: overlay mount over /$d failed" >&2; exit 98; }
done
for d in etc usr var; do
  grep -q "^verif-c17-$d /$d overlay " /proc/self/mounts || { echo "ns_enter: /$d is not overlaid" >&2; exit 98; }
done
# stand-in systemctl: in the overlay at the real location and first on PATH
mkdir -p "$S/bin"
cp "$HERE/systemctl" "$S/bin/systemctl"
chmod 755 "$S/bin/systemctl"
cp "$HERE/systemctl" /usr/bin/systemctl
chmod 755 /usr/bin/systemctl
cmp -s "$HERE/systemctl" "$(command -v systemctl)" || { echo "ns_enter: systemctl is not the stand-in" >&2; exit 99; }
PATH="$S/bin:$PATH"
export PATH
VERIF_C17_SANDBOX="$S"
export VERIF_C17_SANDBOX
exec "$@"
